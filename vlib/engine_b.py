"""B engine: bounded native contract checks (labelled bounded; never counted as proved).

/verif/bounded is a small crate with path dependencies on /repo's crates.  Each *set* is a module
that enumerates a stated finite domain and evaluates contract predicates (plain-Rust renderings of
the same clauses the V/K units use) on the real, natively compiled functions, one call at a time.
"""
import hashlib
import json
import os
import shutil
import subprocess
import time
from .engine_k import Lock, CACHE

VERIF = os.path.dirname(os.path.dirname(os.path.abspath(__file__)))


def _workdir(repo):
    repo = os.path.realpath(repo)
    tag = 'main' if repo == '/repo' else hashlib.sha1(repo.encode()).hexdigest()[:8]
    return f"{CACHE}/bounded-{tag}", repo


def build(repo, timeout=3600):
    wd, repo = _workdir(repo)
    os.makedirs(wd, exist_ok=True)
    tmpl = open(f"{VERIF}/bounded/Cargo.toml.in").read()
    manifest = tmpl.replace('@REPO@', repo).replace('@VERIF@', VERIF)
    try:
        old = open(f"{wd}/Cargo.toml").read()
    except OSError:
        old = None
    if old != manifest:
        open(f"{wd}/Cargo.toml", 'w').write(manifest)
    # lock file from the repository so that resolution is offline and identical
    lock_src = f"{repo}/Cargo.lock"
    if not os.path.exists(f"{wd}/Cargo.lock"):
        shutil.copy(lock_src, f"{wd}/Cargo.lock")
    env = dict(os.environ, CARGO_NET_OFFLINE='true', CARGO_TARGET_DIR=f"{CACHE}/target-b")
    t0 = time.time()
    p = subprocess.run(['cargo', 'build', '--release', '--offline', '--manifest-path', f"{wd}/Cargo.toml"],
                       env=env, capture_output=True, text=True, timeout=timeout)
    return p.returncode == 0, p.stderr[-4000:], time.time() - t0, f"{CACHE}/target-b/release/bounded"


def run_sets(repo, sets, tier, seed):
    out = []
    with Lock('bounded'):
        ok, err, bt, binp = build(repo)
    if not ok:
        return [dict(engine='bounded', unit=f"bounded:{s}", status='undecided', obligations={}, failures=[],
                     notes=[f"bounded harness crate failed to build (treated as undecided): {err[-1500:]}"],
                     assumptions=[], rewrites=[], functions=[], smt_s=0.0, wall_s=bt, cmd='cargo build') for s in sets]
    for s in sets:
        t0 = time.time()
        cmd = [binp, 'run', s, '--tier', tier, '--seed', str(seed)]
        unit = dict(engine='bounded', unit=f"bounded:{s}", status='ok', obligations={}, failures=[], notes=[],
                    assumptions=[], rewrites=[], functions=[], smt_s=0.0, wall_s=0.0, cmd=' '.join(cmd))
        try:
            p = subprocess.run(cmd, capture_output=True, text=True, timeout=3 * 3600 if tier == 'thorough' else 1500,
                               cwd=f"{CACHE}")
        except subprocess.TimeoutExpired:
            unit['status'] = 'undecided'
            unit['notes'].append('bounded set timed out')
            out.append(unit)
            continue
        unit['wall_s'] = time.time() - t0
        try:
            j = json.loads(p.stdout[p.stdout.index('{'):])
        except Exception:
            unit['status'] = 'undecided'
            unit['notes'].append(f"bounded set produced no JSON (rc={p.returncode}): {p.stderr[-1500:]}")
            out.append(unit)
            continue
        unit['domain'] = j.get('domain', '')
        unit['exhaustive'] = j.get('exhaustive', False)
        unit['evaluations'] = j.get('evaluations', 0)
        unit['nontrivial'] = j.get('nontrivial', 0)
        unit['samples'] = j.get('samples', [])
        unit['functions'] = [dict(name=f, file='', line=0, body_sha='') for f in j.get('functions', [])]
        unit['assumptions'] = [dict(kind='bounded', line=0, text=f"BOUNDED stand-in, not a proof: {j.get('domain', '')}")]
        for oid, o in j.get('obligations', {}).items():
            if o.get('failures'):
                unit['obligations'][oid] = 'failed'
                unit['status'] = 'failed'
                # every retained failing case goes to the known-findings matcher (the set keeps the first 300 and then up to 25
                # per class of case), so a new failure is not hidden behind many instances of a listed one
                for fcase in o['failures']:
                    unit['failures'].append(dict(obligation=oid, function=o.get('function', ''), message=fcase.get('detail', '')[:600],
                                                 source=None, text='', rendered=fcase.get('detail', ''), case=fcase.get('case')))
            elif o.get('cases', 0) == 0:
                # vacuity guard: no enumerated case reached this obligation's precondition
                unit['obligations'][oid] = 'undecided'
                if unit['status'] == 'ok':
                    unit['status'] = 'undecided'
                unit['notes'].append(f"vacuity guard: obligation {oid} was exercised by 0 cases")
            else:
                unit['obligations'][oid] = 'held'
        out.append(unit)
    return out


def replay_case(repo, set_name, obligation, case):
    with Lock('bounded'):
        ok, err, bt, binp = build(repo)
    if not ok:
        print('replay: bounded harness failed to build:', err[-800:])
        return 2
    s = set_name.split(':', 1)[-1]
    p = subprocess.run([binp, 'replay', s, obligation, json.dumps(case)], capture_output=True, text=True, timeout=600)
    print(p.stdout[-4000:])
    if p.returncode == 1:
        print(f"replay: obligation {obligation} FAILS on the real code for the recorded input")
    elif p.returncode == 0:
        print(f"replay: obligation {obligation} holds for the recorded input on this tree")
    return p.returncode
