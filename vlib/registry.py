"""Which units decide which property.  `v`: unit files under units/ (extracted + Verus, or
spec-only lemma files); `k`: (crate, [harness...]) Kani groups, harness kind 'complete' unless
given as (name, 'bounded:<n>'); `b`: bounded native sets (never counted as proved)."""

PROPS = {
    'C20': dict(
        v=['C20_ids'],
        k=[('tensor_chain', ['c20_frame_flags_roundtrip', 'c20_method_from_flags_total', 'c20_length_prefix_roundtrip']),
           ('tensor_store', ['c07_header_roundtrip_fields', 'c07_header_roundtrip_bytes', 'c07_header_validate_exact'])],
        b=['c20_ids'],
        pairs={'C20_ids': ['bounded:c20_ids']},
        level='other',
        explanation='',
    ),
}
