"""Which units decide which property.

`v`: unit files under units/ (real functions extracted + Verus; or spec-only lemma files)
`k`: (crate, [harness...]) Kani groups — every harness is loop-free over the full input domain
     (complete) unless given as (name, 'bounded:<n>')
`b`: bounded native contract sets (stand-in; labelled bounded, never counted as proved)
`pairs`: V/K unit or obligation -> bounded obligations that search for a concrete failing input
"""

COMMON_NOTE = ("Trusted: Verus/Z3, Kani/CBMC, rustc, the extractor's rule catalogue (each application listed in the evidence); "
               "dependencies (bitcode, crc32fast, lz4, std I/O, HashMap internals) by assumed contract; no concurrency "
               "(locks erased, single thread); fsync/rename as specified by the OS.")

PROPS = {
    'C01': dict(
        v=['C01_kernels', 'C01_raft'],
        k=[('tensor_chain', ['c01_quorum_majority'])],
        b=['c01_handlers'],
        pairs={'C01_raft': ['bounded:c01_handlers']},
        level='other',
        technique='Verus contracts on the extracted Raft handlers (vote, append, commit) and kernels + election-safety lemma; Kani full-domain quorum harness',
        claim='per-handler Raft safety obligations proved for every node state and message, modulo the stated abstraction rules (locks erased, ids abstract, WAL/health externals): vote at most once per term and only for an up-to-date log, append consistency, acknowledgement and commit bounded by the verified prefix, commit only current-term entries acked by a quorum; quorum arithmetic (Verus + Kani); election-safety lemma',
        explanation='Per-function contracts on the real handlers are discharged deductively (level: proof modulo R4/R8-R13, listed); the history-level induction over N nodes x network x crashes is NOT claimed — the lemmas show how the per-handler contracts compose.',
    ),
    'C02': dict(
        v=['C02_replay', 'C02_append', 'C02_durable'], k=[], b=['c02_durable'],
        pairs={'C02_replay': ['bounded:c02_durable'], 'C02_durable': ['bounded:c02_durable'], 'C02_append': ['bounded:c02_durable']},
        level='other',
        technique='Verus: extracted WAL replay loop proved equal to a parse spec over a ghost byte stream + crash-prefix / whole-log theorems; the WAL writer TensorWal::{write_entry_no_sync, maybe_sync, append} proved to emit exactly one record of that format, to leave at most a torn record on failure and (SyncMode::Immediate) to acknowledge only after fsync; the durable writers SlabRouter::{put_durable, delete_durable, checkpoint} proved against ghost (memory map, WAL record sequence, snapshot map): acknowledged only after the record is at the end of the WAL, memory never ahead of the WAL, checkpoint installs the snapshot before marker and truncation at every exit, replay idempotence theorem',
        claim='TensorWal::replay_with_validation returns exactly parse(file) for every file content (Verus, modulo assumed read_exact/crc/codec contracts); parse(log ++ torn record) == log for every cut point (theorem); for every store state and every failure point between storage calls the writers leave (snapshot, WAL) such that replay returns every acknowledged write (Verus; append/truncate/save atomic w.r.t. their result, lock erased)',
        explanation='Replay/parse and the crash-prefix theorem are proved for all logs and all cut points; open/append/recover/checkpoint sequences on real files are bounded.',
    ),
    'C05': dict(
        v=['C05_adjacency'], k=[], b=['c05_graph'],
        pairs={'C05_adjacency': ['bounded:c05_graph']},
        level='other',
        technique='Verus: the adjacency bookkeeping statements of create_edge / delete_edge / delete_node (sequential and high-degree branch) extracted verbatim and proved against a ghost (list key, edge id) relation: create registers an edge exactly where the property demands, delete_edge removes it everywhere, each delete_node cleanup block removes it from every neighbour list, nothing else changes; add_edge_to_list proved to keep lists duplicate-free. Bounded native contract checks of GraphEngine (representation invariant + exact effect/frame after every operation of all short sequences, derived queries vs a spec over all_edges) cover the TensorData plumbing and whole operations',
        claim='list registration / cleanup logic proved for all endpoints, directions and self-loops (Verus; list storage abstracted by a ghost relation, key constructor injective); BOUNDED: after every create/delete/update in all operation sequences of length <= 5 over <= 4 nodes (incl. self-loops, parallel and undirected edges, hubs at and above the parallel-deletion threshold) the graph is well-formed, the edge set changed exactly as specified, and neighbors/degree/traverse equal the spec computed from all_edges. The multi-thread clause is NOT covered.',
        explanation='Adjacency logic proved; storage plumbing and whole operations bounded. Sequential contracts; concurrency out of reach of this technique.',
    ),
    'C08': dict(
        v=['C08_restore'], k=[], b=['c08_rollback'],
        pairs={'C08_restore': ['bounded:c08_rollback']},
        level='other',
        technique='Verus: TensorStore::restore_from_bytes (the function a rollback runs) extracted and proved against a ghost key/value view of the router: a bad image changes nothing, afterwards every live key is an image key with the image value (later data gone), every image entry the router accepts is present (nothing missing), tables equal the image tables; bounded native contract checks of snapshot_bytes/restore_from_bytes, CheckpointManager create/rollback/list and the QueryRouter CHECKPOINT / ROLLBACK TO / CHECKPOINTS statements: a ~100-probe view of tables, graph, embeddings and store keys is recorded at every checkpoint and compared after every rollback, over all short statement scripts; the checkpoint manager and router statements are async over tokio + a blob store and outside the Verus/Kani subset',
        claim='BOUNDED: on 32 pre-states x all enabled scripts of <= 2 statements (14 statement kinds) with a checkpoint before every statement: the view after restore / rollback equals the view at the checkpoint for every core read, further writes succeed, retention lists exactly the newest n, every listed checkpoint rolls back to its recorded view. Engine-resident indexes/counters, lossy 384-d slab embeddings and repeated rollbacks are open known findings.',
        explanation='restore_from_bytes proved at the level of the key/value view (slab internals, engine-resident indexes and the snapshot codec are outside it); everything else bounded.',
    ),
    'C09': dict(
        v=['C09_locks', 'C09_rollback'], k=[], b=['c09_reltx'],
        pairs={'C09_locks': ['bounded:c09_reltx'], 'C09_rollback': ['bounded:c09_reltx']},
        level='other',
        technique='Verus: the row lock table kernel RowLockManager::{try_lock, release} extracted from relational_engine/src/transaction.rs and proved (refusal on a live foreign lock changes nothing, grants are all-or-nothing with frame, every granted row is listed for the transaction, release removes exactly the listed locks of that transaction); RelationalEngine::rollback proved as a protocol over a ghost timeline (every undo entry applied once, newest first; row locks released only after the last undo entry, and always; transaction ends Aborted and removed); bounded native contract checks of relational transactions (rollback/commit views incl. indexed reads, lock exclusion at statement level, lock takeover after expiry, phase rules) over all short scripts of two interleaved transactions',
        claim='BOUNDED: on all single-transaction scripts <= 3 statements and all interleavings with one statement of a second transaction: rollback restores rows and every indexed read, commit equals non-transactional execution, modified rows conflict, multi-row lock acquisition is all-or-nothing, finished transactions are unusable, locks are released. Threads not covered.',
        explanation='Lock table kernel proved; statement-level behaviour (which rows a statement locks, undo) bounded. Threads not covered.',
    ),
    'C10': dict(
        v=['C10_fold', 'C10_walfile', 'C10_append', 'C01_raft'], k=[], b=['c10_raftwal'],
        pairs={'C10_fold': ['bounded:c10_raftwal'], 'C10_walfile': ['bounded:c10_raftwal'], 'C10_append': ['bounded:c10_raftwal']},
        level='other',
        technique='Verus: extracted RaftRecoveryState::from_entries proved equal to term/vote and log folds written from the property + stickiness lemmas; the open scan RaftWal::count_entries proved equal to the whole-record prefix (torn tail dropped on reopen); the writer RaftWal::{write_entry_bytes, append_entry} proved to emit exactly one record, flushed and fsynced before Ok, at most a torn record on failure; every Raft handler proved to persist (term, vote) before applying it (unit C01.raft, ghost WAL image); bounded native checks of restart sequences at every byte cut of real WAL files',
        claim='recovered (term, vote) = highest acted-on term and the FIRST vote recorded in it, recovered log = appended entries after truncations in index order, for every WAL entry sequence; reopen keeps exactly the whole records; an acknowledged append is one whole fsynced record; handlers answer only with durable (term, vote) (all Verus; BTreeMap, file I/O, crc and codec by assumed contract); BOUNDED: open/replay/restart contracts on real files at every cut point of scripted runs',
        explanation='Recovery fold proved for all entry sequences; file-level crash/restart sequences are bounded.',
    ),
    'C12': dict(
        v=['C12_locks'], k=[], b=['c12_locks'],
        pairs={'C12_locks': ['bounded:c12_locks']},
        level='other',
        technique='Verus: extracted LockManager::try_lock proved all-or-nothing over a real HashMap (vstd model), clock uninterpreted',
        claim='try_lock: refusal names a live conflicting holder and changes nothing; grant only if no requested key is held by another live transaction, then all requested keys are held with one handle and every other key is untouched (Verus, all tables and key sets, locks erased)',
        explanation='Grant/refuse contract proved; release/cleanup/wait-graph/cycle detection bounded.',
    ),
    'C04': dict(
        v=['C04_sortkey', 'C04_simd'], k=[('relational_engine', ['c04_ordfloat_total_order', 'c04_ordfloat_eq_implies_cmp_equal',
                                                     'c04_float_sort_key_monotone', 'c04_float_sort_key_roundtrip'])], b=['c04_relq'],
        pairs={'C04_simd': ['bounded:c04_relq']},
        level='other',
        technique='Kani full-domain harnesses on the OrderedFloat comparator and on the float index-key statements pasted from the real functions; Verus on the extracted integer index-key arithmetic and on the six extracted vectorised integer filters simd::filter_{lt,le,gt,ge,eq,ne}_i64 (bitmap bit k set iff it was set or row k satisfies the comparison, for every threshold and every length; wide::i64x4 lane operations by assumed contract)',
        claim='the btree key comparator is a total order on all f64 bit patterns; the persisted float index key is strictly monotone and decodes back to the value for EVERY f64 bit pattern (Kani, complete); the integer key is an order isomorphism with exact inverse for all i64 (Verus); the vectorised integer filters select exactly the matching rows for all inputs (Verus; float filters bounded only)',
        explanation='Comparator kernel and vectorised integer filters proved; the other query strategies are checked by the bounded sets.',
    ),
    'C06': dict(
        v=['C06_sparse'], k=[], b=['c06_search'],
        level='other',
        technique='Verus contracts on extracted SparseVector::try_from_dense / to_dense + round-trip lemma',
        claim='sparse<->dense conversion keeps exactly the non-zero entries with exact values, representation invariant holds (Verus, all inputs)',
        explanation='Representation round trip proved; search structure is bounded.',
    ),
    'C07': dict(
        v=['C07_save'], k=[('tensor_store', ['c07_header_roundtrip_fields', 'c07_header_roundtrip_bytes', 'c07_header_validate_exact'])], b=['c07_snapshot'],
        pairs={'C07_save': ['bounded:c07_snapshot']},
        level='other',
        technique='Verus: the v3 snapshot writer save_v3_with_compression extracted and proved against a ghost file system (the target path changes only by the final rename, which installs the whole header ++ payload image; every error exit keeps the previous snapshot; no other file is touched); Kani full-domain harnesses on SnapshotHeader raw codec and validate; bounded native checks of whole-store round trips through every format, interrupted saves, write failures and re-snapshots',
        claim='process-crash atomicity of the v3 writer proved for every router and every failure point between file-system calls (Verus; fsync/OS-crash durability not modelled); snapshot header codec is bijective on all 20-byte arrays and validate accepts exactly (V3 magic, current version) (Kani); BOUNDED: view equality after save/load for every format over the enumerated stores',
        explanation='Writer atomicity and header codec proved; store round trips bounded; quantising writer (save_snapshot_compressed) bounded only.',
    ),
    'C03': dict(
        v=['C03_coord'], k=[], b=['c03_2pc', 'c03_force'],
        pairs={'C03_coord': ['bounded:c03_2pc', 'bounded:c03_force']},
        level='other',
        technique='Verus: the decision-taking coordinator functions (commit, abort, complete_commit, complete_abort, force_resolve) extracted from distributed_tx.rs and proved against a coordinator invariant over a ghost image of the WAL record sequence (commit decision in memory iff durable; a durable abort is in memory; never both decisions on record); bounded native contract checks of vote recording, timeouts and the participant over all short call sequences',
        claim='for every coordinator state and every WAL append outcome: commit only from Prepared, the commit/abort record is durable before it is acted on, an abort is never taken or logged after a commit record exists (and vice versa), failed appends leave memory and log agreeing (Verus; lock erased, vote map projected away, WAL append atomic w.r.t. its result); BOUNDED: commit only with every yes vote, duplicate/late/non-participant votes, timeouts, participant apply-iff-commit on every call sequence of length <= 5 (quick) over 1-2 transactions x 2-3 shards',
        explanation='Decision stability of the coordinator proved per function against the durable-log invariant; vote counting (iterator adapters over the vote map), timeouts and the participant side are bounded; message-loss histories and threads are not covered.',
    ),
    'C13': dict(
        v=['C13_walfile', 'C13_append', 'C03_coord'], k=[], b=['c13_txrecovery', 'c03_2pc'],
        pairs={'C13_walfile': ['bounded:c13_txrecovery'], 'C13_append': ['bounded:c13_txrecovery'], 'C03_coord': ['bounded:c13_txrecovery']},
        level='other',
        technique='Verus: TxWal open scan proved equal to the whole-record-prefix spec (torn tail dropped on reopen); TxWal::append proved to add exactly one fsynced record before Ok and at most a torn record on failure (the contract unit C03.coord assumes for its WAL); the coordinator functions that write decision records proved to keep memory and the durable record sequence in agreement at every exit, including failed appends (unit C03.coord); bounded native checks of the recovery fold (exhaustive on short logs) and of recover-then-act at every byte cut of real WAL files',
        claim='TxWal::count_entries == whole-record prefix for every file (Verus); BOUNDED: classification fold matches the spec on all entry sequences <= 5 over 15 symbols, no logged outcome is reversible after recovery at any byte cut of scripted runs, an entry appended after a torn-tail reopen is recovered',
        explanation='Open scan proved; recovery behaviour bounded on real files.',
    ),
    'C16': dict(
        v=['C16_verify', 'C16_append', 'C16_merge'], k=[], b=['c16_chain'],
        pairs={'C16_verify': ['bounded:c16_chain'], 'C16_append': ['bounded:c16_chain'], 'C16_merge': ['bounded:c16_chain']},
        level='other',
        technique='Verus: TensorChain::find_and_merge_orthogonal proved to put into the block exactly the operations of the committing workspace followed by those of the workspaces it returns as merged (a rejected or unmarkable candidate contributes nothing); Chain::append proved to admit a block only at tip+1 with the tip hash as prev_hash, a matching transaction root and (beyond the first block) a verifying signature, to advance the tip by exactly that block and to change nothing when it refuses (storage assumed infallible, lock erased); extracted Block::verify_chain and Chain::verify_chain proved (verification Ok => every height links to its predecessor and is signed when keys are registered; hash/tx-root/signature uninterpreted); bounded native checks of append guards, tamper detection, commit atomicity, replica determinism',
        claim='chain walk soundness proved for every stored chain (Verus, crypto uninterpreted); BOUNDED: append guards, single/multi-mutation tamper detection on chains <= 4 blocks, workspace commit/rollback atomicity, state-root determinism',
        explanation='Verify walk proved; the remaining obligations bounded. Open known findings are listed in known_findings.json.',
    ),
    'C14': dict(
        v=['C14_access'], k=[('tensor_vault', ['c14_permission_allows_total_order', 'c14_permission_level_roundtrip', 'c14_max_min_are_lattice_ops',
                                   'c14_attenuate_never_amplifies_and_monotone'])], b=['c14_vault'],
        pairs={'C14_access': ['bounded:c14_vault']},
        level='other',
        technique='Verus: the access decision kernel AccessController::get_permission_level_verified (BFS over MEMBER edges with signature check, distance attenuation and capacity bottleneck) extracted and proved SOUND for every graph: a permission is returned only if an entity within the horizon reachable over MEMBER edges holds an allowed VAULT_ACCESS edge to the target of at least that level (membership alone never confers access); Permission::allows / from_level, max/min_permission and AttenuationPolicy::attenuate proved against the level order. Kani full-domain harnesses on the permission lattice and attenuation policy',
        claim='decision soundness of get_permission_level_verified proved for every access graph, signer and policy (Verus; edge-type string tests and HMAC uninterpreted, BFS termination not proved); permission order/lattice ops and hop attenuation monotonicity proved for all policies and hop counts (Kani, complete); BOUNDED: whole-vault access decisions (grant / revoke / TTL expiry incl. group-held grants / delegation) against a spec decision with frame, and at-rest plaintext scans of store and snapshots, over the enumerated operation sequences',
        explanation='Lattice kernels proved; access decisions bounded.',
    ),
    'C15': dict(
        v=['C15_depth'], k=[('neumann_parser', ['c15_binding_power_matches_documented_levels', 'c15_stmt_binding_power_matches_documented_levels'])], b=['c15_parser'],
        level='other',
        technique='Verus: the recursion guard of the statement parser (enter_nested, parse_expr_bp, parse_select_body) proved to refuse exactly at MAX_DEPTH open levels and to close its level on every exit (the Pratt loop behind it is external and assumed depth-balanced); Kani full-domain harnesses on both copies of the Pratt binding-power table (expression parser expr.rs, statement parser parser.rs) vs the documented precedence levels; bounded native checks of totality, determinism, depth guard and statement/expression agreement',
        claim='both binding-power tables are order-isomorphic to the documented precedence, left-associative, prefix tighter than infix (Kani, complete)',
        explanation='Table proved; parser totality bounded.',
    ),
    'C17': dict(
        v=['C17_gossip'],
        k=[('tensor_chain', ['c17_sup_irreflexive', 'c17_sup_asymmetric', 'c17_sup_transitive', 'c17_sup_total_on_keys'])],
        b=['c17_merge', 'c17_manager'],
        pairs={'C17_gossip': ['bounded:c17_merge']},
        level='other',
        technique='Verus: extracted merge/tick/sync_time proved equal to a fold spec + convergence theorem; Kani: supersedes is a strict order',
        claim='real merge == left fold of "adopt iff greater in a strict total order" (Verus, all maps and batches); that fold is independent of order/grouping/repetition (Verus theorem); clock and merged incarnation never decrease; supersedes order kernel (Kani, all states)',
        explanation='CRDT mutators, clock and merge proved (Verus, Kani); the gossip manager as caller of those contracts and long merge orders are bounded (c17_manager, c17_merge).',
    ),
    'C18': dict(
        v=['C18_path', 'C18_unionfind'], k=[('graph_engine', ['c18_dijkstra_entry_total_order', 'c18_dijkstra_entry_min_heap_direction'])], b=['c18_paths'],
        pairs={'C18_path': ['bounded:c18_paths'], 'C18_unionfind': ['bounded:c18_paths']},
        level='other',
        technique='Verus: GraphEngine::find_path and reconstruct_path extracted and proved SOUND for every graph and filter (a returned path starts at the source, ends at the target, each step is an existing edge accepted by the filter and walked in an allowed direction, intermediate nodes pass the node filter) with a ghost BFS depth map making the parent pointers well-founded; the union-find behind connected_components (UnionFind::find / union) extracted and proved against a representative function with a ghost height map: find returns the representative and changes no set, union merges exactly the two sets, for every forest; Kani full-domain harnesses on the Dijkstra heap entry ordering; bounded native checks of optimality, completeness, weighted search, traversals, variable-length matches and the graph algorithms against brute force on small multigraphs',
        claim='validity of every path returned by find_path proved for all graphs (Verus; graph reads uninterpreted, termination not proved); union-find set semantics proved for all forests (Verus; ranks below usize::MAX; UnionFind::new and the edge loop not covered); heap entry order is total, NaN-safe and min-first (Kani, complete); BOUNDED: fewest hops / lowest weight / PathNotFound iff none, traversal and variable-length result sets, component / MST / k-core / triangle algorithms vs definitions on all enumerated multigraphs',
        explanation='Path validity of find_path, the union-find kernel and the heap order kernel proved; optimality, completeness and the other queries bounded.',
    ),
    'C19': dict(
        v=['C19_chunk', 'C19_refs'], k=[], b=['c19_blob'],
        pairs={'C19_refs': ['bounded:c19_blob'], 'C19_chunk': ['bounded:c19_blob']},
        level='other',
        technique='Verus: chunk reference counting and garbage collection extracted and proved against a ghost key -> record map: BlobWriter::store_chunk lists a chunk exactly when it adds one to its count, increment/decrement_chunk_refs change exactly that count (never below zero), delete_artifact decrements each chunk once per listing and touches no unlisted chunk, GarbageCollector::gc_cycle deletes only chunks whose count is zero; Chunker::chunk_count proved (nonlinear lemma; div_ceil by assumed std contract); bounded native checks of put/get/stream round trips, refcount view, gc and repair over short operation sequences',
        claim='one listing == one count, per-listing decrement, gc deletes only zero-count chunks and nothing else: for every store state (Verus; TensorStore get/put/delete and record field access assumed, single thread); chunk count is ceil(len/chunk_size) for every len and chunk_size >= 1 (Verus); BOUNDED: bytes returned == bytes written for every enumerated write pattern, verify/repair behaviour, full_gc',
        explanation='Reference-count kernel and chunk arithmetic proved; byte-level round trips, full_gc/repair and streaming bounded; concurrent writers/gc not covered.',
    ),
    'C20': dict(
        v=['C20_ids', 'C20_rle', 'C06_sparse', 'C20_frame', 'C20_sparsevec'],
        k=[('tensor_chain', ['c20_frame_flags_roundtrip', 'c20_method_from_flags_total', 'c20_length_prefix_roundtrip']),
           ('tensor_store', ['c07_header_roundtrip_fields', 'c07_header_roundtrip_bytes', 'c07_header_validate_exact'])],
        b=['c20_ids', 'c20_frames', 'c20_garbage', 'c20_vectors'],
        pairs={'C20_ids': ['bounded:c20_ids'], 'C20_frame': ['bounded:c20_frames'], 'C20_sparsevec': ['bounded:c20_vectors']},
        level='other',
        technique='Verus: extracted delta/varint/compress_ids/rle/sparse codecs proved against spec functions + round-trip theorems; the sparse snapshot vector arm of decompress_vector proved total and panic-free for every (dimension, position list, values); Kani: frame flags, length prefix, snapshot header; bounded native pair for replay',
        claim='id-list, varint, RLE and sparse codecs are exact inverses for ALL inputs and total on arbitrary bytes (Verus, unbounded); frame flag/length-prefix/header codecs (Kani, complete); bounded native pair supplies replayable inputs',
        explanation='Deductive part: every obligation of the V/K units. Bounded part (labelled): native enumeration used to attach concrete inputs to failed obligations.',
    ),
}
