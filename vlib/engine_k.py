"""K engine: Kani harnesses on the real crates.

The harness module for a crate lives in /verif/kani/<crate>.rs.  On every run the crate sources of
/repo's working tree are rsync'ed into a mirror, the harness file is copied to
<mirror>/<crate>/src/__verif_kani.rs and ONE line `#[cfg(kani)] mod __verif_kani;` is appended to
the crate's lib.rs *in the mirror* (add-only; /repo is never touched).  `cargo kani -p <crate>`
then compiles the real crate with the harnesses inside it, so private items are reachable.
"""
import fcntl
import os
import re
import subprocess
import time

VERIF = os.path.dirname(os.path.dirname(os.path.abspath(__file__)))
CACHE = os.environ.get('NEUMANN_VERIF_CACHE', '/var/tmp/neumann-verif')
MIRROR = f"{CACHE}/mirror"

RSYNC_EXCLUDES = ['/target', '/.git', '/docs', '/images', '/neumann-py', '/neumann-ts', '/deploy', '/Formula',
                  '/samples', '/*.tar.gz', '/test_output.log', '/neumann_docs/book', '__verif_kani.rs', '/fuzz/target',
                  '/fuzz/corpus', '/fuzz/artifacts']



class Lock:
    def __init__(self, name):
        os.makedirs(CACHE, exist_ok=True)
        self.path = f"{CACHE}/.{name}.lock"

    def __enter__(self):
        self.f = open(self.path, 'w')
        fcntl.flock(self.f, fcntl.LOCK_EX)
        return self

    def __exit__(self, *a):
        fcntl.flock(self.f, fcntl.LOCK_UN)
        self.f.close()


def _write_if_changed(path, content):
    try:
        if open(path).read() == content:
            return False
    except OSError:
        pass
    os.makedirs(os.path.dirname(path), exist_ok=True)
    open(path, 'w').write(content)
    return True


def harness_files():
    """{name: dict(crate, target_file, path)} from the `//@inject <crate> <file>` header of kani/*.rs"""
    res = {}
    for f in sorted(os.listdir(f"{VERIF}/kani")):
        if not f.endswith('.rs'):
            continue
        first = open(f"{VERIF}/kani/{f}").readline()
        m = re.match(r'//@inject\s+(\S+)\s+(\S+)', first)
        if not m:
            continue
        res[f[:-3]] = dict(crate=m.group(1), target=m.group(2), path=f"{VERIF}/kani/{f}")
    return res


def expand_paste(repo, text):
    """`//@paste file=<f> fn=<name> [impl=<T>] :: <anchor> || <anchor>` lines in a harness file are replaced by
    the statements of the real function that start at the anchors (verbatim; same extractor as the V engine)."""
    from .extract import extract_stmts, parse_kv
    out = []
    for line in text.split('\n'):
        m = re.match(r'\s*//@paste\s+(.*?)\s*::\s*(.*)$', line)
        if not m:
            out.append(line)
            continue
        kv = parse_kv(m.group(1))
        anchors = [a.strip() for a in m.group(2).split('||')]
        r = extract_stmts(repo, dict(file=kv['file'], src_fn=kv['fn'], impl=kv.get('impl'), anchors=anchors, ret=None,
                                     wrapper_sig='', directives=[]))
        body = r['text']
        inner = body[body.index('{') + 1:body.rindex('}')]
        out.append(f"    // ---- pasted verbatim from {kv['file']} fn {kv['fn']} ----")
        out.append(inner.rstrip())
        out.append("    // ---- end paste ----")
    return '\n'.join(out)


def sync_mirror(repo, crates=None):
    """rsync the working tree into the mirror and inject the harness modules (add-only)."""
    os.makedirs(MIRROR, exist_ok=True)
    ex = []
    for e in RSYNC_EXCLUDES:
        ex += ['--exclude', e]
    hf = harness_files()
    targets = {}
    for name, h in hf.items():
        targets.setdefault(h['target'], []).append(name)
        ex += ['--exclude', f"__verif_kani_{name}.rs"]
    for t in targets:
        ex += ['--exclude', '/' + t]
    subprocess.run(['rsync', '-a', '--delete'] + ex + [repo.rstrip('/') + '/', MIRROR + '/'], check=True)
    for t, names in targets.items():
        src = open(f"{repo}/{t}").read()
        for name in names:
            src += f'\n#[cfg(kani)]\n#[path = "__verif_kani_{name}.rs"]\nmod __verif_kani_{name};\n'
            _write_if_changed(f"{os.path.dirname(MIRROR + '/' + t)}/__verif_kani_{name}.rs", expand_paste(repo, open(hf[name]['path']).read()))
        _write_if_changed(f"{MIRROR}/{t}", src)
    return hf


HARNESS_RE = re.compile(r'Checking harness ([\w:]+)\.\.\.')


def run_kani(repo, crate, harnesses, timeout=900, mem_kb=24_000_000, extra_args=()):
    """Run the listed harnesses of one crate. Returns {harness: dict(status, time_s, checks, failed_checks, output)}"""
    t0 = time.time()
    results = {h: dict(status='undecided', time_s=0.0, output='', failed=[]) for h in harnesses}
    with Lock('kani'):
        sync_mirror(repo, [crate])
        cmd = ['cargo', 'kani', '-p', crate, '-Z', 'function-contracts', '-Z', 'stubbing', '--output-format', 'terse', '-j', '8']
        for h in harnesses:
            cmd += ['--harness', h]
        cmd += list(extra_args)
        env = dict(os.environ, CARGO_NET_OFFLINE='true', CARGO_TARGET_DIR=f"{CACHE}/target-kani")
        sh = f"ulimit -v {mem_kb}; exec " + ' '.join(cmd)
        try:
            p = subprocess.run(['bash', '-c', sh], cwd=MIRROR, env=env, capture_output=True, text=True, timeout=timeout)
            out = p.stdout + '\n' + p.stderr
            rc = p.returncode
        except subprocess.TimeoutExpired as e:
            out = ((e.stdout or b'').decode() if isinstance(e.stdout, bytes) else (e.stdout or '')) + '\nTIMEOUT'
            rc = None
    wall = time.time() - t0
    # attribute output blocks to harnesses (with -j N blocks are prefixed `Thread K:`)
    compile_failed = 'error: could not compile' in out or 'error[E' in out or ('Kani compiler' in out and 'panicked' in out)
    blocks = {}
    cur_by_thread = {}
    cur = None
    for line in out.split('\n'):
        m = re.match(r'(?:Thread (\d+): )?Checking harness ([\w:]+)\.\.\.', line)
        if m:
            t = m.group(1) or '0'
            cur_by_thread[t] = m.group(2)
            blocks.setdefault(m.group(2), [])
            cur = m.group(2)
            continue
        m = re.match(r'Thread (\d+):\s*$', line)
        if m:
            cur = cur_by_thread.get(m.group(1))
            continue
        if cur is not None:
            blocks[cur].append(line)
            if line.startswith('Verification Time:'):
                cur = None if len(cur_by_thread) > 1 else cur
    for name, lines in blocks.items():
        ch = '\n'.join(lines)
        short = name.split('::')[-1]
        key = short if short in results else (name if name in results else None)
        if key is None:
            continue
        r = results[key]
        r['output'] = ch[-4000:]
        m = re.search(r'VERIFICATION:- (SUCCESSFUL|FAILED)', ch)
        tm = re.search(r'Verification Time: ([\d.]+)s', ch)
        if tm:
            r['time_s'] = float(tm.group(1))
        cm = re.search(r'\*\* (\d+) of (\d+) failed', ch)
        if cm:
            r['checks'] = int(cm.group(2))
            r['checks_failed'] = int(cm.group(1))
        if m:
            if m.group(1) == 'SUCCESSFUL':
                r['status'] = 'ok'
            else:
                fails = re.findall(r'Failed Checks: (.*)', ch)
                r['failed'] = fails
                # tool limits are not property failures
                if any('unsupported' in f.lower() or 'not currently supported' in f.lower() or 'unwinding assertion' in f.lower() for f in fails) and \
                   not any(('assertion failed' in f or 'contract' in f.lower() or 'overflow' in f or 'ensures' in f) for f in fails):
                    r['status'] = 'undecided'
                else:
                    r['status'] = 'failed'
        cov = re.findall(r'\*\* (\d+) of (\d+) cover properties satisfied', ch)
        if cov:
            r['covers'] = (int(cov[0][0]), int(cov[0][1]))
            if int(cov[0][0]) < int(cov[0][1]) and r['status'] == 'ok':
                r['status'] = 'undecided'
                r['failed'].append('vacuity: a kani::cover! is unsatisfiable (precondition unreachable)')
    meta = dict(cmd=' '.join(cmd), wall_s=wall, rc=rc, compile_failed=bool(compile_failed), tail=out[-3000:])
    return results, meta


def run_groups(repo, groups, tier='quick'):
    """groups: [(crate, [harness or (harness, kind)])]; kind 'complete' (default) or 'bounded:<n>'.
    Returns one unit-result dict per crate."""
    out = []
    for crate, hs in groups:
        names = [h if isinstance(h, str) else h[0] for h in hs]
        kinds = {(h if isinstance(h, str) else h[0]): ('complete' if isinstance(h, str) else h[1]) for h in hs}
        t0 = time.time()
        res, meta = run_kani(repo, crate, names)
        unit = dict(engine='kani', unit=f"kani:{crate}", status='ok', obligations={}, failures=[], notes=[],
                    assumptions=[], rewrites=[], functions=[], smt_s=0.0, wall_s=time.time() - t0, cmd=meta['cmd'],
                    harness_kinds=kinds, checks=0)
        hf = harness_files()
        for name, h in hf.items():
            if h['crate'] == crate:
                unit['functions'].append(dict(name=f"harness module {name}", file=h['target'], line=0, body_sha=''))
        for h in names:
            r = res[h]
            oid = f"kani.{h}"
            unit['smt_s'] += r['time_s']
            unit['checks'] += r.get('checks', 0)
            if r['status'] == 'ok':
                unit['obligations'][oid] = 'discharged'
            elif r['status'] == 'failed':
                unit['obligations'][oid] = 'failed'
                unit['status'] = 'failed'
                unit['failures'].append(dict(obligation=oid, function=h, message='; '.join(r['failed'])[:500],
                                             source=None, text='', rendered=r['output'][-3000:], engine='kani', crate=crate))
            else:
                unit['obligations'][oid] = 'undecided'
                if unit['status'] == 'ok':
                    unit['status'] = 'undecided'
                unit['notes'].append(f"{h}: undecided ({'; '.join(r['failed'])[:300] or 'no result parsed'})")
        if meta['compile_failed'] or meta['rc'] is None:
            unit['notes'].append(('timeout' if meta['rc'] is None else 'kani compile failed') + ': ' + meta['tail'][-1200:])
        unit['assumptions'] = [dict(kind='kani::assume / any', line=0,
                                    text=f"harness inputs are kani::any() restricted only by the kani::assume lines in /verif/kani (module for {crate})")]
        out.append(unit)
    return out


def concrete_playback(repo, crate, harness, timeout=600):
    """Re-run one failing harness with concrete playback to obtain the counterexample values."""
    with Lock('kani'):
        sync_mirror(repo)
        cmd = ['cargo', 'kani', '-p', crate, '-Z', 'function-contracts', '-Z', 'stubbing', '-Z', 'concrete-playback',
               '--concrete-playback=print', '--harness', harness]
        env = dict(os.environ, CARGO_NET_OFFLINE='true', CARGO_TARGET_DIR=f"{CACHE}/target-kani")
        try:
            p = subprocess.run(cmd, cwd=MIRROR, env=env, capture_output=True, text=True, timeout=timeout)
            out = p.stdout
        except subprocess.TimeoutExpired:
            return None
    m = re.search(r'Concrete playback unit test for `[^`]*`:\s*```(.*?)```', out, re.S)
    return m.group(1).strip() if m else None
