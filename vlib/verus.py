"""Run Verus on an assembled unit and map its diagnostics back to named obligations."""
import json
import os
import re
import subprocess
import time
from .rustlex import mask, match_close

CACHE = os.environ.get('NEUMANN_VERIF_CACHE', '/var/tmp/neumann-verif')


def fn_ranges(text):
    """(name, mode, first_line, last_line) for every fn item in the generated text.  A function's
    range runs to the line before the next fn item — enough to attribute a diagnostic line."""
    ms = mask(text)
    starts = []
    for m in re.finditer(r'(?m)^[ \t]*(?:pub(?:\([a-z]+\))?\s+)?(?:(?:open|closed|uninterp)\s+)?(?:(spec|proof|exec)\s+)?(?:const\s+)?fn\s+(\w+)', ms):
        starts.append((m.group(2), m.group(1) or 'exec', text.count('\n', 0, m.start()) + 1))
    total = text.count('\n') + 1
    res = []
    for k, (name, mode, a) in enumerate(starts):
        b = starts[k + 1][2] - 1 if k + 1 < len(starts) else total
        res.append((name, mode, a, b))
    return res


def run_verus(path, rlimit=None, multiple_errors=8, timeout=600, extra=()):
    cmd = ['verus', path, '--output-json', '--time', '--triggers-mode', 'silent',
           '--error-format=json', '--multiple-errors', str(multiple_errors)]
    if rlimit:
        cmd += ['--rlimit', str(rlimit)]
    cmd += list(extra)
    t0 = time.time()
    try:
        p = subprocess.run(cmd, capture_output=True, text=True, timeout=timeout, cwd=os.path.dirname(path))
        out, err, rc = p.stdout, p.stderr, p.returncode
    except subprocess.TimeoutExpired as e:
        return dict(cmd=' '.join(cmd), rc=None, timeout=True, wall_s=time.time() - t0, diags=[], json=None,
                    stderr=(e.stderr or b'').decode() if isinstance(e.stderr, bytes) else (e.stderr or ''))
    wall = time.time() - t0
    j = None
    try:
        k = out.index('{')
        j = json.loads(out[k:])
    except Exception:
        j = None
    diags = []
    for l in err.split('\n'):
        l = l.strip()
        if l.startswith('{'):
            try:
                d = json.loads(l)
            except Exception:
                continue
            if d.get('$message_type') == 'diagnostic':
                diags.append(d)
    return dict(cmd=' '.join(cmd), rc=rc, timeout=False, wall_s=wall, diags=diags, json=j, stderr=err)


def analyse(assembled, res):
    """Return dict(status, obligations{oid: status}, failures[list], smt_s, verified, errors)

    status: 'ok' | 'failed' | 'undecided'
    """
    text = assembled['text']
    lines = text.split('\n')
    ranges = fn_ranges(text)
    extracted = {f['key']: f for f in assembled['fns']}
    by_name = {}
    for f in assembled['fns']:
        by_name.setdefault(f['name'], []).append(f)

    def fn_at(line):
        for f in assembled['fns']:
            if f['first'] <= line <= f['last']:
                return (f['key'], 'exec', f['first'], f['last'])
        best = None
        for (name, mode, a, b) in ranges:
            if a <= line <= b and (best is None or a >= best[2]):
                best = (name, mode, a, b)
        return best

    # obligation universe
    obligations = {}
    for f in assembled['fns']:
        for oid in f['ensures']:
            obligations[oid] = 'discharged'
        for n in f['loops']:
            obligations[f"{f['key']}.loop{n}"] = 'discharged'
        obligations[f"{f['key']}.safety"] = 'discharged'
    for (name, mode, a, b) in ranges:
        if mode == 'proof':
            obligations[f"lemma.{name}"] = 'discharged'
    def key_of_fnname(nm):
        c = by_name.get(nm, [])
        return c[0]['key'] if len(c) == 1 else None
    out = dict(obligations=obligations, failures=[], status='ok', smt_s=0.0, verified=0, errors=0, notes=[])
    if res.get('timeout'):
        out['status'] = 'undecided'
        out['notes'].append('verus timed out')
        for k in obligations:
            obligations[k] = 'undecided'
        return out
    j = res['json']
    if not j or 'verification-results' not in j:
        out['status'] = 'undecided'
        out['notes'].append('verus produced no result JSON: ' + res['stderr'][-2000:])
        for k in obligations:
            obligations[k] = 'undecided'
        return out
    vr = j['verification-results']
    out['verified'] = vr.get('verified', 0)
    out['errors'] = vr.get('errors', 0)
    try:
        out['smt_s'] = j['times-ms']['smt']['smt-run'] / 1000.0
        out['verus_total_s'] = j['times-ms']['total'] / 1000.0
    except Exception:
        pass
    errs = [d for d in res['diags'] if d.get('level') == 'error' and d.get('spans')]
    plain = [d for d in res['diags'] if d.get('level') == 'error' and not d.get('spans')]
    VERIF_MSG = ('postcondition not satisfied', 'invariant not satisfied', 'precondition not satisfied',
                 'possible arithmetic underflow/overflow', 'assertion failed', 'possible division by zero',
                 'decreases not satisfied', 'Resource limit', 'recommendation not met', 'possible bit shift',
                 'loop invariant', 'failed', 'not satisfied', 'might be', 'possible')
    compile_err = vr.get('encountered-error') and not vr.get('errors') and not vr.get('verified')
    for d in errs:
        msg = d['message']
        prim = [s for s in d['spans'] if s.get('is_primary')] or d['spans']
        pline = prim[0]['line_start']
        fa = fn_at(pline)
        fname = fa[0] if fa else '?'
        is_verif = any(k in msg for k in VERIF_MSG) and not msg.startswith('aborting')
        if not is_verif:
            out['status'] = 'undecided'
            out['notes'].append(f"non-verification error (tool/subset limit) at generated line {pline}: {msg}")
            continue
        if 'Resource limit' in msg or 'rlimit' in msg:
            out['status'] = 'undecided' if out['status'] != 'failed' else 'failed'
            oid = f"{fname}.safety" if fname in extracted else f"lemma.{fname}"
            obligations[oid] = 'undecided'
            out['notes'].append(f"rlimit exceeded in {fname}")
            continue
        oid = None
        detail_line = pline
        if 'postcondition' in msg:
            for s in d['spans']:
                if s.get('label') and 'postcondition' in s['label']:
                    for k in range(s['line_start'], min(s['line_end'] + 6, len(lines)) + 1):
                        m = re.search(r'//@OBL ensures (\S+)', lines[k - 1])
                        if m:
                            oid = m.group(1)
                            break
                if oid:
                    break
        elif 'invariant' in msg:
            for k in range(pline, min(pline + 8, len(lines)) + 1):
                m = re.search(r'//@OBL loop (\S+)', lines[k - 1])
                if m:
                    oid = m.group(1)
                    break
        if oid is None:
            m = re.search(r'//@OBL loop (\S+)', lines[pline - 1]) if pline - 1 < len(lines) else None
            if m and 'decreases' in msg:
                oid = m.group(1)
        if oid is None:
            if fname in extracted:
                oid = f"{fname}.safety"
            else:
                oid = f"lemma.{fname}"
        org = assembled['origins'][pline - 1] if pline - 1 < len(assembled['origins']) else None
        where = None
        if org and org[0] == 'src':
            where = f"{org[1]}:{org[2]}"
        obligations[oid] = 'failed'
        out['status'] = 'failed'
        out['failures'].append(dict(obligation=oid, function=fname, message=msg, generated_line=pline,
                                    source=where, text=lines[pline - 1].strip() if pline - 1 < len(lines) else '',
                                    rendered=d.get('rendered', '')[:3000]))
    if compile_err or (vr.get('encountered-error') and not errs and plain and not vr.get('errors')):
        out['status'] = 'undecided'
        out['notes'].append('verus/rustc rejected the extracted text: ' + '; '.join(p['message'] for p in plain)[:1500])
    # function-level cross-check: any function reported unsuccessful without a mapped diagnostic
    try:
        for mod in j['times-ms']['smt']['smt-run-module-times']:
            for fb in mod.get('function-breakdown', []):
                if not fb.get('success', True):
                    nm = fb['function'].split('::')[-1]
                    k_ = key_of_fnname(nm)
                    if k_ is None and nm in by_name:
                        continue   # ambiguous name: diagnostics carry line numbers and are attributed there
                    oid = f"{k_}.safety" if k_ else f"lemma.{nm}"
                    if not any(f['function'] in (nm, k_) for f in out['failures']) and obligations.get(oid) == 'discharged':
                        obligations[oid] = 'undecided'
                        if out['status'] == 'ok':
                            out['status'] = 'undecided'
                        out['notes'].append(f"{nm} reported unsuccessful without a mapped diagnostic")
    except Exception:
        pass
    if out['status'] == 'undecided':
        for k, v in obligations.items():
            if v == 'discharged' and (compile_err or not j):
                obligations[k] = 'undecided'
    if out['status'] == 'ok' and not vr.get('success'):
        out['status'] = 'undecided'
        out['notes'].append('verus reported success=false without diagnostics')
        for k in obligations:
            obligations[k] = 'undecided'
    return out
