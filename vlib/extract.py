"""Mechanical extraction of real function text from /repo + the rewrite catalogue (DESIGN §2.2).

Nothing here knows about any particular function: a unit file (`units/*.vu`) names the file
and function, lists the rules to apply, and supplies the contract clauses and ghost text that
are spliced at *structural* positions (function top, loop N header / body top / body bottom /
before / after).  The body itself is always the repository's text at the time of the run.
"""
import re
import shlex
import difflib
from .rustlex import mask, match_close, find_body_open, line_of, ExtractError

PATH = r'[A-Za-z_]\w*(?:\.(?:[A-Za-z_]\w*|\d+))*'


# --------------------------------------------------------------------------- locating items

def find_impl_span(src, masked, impl_name):
    """Return (start, end) offsets of the body of `impl[<..>] impl_name[<..>] {` (first inherent impl
    containing ... the caller filters by fn presence)."""
    spans = []
    for m in re.finditer(r'(?m)^[ \t]*impl(?:<[^{;]*?>)?\s+(?:[\w:]+(?:<[^{;]*?>)?\s+for\s+)?' + re.escape(impl_name) + r'\b[^{;]*\{', masked):
        o = m.end() - 1
        c = match_close(masked, o)
        spans.append((o, c))
    return spans


def find_fn(src, masked, name, impl=None, nth=None):
    """Locate `fn name`. Returns dict(sig_start, body_open, body_close).  If `impl` is given only
    functions inside an `impl ... impl {}` block are considered."""
    regions = [(0, len(src))]
    if impl:
        regions = find_impl_span(src, masked, impl)
        if not regions:
            raise ExtractError(f"anchor lost: impl {impl}")
    hits = []
    pat = re.compile(r'(?m)^([ \t]*)((?:pub(?:\([a-z: ]+\))?\s+)?(?:const\s+)?(?:async\s+)?(?:unsafe\s+)?fn\s+' + re.escape(name) + r'\b)')
    for (a, b) in regions:
        for m in pat.finditer(masked, a, b):
            # skip test modules: crude — a fn inside `mod tests {` is after `#[cfg(test)]`
            hits.append(m)
    if not hits:
        raise ExtractError(f"anchor lost: fn {name}" + (f" in impl {impl}" if impl else ""))
    if len(hits) > 1:
        # prefer non-test occurrences (before the first `#[cfg(test)]`)
        t = masked.find('#[cfg(test)]')
        non_test = [h for h in hits if t < 0 or h.start() < t]
        if non_test:
            hits = non_test
    if nth is not None:
        if nth >= len(hits):
            raise ExtractError(f"anchor lost: fn {name} occurrence {nth}")
        hits = [hits[nth]]
    if len(hits) != 1:
        raise ExtractError(f"ambiguous anchor: fn {name} matches {len(hits)} items; give impl=/nth=")
    m = hits[0]
    sig_start = m.start(2)
    body_open = find_body_open(masked, m.end())
    body_close = match_close(masked, body_open)
    return dict(sig_start=sig_start, body_open=body_open, body_close=body_close,
                line=line_of(src, sig_start))


# --------------------------------------------------------------------------- signature

def rewrite_signature(sig, ret_name, receiver_mut=False, drop_generics=False, log=None):
    """`sig` is the text from `[pub] fn` up to (not including) the body `{`."""
    log = log if log is not None else []
    s = sig.rstrip()
    ms = mask(s)
    m = re.search(r'\bfn\s+\w+', ms)
    k = m.end()
    # generics
    while k < len(ms) and ms[k].isspace():
        k += 1
    if k < len(ms) and ms[k] == '<':
        depth = 0
        j = k
        while True:
            if ms[j] == '<':
                depth += 1
            elif ms[j] == '>' and ms[j - 1] != '-':
                depth -= 1
                if depth == 0:
                    break
            j += 1
        if drop_generics:
            log.append(f"R5 generics {s[k:j + 1]} removed from signature")
            s = s[:k] + s[j + 1:]
            ms = ms[:k] + ms[j + 1:]
        else:
            k = j + 1
    po = ms.index('(', k)
    pc = match_close(ms, po)
    params = s[po:pc + 1]
    if receiver_mut:
        params2 = re.sub(r'\(\s*&\s*self\b', '(&mut self', params, count=1)
        if params2 != params:
            log.append("R8 receiver &self -> &mut self")
        params = params2
    rest = s[pc + 1:]
    mrest = ms[pc + 1:]
    am = re.search(r'->', mrest)
    if am:
        wm = re.search(r'\bwhere\b', mrest)
        end = wm.start() if wm else len(rest)
        rty = rest[am.end():end].strip()
        tail = rest[end:]
        if ret_name:
            rest = f" -> ({ret_name}: {rty}) " + tail
        else:
            rest = f" -> {rty} " + tail
    return s[:po] + params + rest.rstrip()


# --------------------------------------------------------------------------- body rules

def r4_strip_tracing(body, log):
    names = ['trace', 'debug', 'info', 'warn', 'error']
    out = []
    i = 0
    mb = mask(body)
    pat = re.compile(r'(?:tracing::)?\b(?:' + '|'.join(names) + r')!\s*\(')
    n = 0
    while i < len(body):
        m = pat.search(mb, i)
        if not m:
            out.append(body[i:])
            break
        pre = mb[:m.start()].rstrip()
        if pre.endswith('=>'):
            # match-arm position (`Err(e) => tracing::warn!(..),`): the arm's value is (), keep an empty block
            close = match_close(mb, m.end() - 1)
            out.append(body[i:m.start()] + '{}')
            i = close + 1
            n += 1
            continue
        if pre and pre[-1] not in '{};':
            out.append(body[i:m.end()])
            i = m.end()
            continue
        # statement position: drop through matching paren and optional `;`
        close = match_close(mb, m.end() - 1)
        j = close + 1
        while j < len(body) and body[j] in ' \t':
            j += 1
        if j < len(body) and body[j] == ';':
            j += 1
        # also eat the line's leading whitespace and trailing newline
        start = m.start()
        ls = body.rfind('\n', 0, start) + 1
        if body[ls:start].strip() == '':
            start = ls
            if j < len(body) and body[j] == '\n':
                j += 1
        out.append(body[i:start])
        i = j
        n += 1
    if n:
        log.append(f"R4 removed {n} statement- / match-arm-position tracing macro call(s)")
    return ''.join(out)


def r8_guards(body, log, dropped_fields=()):
    """Lock-guard alias elimination (single-threaded meaning of a guard)."""
    for m in list(re.finditer(r'[ \t]*let (?:mut )?(\w+) = self\.(\w+)\.(?:write|read|lock)\(\);[ \t]*\n', body)):
        g, f = m.group(1), m.group(2)
        log.append(f"R8 guard alias `{g}` -> self.{f} (lock erased)")
        body = body.replace(m.group(0), '', 1)
        body = re.sub(r'(?<![\w.])' + re.escape(g) + r'(\s*)\.(?!\.)', lambda mm: f'self.{f}' + mm.group(1) + '.', body)
        body = re.sub(r'&mut ' + re.escape(g) + r'\b', f'&mut self.{f}', body)
        body = re.sub(r'&' + re.escape(g) + r'\b(?!\.)', f'&self.{f}', body)
        body = re.sub(r'\*' + re.escape(g) + r'\b(?!\.)', f'self.{f}', body)
        body = re.sub(r'[ \t]*drop\(' + re.escape(g) + r'\);[ \t]*\n', '', body)
    for m in list(re.finditer(r'[ \t]*\*self\.(\w+)\.(?:write|lock)\(\) = [^;]*;[ \t]*\n', body)):
        if m.group(1) in dropped_fields:
            log.append(f"R11 dropped write to projected-away field self.{m.group(1)}")
            body = body.replace(m.group(0), '', 1)
    b2 = re.sub(r'\*self\.(\w+)\.(?:write|lock)\(\) = ', r'self.\1 = ', body)
    if b2 != body:
        log.append("R8 `*self.f.write() = e` -> `self.f = e`")
        body = b2
    b2 = re.sub(r'\*self\.(\w+)\.(?:write|read|lock)\(\)', r'self.\1', body)
    if b2 != body:
        log.append("R8 `*self.f.read()` -> `self.f`")
        body = b2
    b2 = re.sub(r'self\.(\w+)\.(?:write|read|lock)\(\)\.', r'self.\1.', body)
    if b2 != body:
        log.append("R8 inline guard `self.f.read().` -> `self.f.`")
        body = b2
    return body


def r12_opaque(body, begin, end, replace, log, name='', include_end=True, nth=None):
    """Replace the text from anchor `begin` through anchor `end` (inclusive) by `replace`.
    If `end` == '}' semantics are: the block opened by the first `{` after begin.
    `nth` (1-based) selects one of several occurrences of `begin`; without it the anchor must be unique."""
    i = body.find(begin)
    if nth:
        for _ in range(int(nth) - 1):
            i = body.find(begin, i + 1) if i >= 0 else -1
        if i < 0:
            raise ExtractError(f"R12 anchor lost (begin, occurrence {nth}): {begin!r}")
    elif i < 0 or body.find(begin, i + 1) >= 0:
        raise ExtractError(f"R12 anchor lost or ambiguous (begin): {begin!r}")
    if end == '@block':
        mb = mask(body)
        # the block opened by the brace that ENDS the anchor, else by the first brace after the anchor's start
        o = i + len(begin.rstrip()) - 1 if begin.rstrip().endswith('{') else mb.index('{', i)
        j = match_close(mb, o) + 1
    else:
        j = body.find(end, i + len(begin))
        if j < 0:
            raise ExtractError(f"R12 anchor lost (end): {end!r}")
        j = j + len(end) if include_end else j
    import hashlib
    sha = hashlib.sha256(' '.join(body[i:j].split()).encode()).hexdigest()[:12]
    log.append(f"R12 opaque block {name!r}: {body[i:j].count(chr(10)) + 1} line(s) sha={sha} replaced by `{replace.strip()}`")
    return body[:i] + replace + body[j:]


def subst(body, frm, to, log, rule='subst', count=1, regex=False, optional=False):
    if not regex:
        to = to.replace('\\n', '\n')   # a literal backslash-n in a unit file directive is a line break
    if optional and ((regex and not re.search(frm, body)) or (not regex and frm not in body)):
        log.append(f"{rule} `{frm}` not present (optional rewrite skipped)")
        return body
    if regex:
        found = len(re.findall(frm, body))
        if (count != '*' and found != int(count)) or found == 0:
            raise ExtractError(f"{rule} anchor lost: /{frm}/ matched {found}x, expected {count}")
        body2 = re.sub(frm, to, body)
    else:
        found = body.count(frm)
        if (count != '*' and found != int(count)) or found == 0:
            raise ExtractError(f"{rule} anchor lost: {frm!r} matched {found}x, expected {count}")
        body2 = body.replace(frm, to)
    log.append(f"{rule} `{frm}` -> `{to}` ({found}x)")
    return body2


def r13_option_combinators(body, log, with_map=False):
    """R13: inline the closure of `RECV.map_or(D, |x| E)`, `RECV.is_some_and(|x| E)`, `RECV.map(|x| E)`
    into a `match` (definition of the combinators).  RECV is the expression from the start of the
    enclosing `let .. =` / statement up to the combinator."""
    from .rustlex import split_top_level
    changed = True
    guard = 0
    while changed and guard < 50:
        guard += 1
        changed = False
        mb = mask(body)
        kinds = 'map_or|is_some_and|map' if with_map else 'map_or|is_some_and'
        for m in re.finditer(r'\.\s*(' + kinds + r')\(', mb):
            kind = m.group(1)
            po = m.end() - 1
            pc = match_close(mb, po)
            args_text = body[po + 1:pc]
            args_mask = mb[po + 1:pc]
            parts = split_top_level(args_mask, args_text, ',')
            if kind == 'map_or':
                if len(parts) < 2:
                    continue
                default = parts[0].strip()
                clos = ','.join(parts[1:]).strip().rstrip(',').strip()
            else:
                default = None
                clos = args_text.strip().rstrip(',').strip()
            cm = re.match(r'\|\s*(&?\s*\w+)\s*\|\s*(.*)$', clos, re.S)
            if not cm:
                continue  # not a closure literal (e.g. `.map(f)`) — outside the rule
            var, cbody = cm.group(1), cm.group(2).strip()
            if kind == 'map' and not re.match(r'[\w&]', var):
                continue
            # receiver: walk back to statement start
            k = m.start()
            depth = 0
            j = k - 1
            while j >= 0:
                c = mb[j]
                if c in ')]}':
                    depth += 1
                elif c in '([{':
                    if depth == 0:
                        break
                    depth -= 1
                elif c in ';' and depth == 0:
                    break
                elif c == '=' and depth == 0 and mb[j - 1] not in '=!<>+-*/|&^' and mb[j + 1] != '=':
                    break
                elif c == ',' and depth == 0:
                    break
                j -= 1
            recv = body[j + 1:k].strip()
            if not recv or re.search(r'\breturn\b|\blet\b', recv):
                rm = re.match(r'(return\s+)(.*)$', recv, re.S)
                if not rm:
                    continue
                recv = rm.group(2)
            start = body.index(recv, j + 1)
            if kind == 'map_or':
                repl = f"match {recv} {{ None => {default}, Some({var}) => {cbody} }}"
            elif kind == 'is_some_and':
                repl = f"match {recv} {{ None => false, Some({var}) => {cbody} }}"
            else:
                repl = f"match {recv} {{ None => None, Some({var}) => Some({cbody}) }}"
            body = body[:start] + repl + body[pc + 1:]
            log.append(f"R13 `{' '.join(recv.split())}.{kind}(..|{var}| ..)` -> match (closure inlined)")
            changed = True
            break
    return body


def r15_io_error_guards(body, log, io_variant='Io'):
    """R15: `Err(e) if e.kind() == io::ErrorKind::K => A, Err(e) => return Err(e.into()),` -> nested match
    on `e.kind()` (definition of match guards; `e.into()` written as the explicit From variant)."""
    pat = re.compile(r'Err\((\w+)\) if \1\.kind\(\) == (?:std::)?io::ErrorKind::(\w+) => ([^,\n]+),([ \t]*//[^\n]*)?\n([ \t]*)Err\(\1\) => return Err\(\1(\.into\(\))?\),')
    n = len(pat.findall(body))
    if n:
        def rep(m):
            e, kind, act, cmt, ind, into = m.groups()
            act = act.strip()
            act_stmt = act if act.endswith('}') else act + ';'
            err = f"WalError::{io_variant}({e})" if into else e
            return (f"Err({e}) => {{ match {e}.kind() {{ IoKind::{kind} => {{ {act_stmt} }}, IoKind::Other => {{ return Err({err}); }} }} }},{cmt or ''}")
        body = pat.sub(rep, body)
        log.append(f"R15 guard arm `Err(e) if e.kind() == K => A, Err(e) => return Err(e.into())` -> nested match ({n}x)")
    return body


def r13p_clone_from(body, log):
    pat = re.compile(r'(?m)^([ \t]*)([\w.]+)\.clone_from\(([\w.&]+)\);')
    n = len(pat.findall(body))
    if n:
        body = pat.sub(r'\1\2 = \3.clone();', body)
        log.append(f"R13' `x.clone_from(y);` -> `x = y.clone();` ({n}x)")
    return body


def r17_get_mut(body, log):
    """R17: `if let Some(x) = M.get_mut(K) { BODY }` -> read a copy with `get`, run BODY on the copy, write it
    back with `insert` at the end of BODY and before every `return` inside it.  Sound for value types that
    are plain data (the unit's projected structs are Copy): `get_mut` + field writes == get + insert."""
    n = 0
    while True:
        mb = mask(body)
        m = re.search(r'if let Some\((\w+)\) = ([\w.]+)\.get_mut\(([^()]*)\) \{', mb)
        if not m:
            break
        name, mp, key = m.group(1), m.group(2), body[m.start(3):m.end(3)].strip()
        o = m.end() - 1
        c = match_close(mb, o)
        inner = body[o + 1:c]
        keyc = key[1:].strip() + '.clone()' if key.startswith('&') else '(*' + key + ').clone()'
        wb = f"{mp}.insert({keyc}, {name});"
        # write back before each return inside the block
        inner2 = re.sub(r'(?m)^([ \t]*)return ([^;]*);', lambda r: f"{r.group(1)}{wb}\n{r.group(1)}return {r.group(2)};", inner)
        tail_has_return = re.search(r'return [^;]*;\s*$', inner2) is not None
        indent = re.match(r'[ \t]*', body[body.rfind('\n', 0, m.start()) + 1:]).group(0)
        new = (f"if let Some(__g_{name}) = {mp}.get({key}) {{\n{indent}    let mut {name} = *__g_{name};" + inner2.rstrip()
               + ('' if tail_has_return else f"\n{indent}    {wb}") + f"\n{indent}}}")
        body = body[:m.start()] + new + body[c + 1:]
        n += 1
    if n:
        log.append(f"R17 `if let Some(x) = M.get_mut(k) {{..}}` -> get + local copy + insert write-back ({n}x)")
    return body


def r17q_get_mut_or_else(body, log):
    """R17q: `let X = M.get_mut(K).ok_or_else(|| E)?;` followed by field writes `X.f = e;` ->
    `let mut X = match M.get(K) { Some(g) => *g, None => { return Err(E); } };` and every statement
    `X.f = e;` is followed by the write-back `M.insert(K, X);`.  Same meaning as the mutable borrow for
    value types that are plain data (the unit's projection is Copy) while nothing else touches M[K]
    between the writes: each write reaches the map immediately."""
    n = 0
    while True:
        mb = mask(body)
        m = re.search(r'let (\w+) = ([\w.]+)\.get_mut\(([^()]*)\)\.ok_or_else\(\|\| ', mb)
        if not m:
            break
        name, mp, key = m.group(1), m.group(2), body[m.start(3):m.end(3)].strip()
        # closure body runs up to the parenthesis closing ok_or_else(
        o = mb.rfind('(', 0, m.end())
        c = match_close(mb, o)
        clos = body[m.end():c].strip()
        if clos.startswith('{'):
            clos = clos[1:-1].strip()
        if mb[c + 1:c + 3] != '?;':
            raise ExtractError("R17q: `.ok_or_else(..)` not followed by `?;`")
        keyc = key[1:].strip() + '.clone()' if key.startswith('&') else '(*' + key + ').clone()'
        wb = f"{mp}.insert({keyc}, {name});"
        head = (f"let mut {name} = match {mp}.get({key}) {{ Some(__g_{name}) => *__g_{name}, "
                f"None => {{ return Err({clos}); }} }};")
        rest = body[c + 3:]
        rest, k = re.subn(r'(?m)^([ \t]*)(' + re.escape(name) + r'\.\w+ = [^;]*;)', lambda r: f"{r.group(1)}{r.group(2)}\n{r.group(1)}{wb}", rest)
        body = body[:m.start()] + head + rest
        n += 1
        log.append(f"R17q `let {name} = {mp}.get_mut({key}).ok_or_else(..)?;` -> get + local copy; {k} field write(s) followed by insert write-back")
    return body


def r13g_get_or_insert_with(body, log):
    """R13g: `*X.get_or_insert_with(|| E)` -> match on X (definition of the combinator; payload is Copy)."""
    n = 0
    while True:
        mb = mask(body)
        m = re.search(r'\*(\w+)\s*\.get_or_insert_with\(', mb)
        if not m:
            break
        po = m.end() - 1
        pc = match_close(mb, po)
        clos = body[po + 1:pc].strip()
        cm = re.match(r'\|\|\s*(.*)$', clos, re.S)
        if not cm:
            raise ExtractError("R13g: get_or_insert_with argument is not a `|| expr` closure")
        x = m.group(1)
        e = cm.group(1).strip()
        rep = f"match {x} {{ Some(__v) => __v, None => {{ let __v = {e}; {x} = Some(__v); __v }} }}"
        body = body[:m.start()] + rep + body[pc + 1:]
        n += 1
    if n:
        log.append(f"R13g `*x.get_or_insert_with(|| e)` -> match (definition of the combinator) ({n}x)")
    return body


def r7f_messages(body, log, ctor='ErrMsg::new()'):
    """R7f: diagnostic strings (`format!(..)`, `"..".to_string()`, `hex::encode(..)`, `x.to_string()` inside an
    error constructor) are replaced by an opaque message value: they influence neither control flow nor state."""
    n = 0
    for opener in (r'format!\(', r'hex::encode\('):
        while True:
            mb = mask(body)
            m = re.search(opener, mb)
            if not m:
                break
            pc = match_close(mb, m.end() - 1)
            body = body[:m.start()] + ctor + body[pc + 1:]
            n += 1
    body, k = re.subn(r'"(?:[^"\\]|\\.)*"\s*\.to_string\(\)', ctor, body)
    n += k
    body, k = re.subn(r'"(?:[^"\\]|\\.)*"\s*\.into\(\)', ctor, body)
    n += k
    if n:
        log.append(f"R7f {n} diagnostic string expression(s) (format!/to_string/hex::encode) -> opaque message value")
    return body


def r3i_inclusive_range(body, log):
    """R3i: `for x in A..=B {` -> explicit counter loop with the exact RangeInclusive semantics (no overflow at B == MAX)."""
    pat = re.compile(r'for (\w+) in ([\w.()]+)\.\.=([\w.()]+) \{')
    n = len(pat.findall(body))
    if n:
        def rep(m):
            x, a, b = m.groups()
            return (f"let mut __c_{x} = {a}; let mut __done_{x} = __c_{x} > {b};\n        while !__done_{x} {{\n            let {x} = __c_{x};"
                    f" if __c_{x} == {b} {{ __done_{x} = true; }} else {{ __c_{x} += 1; }}")
        body = pat.sub(rep, body)
        log.append(f"R3i `for x in a..=b` -> counter loop with RangeInclusive semantics ({n}x)")
    return body


def r18_vec_set(body, log):
    pat = re.compile(r'(?m)^([ \t]*)(' + PATH + r')\[([^\]\n]+)\] = ([^;\n]+);')
    n = len(pat.findall(body))
    if n:
        body = pat.sub(r'\1\2.set(\3, \4);', body)
        log.append(f"R18 `v[i] = x;` -> `v.set(i, x);` ({n}x)")
    return body


def r21_map_index(body, log):
    """R21: `M[&k]` (std::ops::Index on a HashMap: panics when the key is absent) -> `(*M.get(&k).unwrap())`, the
    definition of that Index impl; the absent-key panic becomes the proof obligation of `unwrap`."""
    pat = re.compile(r'(' + PATH + r')\[&(\w+)\]')
    n = len(pat.findall(body))
    if n:
        body = pat.sub(r'(*\1.get(&\2).unwrap())', body)
        log.append(f"R21 `m[&k]` -> `(*m.get(&k).unwrap())` ({n}x)")
    return body


def r13e_entry_or_insert(body, log):
    """R13e: `*M.entry(K).or_insert(D) += E;` -> read-or-default, then insert: the definition of the entry API for a
    Copy value (`K` is a plain identifier, evaluated twice)."""
    pat = re.compile(r'(?m)^([ \t]*)\*(' + PATH + r')\.entry\((\w+)\)\.or_insert\(([^()]+)\) \+= ([^;\n]+);')
    n = len(pat.findall(body))
    if n:
        body = pat.sub(r'\1let __e = match \2.get(&\3) { Some(v) => *v, None => \4 };\n\1\2.insert(\3, __e + \5);', body)
        log.append(f"R13e `*m.entry(k).or_insert(d) += e;` -> `let __e = match m.get(&k) {{ Some(v) => *v, None => d }}; m.insert(k, __e + e);` ({n}x)")
    return body


def r18c_index_compound(body, log):
    """R18c: `v[i] OP= x;` -> `v.set(i, v[i] OP (x));` (the index expression is pure: path / arithmetic only)."""
    pat = re.compile(r'(?m)^([ \t]*)(' + PATH + r')\[([\w\s+\-*/%()]+)\] (\||&|\^|\+|-)= ([^;\n]+);')
    n = len(pat.findall(body))
    if n:
        body = pat.sub(r'\1\2.set(\3, \2[\3] \4 (\5));', body)
        log.append(f"R18c `v[i] op= x;` -> `v.set(i, v[i] op (x));` ({n}x)")
    return body


# --------------------------------------------------------------------------- loops

LOOP_KW = re.compile(r"(?:'\w+\s*:\s*)?\b(for|while|loop)\b")


def find_loops(body):
    """Offsets of loop keywords in textual order.  Each: dict(kw, start, head_end(=offset of `{`))."""
    mb = mask(body)
    loops = []
    for m in LOOP_KW.finditer(mb):
        kw = m.group(1)
        pre = mb[:m.start()].rstrip()
        if pre and pre[-1] not in '{};=' and not pre.endswith(')') and not pre.endswith('}'):
            # not at statement/expression start (e.g. `impl X for Y`, `.for`)
            if not (pre[-1] == '=' ):
                continue
        if kw == 'for':
            rest = mb[m.end():]
            if not re.match(r'\s+[^;{]*?\bin\b', rest):
                continue
        if kw == 'loop':
            if not re.match(r'\s*\{', mb[m.end():]):
                continue
        try:
            o = find_body_open(mb, m.end())
        except ExtractError:
            continue
        loops.append(dict(kw=kw, start=m.start(), kw_end=m.end(), open=o))
    return loops


def rewrite_for_header(pat, expr, idx, spec):
    """Return (prelude, cond, bindings) for `for pat in expr`.  R1/R2/R3."""
    pat = pat.strip()
    expr = expr.strip()
    e = expr
    elem = spec.get('elem')  # 'copy' | 'ref' | None

    def bind(p, seq, copy_default=False):
        p = p.strip()
        if p == '_':
            return ''
        if p.startswith('&'):
            return f"let {p[1:].strip()} = {seq}[{idx}];"
        if elem == 'copy' or copy_default:
            return f"let {p} = {seq}[{idx}];"
        return f"let {p} = &{seq}[{idx}];"

    m = re.fullmatch(r'&?(' + PATH + r')', e) or re.fullmatch(r'(' + PATH + r')\.iter\(\)', e)
    if m:
        seq = m.group(1)
        return (f"let mut {idx}: usize = 0;", f"{idx} < {seq}.len()", bind(pat, seq), 'R1/R2 slice iteration')
    m = re.fullmatch(r'&(' + PATH + r')\[(\w+)\.\.\]', e)
    if m:
        seq, st = m.group(1), m.group(2)
        return (f"let mut {idx}: usize = {st};", f"{idx} < {seq}.len()", bind(pat, seq), 'R2 sub-slice iteration')
    m = re.fullmatch(r'(' + PATH + r')\.windows\(2\)', e)
    if m:
        seq = m.group(1)
        return (f"let mut {idx}: usize = 0;", f"{idx} + 1 < {seq}.len()",
                f"let {pat} = [{seq}[{idx}], {seq}[{idx} + 1]];", 'R2 windows(2)')
    m = re.fullmatch(r'(' + PATH + r')\.iter\(\)\.rev\(\)\.take\(([\w.]+)\)', e)
    if m:
        # R2r: the last N elements, last first (definition of rev + take on a slice iterator)
        seq, n = m.group(1), m.group(2)
        if not re.fullmatch(r'\w+', pat):
            raise ExtractError(f"R2r: unsupported pattern {pat!r}")
        return (f"let mut {idx}: usize = 0;", f"{idx} < {n} && {idx} < {seq}.len()", f"let {pat} = &{seq}[{seq}.len() - 1 - {idx}];", 'R2r iter().rev().take(n)')
    m = re.fullmatch(r'(' + PATH + r')\.(chunks|chunks_exact)\((\w+)\)', e)
    if m:
        # R2c: the definition of slice::chunks / chunks_exact — consecutive sub-slices of N elements; `chunks` hands out the
        # shorter remainder as a last chunk, `chunks_exact` leaves it out
        seq, kind, n = m.group(1), m.group(2), m.group(3)
        if not re.fullmatch(r'\w+', pat):
            raise ExtractError(f"R2c: unsupported chunks pattern {pat!r}")
        sl = seq if spec.get('chunks_of') == 'slice' else f"{seq}.as_slice()"
        spec['_step'] = f"{idx} = {idx} + {pat}.len();"
        if kind == 'chunks':
            return (f"let mut {idx}: usize = 0;", f"{idx} < {seq}.len()",
                    f"let {pat} = vstd::slice::slice_subrange({sl}, {idx}, if {seq}.len() - {idx} < {n} {{ {seq}.len() }} else {{ {idx} + {n} }});", f'R2c {kind}({n})')
        return (f"let mut {idx}: usize = 0;", f"{seq}.len() - {idx} >= {n}",
                f"let {pat} = vstd::slice::slice_subrange({sl}, {idx}, {idx} + {n});", f'R2c {kind}({n})')
    m = re.fullmatch(r'(' + PATH + r')\.iter\(\)\.enumerate\(\)', e)
    if m:
        seq = m.group(1)
        pm = re.fullmatch(r'\(\s*(\w+)\s*,\s*(&?\s*\w+)\s*\)', pat)
        if not pm:
            raise ExtractError(f"R2: unsupported enumerate pattern {pat!r}")
        b = f"let {pm.group(1)} = {idx};" if pm.group(1) != '_' else ''
        return (f"let mut {idx}: usize = 0;", f"{idx} < {seq}.len()", (b + ' ' + bind(pm.group(2), seq)).strip(), 'R2 enumerate')
    m = re.fullmatch(r'(' + PATH + r')\.iter\(\)\.zip\(&?(' + PATH + r')(?:\.iter\(\))?\)', e)
    if m:
        s1, s2 = m.group(1), m.group(2)
        pm = re.fullmatch(r'\(\s*(&?\s*\w+)\s*,\s*(&?\s*\w+)\s*\)', pat)
        if not pm:
            raise ExtractError(f"R2: unsupported zip pattern {pat!r}")
        return (f"let mut {idx}: usize = 0;", f"{idx} < {s1}.len() && {idx} < {s2}.len()",
                (bind(pm.group(1), s1) + ' ' + bind(pm.group(2), s2)).strip(), 'R2 zip')
    # R2m: mutable iteration over a word vector: `for (w, y) in X.iter_mut().zip(Y)` / `for (i, w) in X.iter_mut().enumerate()`
    # -> index loop; in the body `*w op= e;` -> `X.set(idx, X[idx] op (e));`, `*w = e;` -> `X.set(idx, e);`, a bare `y` -> `Y[idx]`
    m = re.fullmatch(r'(' + PATH + r')\.iter_mut\(\)\.zip\(&?(' + PATH + r')(?:\.iter\(\))?\)', e)
    if m:
        s1, s2 = m.group(1), m.group(2)
        pm = re.fullmatch(r'\(\s*(\w+)\s*,\s*&?\s*(\w+)\s*\)', pat)
        if not pm:
            raise ExtractError(f"R2m: unsupported iter_mut().zip pattern {pat!r}")
        w, y = pm.group(1), pm.group(2)
        spec['_body_subs'] = [
            (r'\*' + w + r' (\||&|\^)= !' + y + r';', s1 + '.set(' + idx + ' - 1, ' + s1 + '[' + idx + ' - 1] \\1 !' + s2 + '[' + idx + ' - 1]);'),
            (r'\*' + w + r' (\||&|\^)= ' + y + r';', s1 + '.set(' + idx + ' - 1, ' + s1 + '[' + idx + ' - 1] \\1 ' + s2 + '[' + idx + ' - 1]);'),
        ]
        return (f"let mut {idx}: usize = 0;", f"{idx} < {s1}.len() && {idx} < {s2}.len()", '', 'R2m iter_mut().zip')
    m = re.fullmatch(r'(' + PATH + r')\.iter_mut\(\)\.enumerate\(\)', e)
    if m:
        s1 = m.group(1)
        pm = re.fullmatch(r'\(\s*(\w+)\s*,\s*(\w+)\s*\)', pat)
        if not pm:
            raise ExtractError(f"R2m: unsupported iter_mut().enumerate pattern {pat!r}")
        iv, w = pm.group(1), pm.group(2)
        spec['_body_subs'] = [
            (r'\*' + w + r' (\||&|\^)= ([^;\n]+);', s1 + '.set(' + iv + ', ' + s1 + '[' + iv + '] \\1 (\\2));'),
            (r'\*' + w + r' = ([^;\n]+);', s1 + '.set(' + iv + ', \\1);'),
        ]
        return (f"let mut {idx}: usize = 0;", f"{idx} < {s1}.len()", f"let {iv} = {idx};", 'R2m iter_mut().enumerate')
    m = re.fullmatch(r'\(?([\w.]+)\.\.([\w.()]+)\)?', e)
    if m and not e.endswith('.rev()'):
        a, b = m.group(1), m.group(2)
        ty = spec.get('ty')
        decl = f"let mut {idx}{': ' + ty if ty else ''} = {a};"
        bnd = '' if pat == '_' else f"let {pat} = {idx};"
        return (decl, f"{idx} < {b}", bnd, 'R3 range loop')
    raise ExtractError(f"R2: `for {pat} in {expr}` is outside the rule catalogue")


def splice_loops(body, loopspecs, log):
    """loopspecs: {ordinal: dict(index=, clauses=, before=, body_top=, body_bottom=, after=, elem=, ty=)}"""
    loops = find_loops(body)
    for o in list(loopspecs):
        if o < 1 or o > len(loops):
            if loopspecs[o].get('optional'):
                log.append(f"loop {o}: not present in this text (optional loop contract skipped)")
                del loopspecs[o]
                continue
            raise ExtractError(f"anchor lost: loop {o} (function has {len(loops)} loops)")
    for ordinal in range(len(loops), 0, -1):
        lp = loops[ordinal - 1]
        spec = loopspecs.get(ordinal, {})
        mb = mask(body)
        o = find_body_open(mb, lp['kw_end'])
        c = match_close(mb, o)
        head = body[lp['start']:o]
        inner = body[o + 1:c]
        indent = re.match(r'[ \t]*', body[body.rfind('\n', 0, lp['start']) + 1:]).group(0)
        ind2 = indent + '    '
        clauses = spec.get('clauses', '').rstrip()
        if lp['kw'] == 'for':
            hm = re.match(r"((?:'\w+\s*:\s*)?)for\s+(.*?)\s+in\s+(.*)$", head.strip(), re.S)
            if not hm:
                raise ExtractError(f"cannot parse for-header: {head!r}")
            label, pat, expr = hm.group(1), hm.group(2), hm.group(3)
            if spec.get('native'):
                # keep as a Verus-native `for` loop; only splice clauses
                new = head.rstrip() + ('\n' + clauses + '\n' + indent if clauses else ' ') + '{'
                prelude = ''
                bindings = ''
            else:
                idx = spec.get('index') or f"__i{ordinal}"
                prelude, cond, bindings, rule = rewrite_for_header(pat, expr, idx, spec)
                for (rx_, rep_) in spec.pop('_body_subs', []):
                    inner, k_ = re.subn(rx_, rep_, inner)
                    if k_:
                        log.append(f"R2m body rewrite /{rx_}/ ({k_}x)")
                if re.search(r'iter_mut', expr) and re.search(r'(?<![\w.])\*\w+\s*(?:[|&^]?=)', inner):
                    raise ExtractError(f"R2m: a write through the mutable iterator remains in the loop body of `for {pat} in {expr.strip()}`")
                log.append(f"{rule}: `for {pat} in {expr.strip()}` -> index loop on `{idx}` (increment at top, so `continue` is preserved)")
                new = f"{label}while {cond}" + ('\n' + clauses + '\n' + indent if clauses else ' ') + '{'
                step = spec.pop('_step', f"{idx} += 1;")
                bindings = f"\n{ind2}{bindings}\n{ind2}{step}" if bindings else f"\n{ind2}{step}"
        else:
            prelude = ''
            bindings = ''
            if not clauses and lp['kw'] in ('while', 'loop') and ordinal not in loopspecs:
                new = head + '{'
            else:
                new = head.rstrip() + ('\n' + clauses + '\n' + indent if clauses else ' ') + '{'
        top = spec.get('body_top', '').rstrip()
        bottom = spec.get('body_bottom', '').rstrip()
        before = spec.get('before', '').rstrip()
        after = spec.get('after', '').rstrip()
        text = ''
        if before:
            text += before + '\n' + indent
        if prelude:
            text += prelude + '\n' + indent
        text += new + bindings
        if top:
            text += '\n' + top
        text += inner.rstrip(' \t')
        if bottom:
            if not text.endswith('\n'):
                text += '\n'
            text += bottom + '\n'
        if not text.endswith('\n'):
            text += '\n'
        text += indent + '}'
        if after:
            text += '\n' + after
        body = body[:lp['start']] + text + body[c + 1:]
    return body, len(loops)


# --------------------------------------------------------------------------- driver for one fn

def parse_kv(s):
    d = {}
    for tok in shlex.split(s):
        if '=' in tok:
            k, v = tok.split('=', 1)
            d[k] = v
        else:
            d[tok] = True
    return d


def extract_fn(repo, fnspec):
    """fnspec: dict(file, name, impl, ret, rules[list], generics, sections...) -> dict(text, linemap, log, meta)"""
    path = f"{repo}/{fnspec['file']}"
    try:
        src = open(path).read()
    except OSError as e:
        raise ExtractError(f"anchor lost: file {fnspec['file']}: {e}")
    masked = mask(src)
    ov = fnspec.get('_override')   # statement mode: (wrapper signature, body built from anchored statements, loc, log)
    if ov:
        sig, body, loc = ov['sig'], ov['body'], ov['loc']
    else:
        loc = find_fn(src, masked, fnspec['name'], fnspec.get('impl'), fnspec.get('nth'))
        sig = src[loc['sig_start']:loc['body_open']]
        body = src[loc['body_open']:loc['body_close'] + 1]
    orig_body = body
    log = list(ov['log']) if ov else []
    rules = fnspec.get('rules', [])
    if 'unsafe' in mask(body).split():
        log.append("WARNING: body contains `unsafe`")
    # strip inner attributes/doc comments on statements (R6)
    b2 = re.sub(r'(?m)^[ \t]*#\[(?:allow|inline|must_use|cfg_attr|expect)[^\]]*\][ \t]*\n', '', body)
    if b2 != body:
        log.append("R6 statement attributes removed")
        body = b2
    if 'R4' in rules:
        body = r4_strip_tracing(body, log)
    if 'R2a' in rules:
        # R2a: a body that is the single expression `X.iter().all(|p| COND)` -> the defining short-circuit loop
        m_ = re.fullmatch(r'\{\s*(' + PATH + r')\s*\.iter\(\)\s*\.all\(\|(\w+)\|\s*(.+?)\)\s*\}', body, re.S)
        if not m_:
            log.append("R2a not applicable: the body is not a single `X.iter().all(|p| cond)` expression (left as written)")
        else:
          seq_, p_, cond_ = m_.group(1), m_.group(2), m_.group(3).strip()
          body = ('{\n        for ' + p_ + ' in ' + seq_ + '.iter() {\n            if !(' + cond_ + ') {\n                return false;\n            }\n        }\n        true\n    }')
          log.append(f"R2a `{seq_}.iter().all(|{p_}| {cond_})` -> loop returning false at the first element that fails, true otherwise (definition of `all`)")
    if 'R8w' in rules:
        b2, k_ = re.subn(r'\s*\.await\b', '', body)
        if k_:
            log.append(f"R8w `.await` erased ({k_}x): every awaited future is run to completion at its await point (one task, no interleaving)")
            body = b2
    if 'R8' in rules:
        body = r8_guards(body, log, set(fnspec.get('dropped_fields', [])))
    if 'R13' in rules or 'R13m' in rules:
        body = r13_option_combinators(body, log, with_map='R13m' in rules)
    if 'R15' in rules:
        body = r15_io_error_guards(body, log)
    if 'R13p' in rules:
        body = r13p_clone_from(body, log)
    if 'R17' in rules:
        body = r17_get_mut(body, log)
    if 'R13g' in rules:
        body = r13g_get_or_insert_with(body, log)
    if 'R17q' in rules:
        body = r17q_get_mut_or_else(body, log)
    if 'R7f' in rules:
        body = r7f_messages(body, log)
    if 'R3i' in rules:
        body = r3i_inclusive_range(body, log)
    if 'R18' in rules:
        body = r18_vec_set(body, log)
    if 'R18c' in rules:
        body = r18c_index_compound(body, log)
    if 'R21' in rules:
        body = r21_map_index(body, log)
    if 'R13e' in rules:
        body = r13e_entry_or_insert(body, log)
    for d in fnspec.get('directives', []):
        k = d['kind']
        if k == 'opaque':
            body = r12_opaque(body, d['begin'], d['end'], d['replace'], log, d.get('name', ''),
                              include_end=d.get('include_end', 'true') != 'false', nth=d.get('nth'))
        elif k == 'subst':
            body = subst(body, d['from'], d['to'], log, d.get('rule', 'subst'), d.get('count', 1), regex=bool(d.get('regex')), optional=bool(d.get('optional')))
        elif k == 'insert':
            anchor = d.get('after') or d.get('before')
            n = body.count(anchor)
            nth = int(d.get('nth', 0))
            expect = int(d.get('of', 1)) if not nth else int(d.get('of', n))
            if n == 0 and d.get('optional'):
                log.append(f"ghost hint after/before {anchor!r}: anchor not present, hint skipped (optional; the obligations are checked without it)")
                continue
            if n == 0 or (not nth and n != 1) or (nth and (nth > n or n != expect)):
                raise ExtractError(f"ghost-insert anchor lost: {anchor!r} matched {n}x (nth={nth or 1}, expected {expect})")
            pos = -1
            for _ in range(nth or 1):
                pos = body.index(anchor, pos + 1)
            if d.get('after'):
                pos += len(anchor)
                body = body[:pos] + '\n' + d['text'] + body[pos:]
            else:
                ls = body.rfind('\n', 0, pos) + 1
                body = body[:ls] + d['text'] + '\n' + body[ls:]
            log.append(f"ghost text inserted {'after' if d.get('after') else 'before'} `{anchor}`" + (f" (occurrence {nth})" if nth else ''))
    if fnspec.get('generics'):
        for pair in fnspec['generics'].split(','):
            t, ty = pair.split(':')
            body = re.sub(r'\b' + re.escape(t) + r'\b', ty, body)
            sig = re.sub(r'\b' + re.escape(t) + r'\b(?!\s*:)', ty, sig)
            log.append(f"R5 generic {t} monomorphised at {ty}")

    body, nloops = splice_loops(body, fnspec.get('loops', {}), log)
    sig2 = sig if ov else rewrite_signature(sig, fnspec.get('ret'), receiver_mut=('R8' in rules),
                             drop_generics=bool(fnspec.get('generics')), log=log)
    if fnspec.get('sig_subst'):
        for frm, to, rule in fnspec['sig_subst']:
            if frm not in sig2:
                raise ExtractError(f"{rule} signature anchor lost: {frm!r}")
            sig2 = sig2.replace(frm, to)
            log.append(f"{rule} signature `{frm}` -> `{to}`")
    # top / bottom insertions
    top = fnspec.get('top', '').rstrip()
    if top:
        body = '{\n' + top + body[1:]
    endtext = fnspec.get('end', '').rstrip()
    if endtext:
        # unit-returning function: ghost text after the last statement / block, just before the closing brace
        k = body.rindex('}')
        body = body[:k].rstrip() + '\n' + endtext + '\n' + body[k:]
    bottom = fnspec.get('bottom', '').rstrip()
    if bottom:
        # insert before the tail expression = after the last statement boundary at depth 1
        mb = mask(body)
        depth = 0
        boundary = 1  # just after the opening brace
        end = len(mb) - 1  # closing brace of the fn body
        k = 0
        while k < end:
            c = mb[k]
            if c in '([{':
                depth += 1
            elif c in ')]}':
                depth -= 1
                if c == '}' and depth == 1:
                    rest = mb[k + 1:end].lstrip()
                    if rest and not rest.startswith(('.', '?', 'else', ')', ',', ';', 'as ')) and not re.match(r'[-+*/%&|^=<>]', rest):
                        boundary = k + 1
            elif c == ';' and depth == 1:
                boundary = k + 1
            k += 1
        body = body[:boundary] + '\n' + bottom + '\n' + body[boundary:].lstrip('\n')
    # assemble
    parts = [sig2]
    if fnspec.get('no_termination'):
        # termination of this function is NOT claimed (stated in the evidence through the allow-list scan)
        parts = ['#[verifier::exec_allows_no_decreases_clause]', sig2]
        log.append("termination not proved: #[verifier::exec_allows_no_decreases_clause]")
    if fnspec.get('loop_isolation') == 'false':
        # proof engineering only (sound): loops see the facts about immutable locals established before them
        parts.insert(0, '#[verifier::loop_isolation(false)]')
        log.append("#[verifier::loop_isolation(false)]: loop bodies keep the enclosing context's facts")
    for kind in ('requires', 'ensures'):
        cl = fnspec.get(kind, [])
        if cl:
            parts.append(f"    {kind}")
            for (oid, text) in cl:
                t = text.rstrip().rstrip(',')
                parts.append(f"        {t.strip()},  //@OBL {kind} {oid}")
    if fnspec.get('decreases'):
        parts.append(f"    decreases {fnspec['decreases']}")
    text = '\n'.join(parts) + '\n' + body + '\n'
    # line map for the body by diff against the original body
    out_lines = text.split('\n')
    orig_lines = orig_body.split('\n')
    sm = difflib.SequenceMatcher(a=[l.strip() for l in orig_lines], b=[l.strip() for l in out_lines], autojunk=False)
    linemap = [None] * len(out_lines)
    for tag, a0, a1, b0, b1 in sm.get_opcodes():
        if tag == 'equal':
            for k in range(b1 - b0):
                linemap[b0 + k] = loc['line'] + src[loc['sig_start']:loc['body_open']].count('\n') + a0 + k
    last = loc['line']
    exact = []
    for k in range(len(out_lines)):
        if linemap[k] is None:
            exact.append(False)
            linemap[k] = last
        else:
            exact.append(True)
            last = linemap[k]
    import hashlib
    return dict(text=text, linemap=linemap, exact=exact, log=log, nloops=nloops,
                src_line=loc['line'], file=fnspec['file'],
                body_sha=hashlib.sha256(re.sub(r'\s+', ' ', orig_body).encode()).hexdigest()[:16],
                sig=sig.strip())


def extract_stmts(repo, fnspec):
    """Statement-level extraction: copy the statements that start at the given anchors (each up to its
    terminating `;` at bracket depth 0) out of `src_fn` verbatim into a wrapper function whose signature
    is given by the unit.  Everything else in the source function is dropped (stated in the log)."""
    import hashlib
    path = f"{repo}/{fnspec['file']}"
    try:
        src = open(path).read()
    except OSError as e:
        raise ExtractError(f"anchor lost: file {fnspec['file']}: {e}")
    masked = mask(src)
    loc = find_fn(src, masked, fnspec['src_fn'], fnspec.get('impl'))
    body = src[loc['body_open']:loc['body_close'] + 1]
    mb = mask(body)
    log = [f"statement extraction from fn {fnspec['src_fn']}: only the anchored statements are kept, the rest of the function is dropped"]
    stmts = []
    lines = []
    for a in fnspec['anchors']:
        a, akv = a if isinstance(a, tuple) else (a, {})
        n = body.count(a)
        nth = int(akv.get('nth', 0))
        if (not nth and n != 1) or (nth and (n < nth or n != int(akv.get('of', n)))):
            raise ExtractError(f"statement anchor lost: {a!r} matched {n}x in fn {fnspec['src_fn']}" + (f" (occurrence {nth} of {akv.get('of', n)} wanted)" if nth else ''))
        i = -1
        for _ in range(nth or 1):
            i = body.index(a, i + 1)
        if re.match(r'(if|for|while|match|loop)\b', a):
            # block statement: ends with the block (and its else-chain), not with a `;`
            j = i
            while True:
                o = mb.index('{', j)
                j = match_close(mb, o)
                m2 = re.match(r'\s*else\b', mb[j + 1:])
                if not m2:
                    break
                j = j + 1 + m2.end()
        else:
            depth = 0
            j = i
            while j < len(mb):
                c = mb[j]
                if c in '([{':
                    depth += 1
                elif c in ')]}':
                    depth -= 1
                elif c == ';' and depth == 0:
                    break
                j += 1
        st = body[i:j + 1]
        if akv.get('sole_in'):
            # the statement must be the ONLY statement of the block whose header contains the given text (so that no
            # logic of that block escapes the extraction when code is moved in or out of the statement)
            depth = 0
            k = i - 1
            while k >= 0:
                c = mb[k]
                if c in ')]}':
                    depth += 1
                elif c in '([{':
                    if depth == 0:
                        break
                    depth -= 1
                k -= 1
            if k < 0 or mb[k] != '{':
                raise ExtractError(f"statement anchor {a!r}: enclosing block not found")
            close = match_close(mb, k)
            header = body[body.rfind('\n', 0, k) + 1:k]
            if akv['sole_in'] not in header:
                raise ExtractError(f"statement anchor {a!r}: enclosing block is `{header.strip()}`, expected `{akv['sole_in']}`")
            if mb[k + 1:i].strip() or mb[j + 1:close].strip():
                raise ExtractError(f"statement anchor {a!r}: it is no longer the only statement of `{akv['sole_in']}` "
                                   f"(other code in that block would escape the contract)")
            log.append(f"checked: the statement is the sole statement of the block `{header.strip()}`")
        stmts.append(st)
        lines.append(loc['line'] + src[loc['sig_start']:loc['body_open']].count('\n') + body.count('\n', 0, i))
        log.append(f"kept statement at {fnspec['file']}:{lines[-1]}: `{' '.join(st.split())[:100]}`")
    text_body = '{\n' + '\n'.join('    ' + s_ for s_ in stmts) + ('\n    ' + fnspec['ret'] if fnspec.get('ret') else '') + '\n}'
    if fnspec.get('rules') or fnspec.get('loops') or fnspec.get('top') or fnspec.get('bottom') or fnspec.get('end') or any(d['kind'] != 'subst' for d in fnspec.get('directives', [])):
        # statement mode + the ordinary rule / loop / ghost pipeline
        f2 = dict(fnspec)
        loc2 = dict(loc)
        loc2['line'] = lines[0] if lines else loc['line']
        loc2['sig_start'] = loc2['body_open'] = 0
        f2['_override'] = dict(sig=fnspec['wrapper_sig'], body=text_body, loc=loc2, log=log)
        f2['ret'] = None
        f2['name'] = fnspec['name']
        r = extract_fn(repo, f2)
        r['body_sha'] = hashlib.sha256(' '.join(' '.join(s_.split()) for s_ in stmts).encode()).hexdigest()[:16]
        r['sig'] = fnspec['wrapper_sig']
        return r
    for d in fnspec.get('directives', []):
        if d['kind'] == 'subst':
            text_body = subst(text_body, d['from'], d['to'], log, d.get('rule', 'subst'), d.get('count', 1), regex=bool(d.get('regex')), optional=bool(d.get('optional')))
    parts = [fnspec['wrapper_sig']]
    for kind in ('requires', 'ensures'):
        cl = fnspec.get(kind, [])
        if cl:
            parts.append(f"    {kind}")
            for (oid, t) in cl:
                parts.append(f"        {t.rstrip().rstrip(',').strip()},  //@OBL {kind} {oid}")
    text = '\n'.join(parts) + '\n' + text_body + '\n'
    out_lines = text.split('\n')
    linemap = [lines[0] if lines else loc['line']] * len(out_lines)
    return dict(text=text, linemap=linemap, exact=[False] * len(out_lines), log=log, nloops=0,
                src_line=loc['line'], file=fnspec['file'],
                body_sha=hashlib.sha256(' '.join(' '.join(s_.split()) for s_ in stmts).encode()).hexdigest()[:16],
                sig=fnspec['wrapper_sig'])
