"""V engine: assemble a unit from the working tree, run Verus, classify."""
import os
import re
import json
import time
from . import unitfile, verus
from .rustlex import ExtractError

VERIF = os.path.dirname(os.path.dirname(os.path.abspath(__file__)))

ASSUME_PATTERNS = [
    (r'\bassume\s*\(', 'assume'),
    (r'\badmit\s*\(', 'admit'),
    (r'#\[verifier::external_body\]', 'external_body'),
    (r'#\[verifier::external\]', 'external'),
    (r'\bassume_specification\b', 'assume_specification'),
    (r'#\[verifier::external_fn_specification\]', 'external_fn_specification'),
    (r'#\[verifier::external_type_specification\]', 'external_type_specification'),
    (r'\buninterp\s+spec\s+fn\b', 'uninterpreted spec fn'),
    (r'#\[verifier::(?:nonlinear|integer_ring)\]', 'nonlinear mode'),
    (r'\bglobal\s+size_of\b', 'global size_of (target assumption)'),
    (r'\baxiom\s+fn\b|broadcast\s+axiom', 'axiom'),
    (r'#\[verifier::exec_allows_no_decreases_clause\]|#\[verifier::loop_isolation\(false\)\]', 'verifier attribute'),
    (r'\bunsafe\b', 'unsafe'),
]


def scan_assumptions(text):
    """Every assumption marker in the generated file, with the item it applies to (an attribute on a line of
    its own is reported together with the signature line(s) that follow it, so the evidence names the function
    and shows its assumed contract)."""
    found = []
    lines = text.split('\n')
    for ln, l in enumerate(lines, 1):
        code = l.split('//')[0]
        for pat, name in ASSUME_PATTERNS:
            if re.search(pat, code):
                shown = l.strip()
                if re.fullmatch(r'\s*#\[[^\]]*\]\s*', code):
                    extra = []
                    for nxt in lines[ln:ln + 8]:
                        t = nxt.split('//')[0].strip()
                        if not t or t.startswith('#['):
                            continue
                        extra.append(t)
                        if '{' in t or t.endswith(';'):
                            break
                    shown = shown + ' ' + ' '.join(extra)
                found.append(dict(kind=name, line=ln, text=shown[:400]))
    return found


def run_unit(repo, unit_name, gen_dir, rlimit=None, timeout=600, tier='quick'):
    """Returns a result dict:
       status: ok | failed | undecided
       obligations: {id: discharged|failed|undecided}
       failures: [...], assumptions: [...], rewrites: [...], functions: [...], smt_s, wall_s, cmd
    """
    t0 = time.time()
    path = f"{VERIF}/units/{unit_name}.vu"
    res = dict(unit=unit_name, engine='verus', status='undecided', obligations={}, failures=[], notes=[],
               assumptions=[], rewrites=[], functions=[], smt_s=0.0, wall_s=0.0, cmd='', verified=0)
    try:
        u = unitfile.parse_unit(path)
        res['unit_id'] = u['id']
        a = unitfile.assemble(repo, u)
    except ExtractError as e:
        res['notes'].append(f"extraction: {e}")
        res['wall_s'] = time.time() - t0
        return res
    os.makedirs(gen_dir, exist_ok=True)
    gen = f"{gen_dir}/{unit_name}.rs"
    open(gen, 'w').write(a['text'])
    res['generated'] = gen
    res['rewrites'] = a['log']
    res['functions'] = [dict(name=(f['impl'] + '::' if f['impl'] else '') + f['name'], file=f['file'], line=f['src_line'],
                             body_sha=f['body_sha']) for f in a['fns']]
    # assumption scan + allow-list
    found = scan_assumptions(a['text'])
    res['assumptions'] = found
    allowed = u['allowed_assumptions']
    for f in found:
        if not any(al in f['text'] or al == f['kind'] for al in allowed):
            res['notes'].append(f"assumption not on the unit's allow-list: {f['kind']} at generated line {f['line']}: {f['text']}")
            res['status'] = 'undecided'
            res['wall_s'] = time.time() - t0
            res['obligations'] = {}
            return res
    r = verus.run_verus(gen, rlimit=rlimit, timeout=timeout)
    an = verus.analyse(a, r)
    res.update(status=an['status'], obligations=an['obligations'], failures=an['failures'],
               smt_s=an['smt_s'], verified=an['verified'], cmd=r['cmd'])
    res['notes'] += an['notes']
    res['verus_wall_s'] = r['wall_s']
    res['wall_s'] = time.time() - t0
    res['raw_tail'] = '\n'.join(d.get('rendered', '') for d in r['diags'] if d.get('level') == 'error')[:6000]
    # a failed obligation must be reproducible: if the same text verifies under another SMT seed, the failure is a
    # solver instability (undecided), not a property violation
    if an['status'] == 'failed' and unit_name != '_canary':
        for seed in (7, 11):
            r2 = verus.run_verus(gen, rlimit=rlimit, timeout=timeout, extra=['--smt-option', f'smt.random_seed={seed}'])
            a2 = verus.analyse(a, r2)
            if a2['status'] == 'ok':
                res['status'] = 'undecided'
                res['notes'].append(f"obligations {[f['obligation'] for f in an['failures']][:4]} failed with the default SMT seed but the unit verifies with seed {seed}: solver instability, not reported as a violation")
                res['obligations'] = {k: ('undecided' if v == 'failed' else v) for k, v in res['obligations'].items()}
                res['failures'] = []
                break
    # thorough tier: proof-stability sweep — the same obligations under other SMT random seeds.  A seed that
    # disagrees with the default run is reported as instability (a note), never as a violation.
    if tier == 'thorough' and unit_name != '_canary' and an['status'] == 'ok':
        seeds_ok = 0
        for seed in (1, 2, 3, 4, 5):
            r2 = verus.run_verus(gen, rlimit=rlimit, timeout=timeout, extra=['--smt-option', f'smt.random_seed={seed}'])
            a2 = verus.analyse(a, r2)
            res['smt_s'] += a2['smt_s']
            if a2['status'] == 'ok':
                seeds_ok += 1
            else:
                res['notes'].append(f"proof instability: seed {seed} gave {a2['status']} ({[f['obligation'] for f in a2['failures']][:4]})")
        res['stability'] = f"{seeds_ok}/5 alternative SMT seeds agree"
    return res
