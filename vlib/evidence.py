"""Verdict, known-findings handling, replay files and evidence/<id>.json."""
import json
import os
import re
import subprocess
import time

VERIF = os.path.dirname(os.path.dirname(os.path.abspath(__file__)))

TRUSTED_BASE = [
    "Verus 0.2026.09.13 + bundled Z3 (SMT encoding of Rust semantics, vstd specifications of std: Vec, slice, HashMap, integer ops)",
    "Kani 0.68 / CBMC 6.11 / kissat (bit-precise; harnesses compiled with Kani's pinned nightly)",
    "rustc 1.98.1 front end used by Verus; the extractor vlib/extract.py and its rule catalogue (DESIGN.md 2.2) — each rule application is listed under coverage.rewrites_applied",
    "machine arithmetic is NOT treated as mathematical: Verus proves absence of overflow for exec code or the `.safety` obligation fails; Kani runs with overflow checks",
    "64-bit target (usize == u64) where a unit declares `global size_of usize == 8`",
]


def _match_known(known, pid, oid, case_json, detail):
    """An open finding suppresses a failure only if it names this obligation AND its patterns identify the
    failing input: `match` is searched in `<case json> <detail>`; `each_difference` must match EVERY
    ` | `-separated difference listed in the detail (so an additional, unlisted difference is still reported)."""
    text = f"{case_json} {detail}"
    for k in known.get('findings', []):
        if k.get('property') != pid or k.get('status', 'open') != 'open':
            continue
        if k.get('obligation') != oid:
            continue
        pat = k.get('match')
        if pat and not re.search(pat, text, re.S):
            continue
        each = k.get('each_difference')
        if each:
            body = re.sub(r'^\d+ difference\(s\): ', '', detail or '')
            # `split_all`: the detail joins groups with ' || ' and differences inside a group with ' | '
            segs = [x.strip() for x in (re.split(r' \|\|? ', body) if k.get('split_all') else body.split(' | ')) if x.strip()]
            if not segs or not all(re.fullmatch(each, sg, re.S) for sg in segs):
                continue
        return k
    return None


def conclude(pid, P, args, seed, results, wall, known, baseline):
    tier = args.tier
    notes = []
    undecided = []
    violations = []
    known_hits = []
    # ---- canary (vacuity guard for the V pipeline)
    canary = [r for r in results if r.get('unit') == '_canary']
    real = [r for r in results if r.get('unit') != '_canary']
    if canary:
        c = canary[0]
        if not (c['status'] == 'failed' and any(f['obligation'] == 'CANARY.must_fail' for f in c['failures'])):
            undecided.append(f"vacuity guard: the Verus canary (a deliberately false postcondition on real code) was not reported as failed: {c['status']} {c.get('notes')}")
        canary_ok = [o for o, s in c['obligations'].items() if o == 'CANARY.must_hold' and s == 'discharged']
        if not canary_ok:
            undecided.append("vacuity guard: the Verus canary's true postcondition was not discharged")
    # ---- per unit
    base_units = baseline.get(pid, {})
    try:
        opaque_base = json.load(open(f"{VERIF}/contracts/opaque_hashes.json"))
    except (OSError, ValueError):
        opaque_base = {}
    opaque_now_all = {}
    total = 0
    discharged = 0
    held_bounded = 0
    by_backend = {}
    functions = []
    rewrites = []
    assumptions = []
    samples = []
    solver_time = {}
    stability = {}
    cmds = []
    evaluations = 0
    nontrivial = 0
    bounds = []
    for r in real:
        eng = r['engine']
        be = by_backend.setdefault(eng, dict(obligations=0, discharged=0, failed=0, undecided=0, held_on_stated_domain=0))
        for oid, st in r['obligations'].items():
            total += 1
            be['obligations'] += 1
            if st == 'discharged':
                discharged += 1
                be['discharged'] += 1
            elif st == 'held':
                held_bounded += 1
                be['held_on_stated_domain'] += 1
            elif st == 'failed':
                be['failed'] += 1
            else:
                be['undecided'] += 1
        # obligation-set guard against silently lost obligations
        exp = base_units.get(r['unit'])
        if exp is not None:
            missing = sorted(set(exp) - set(r['obligations']))
            if missing and r['status'] != 'undecided':
                undecided.append(f"{r['unit']}: obligations recorded in the baseline are no longer generated: {missing[:6]}")
        # the text behind an opaque (R12) block carries an ASSUMED contract: if it changed since the baseline
        # was recorded, the assumption has to be re-read by a person -> undecided, never an alarm
        now_opaque = {}
        for x in r.get('rewrites', []):
            m_ = re.search(r"R12 opaque block '([^']*)': .*? sha=(\w+)", x)
            if m_:
                now_opaque[(x.split(':')[0].strip() + '/' + m_.group(1))] = m_.group(2)
        opaque_now_all[r['unit']] = now_opaque
        for name, sha in now_opaque.items():
            old_sha = opaque_base.get(r['unit'], {}).get(name)
            if old_sha and old_sha != sha and r['status'] != 'undecided':
                undecided.append(f"{r['unit']}: the code behind opaque block {name} changed since the baseline (sha {old_sha} -> {sha}); its assumed contract must be reviewed")
        if r['status'] == 'undecided':
            undecided.append(f"{r['unit']}: " + '; '.join(r.get('notes', []))[:1500])
        for f in r['failures']:
            k = _match_known(known, pid, f['obligation'], json.dumps(f.get('case', '')), f.get('rendered') or f.get('message', ''))
            if k:
                known_hits.append((k, f, r))
            else:
                violations.append((f, r))
        functions += [dict(engine=eng, unit=r['unit'], **fn) for fn in r.get('functions', [])]
        rewrites += [f"{r['unit']}: {x}" for x in r.get('rewrites', [])]
        for a in r.get('assumptions', []):
            assumptions.append(f"[{r['unit']}] {a['kind']}: {a['text']}")
        solver_time[r['unit']] = round(r.get('smt_s', 0.0), 3)
        if r.get('stability'):
            stability[r['unit']] = r['stability']
        if r.get('cmd'):
            cmds.append(r['cmd'])
        if eng == 'bounded':
            evaluations += r.get('evaluations', 0)
            nontrivial += r.get('nontrivial', 0)
            bounds.append(dict(set=r['unit'], domain=r.get('domain', ''), exhaustive=r.get('exhaustive', False),
                               evaluations=r.get('evaluations', 0), nontrivial=r.get('nontrivial', 0)))
            samples += [dict(kind='bounded-case', set=r['unit'], case=s) for s in r.get('samples', [])[:3]]
        else:
            ob = sorted(r['obligations'].items())
            samples += [dict(kind='obligation', unit=r['unit'], engine=eng, id=o, status=s) for o, s in ob[:4]]
    # ---- verdict
    os.makedirs(f"{VERIF}/replays/{pid}", exist_ok=True)
    lines = []
    # one KNOWN-FINDING line per listed finding (not per failing obligation instance)
    seen = set()
    for k, f, r in known_hits:
        key = (k.get('obligation'), k.get('what'))
        if key in seen:
            continue
        seen.add(key)
        lines.append(f"KNOWN-FINDING: property={pid} {k.get('obligation')}: {k.get('what')}")
    # group violations by obligation; attach concrete input from paired units where possible
    concrete = [(f, r) for (f, r) in violations if f.get('case') is not None]
    seen_v = set()
    vcount = 0
    for f, r in violations:
        key = (r['unit'], f['obligation'])
        if key in seen_v:
            continue
        seen_v.add(key)
        vcount += 1
        case = f.get('case')
        playback = None
        if case is None and r['engine'] == 'kani':
            from . import engine_k
            playback = engine_k.concrete_playback(args.repo, f.get('crate'), f['function'])
        paired = None
        if case is None and playback is None:
            pairs = P.get('pairs', {})
            for (cf_, cr_) in concrete:
                want = pairs.get(f['obligation']) or pairs.get(r['unit'])
                if want and (cf_['obligation'] in want or cr_['unit'] in want):
                    paired = (cf_, cr_)
                    break
        rp = f"{VERIF}/replays/{pid}/{int(time.time())}_{re.sub(r'[^A-Za-z0-9_.-]', '_', f['obligation'])}.json"
        doc = dict(property=pid, obligation=f['obligation'], engine=r['engine'], unit=r['unit'],
                   function=f.get('function'), source=f.get('source'), message=f.get('message'),
                   verifier_output=f.get('rendered', ''), generated_file=r.get('generated'),
                   checker_cmd=r.get('cmd'), tier=tier, seed=seed)
        suffix = ''
        if case is not None:
            doc['failing_input'] = case
            doc['replay_cmd'] = f"./check {pid} --replay {rp}"
            doc['bounded_set'] = r['unit']
        elif playback:
            doc['failing_input'] = dict(kani_concrete_playback=playback)
            doc['replay_cmd'] = f"./check {pid} --replay {rp}"
        elif paired:
            doc['failing_input'] = paired[0].get('case')
            doc['failing_input_found_by'] = dict(set=paired[1]['unit'], obligation=paired[0]['obligation'])
            doc['bounded_set'] = paired[1]['unit']
            doc['bounded_obligation'] = paired[0]['obligation']
            doc['replay_cmd'] = f"./check {pid} --replay {rp}"
        else:
            doc['failing_input'] = None
            suffix = ' no-failing-input-found'
        json.dump(doc, open(rp, 'w'), indent=1)
        lines.append(f"VIOLATION property={pid} replay={rp}{suffix}")
        lines.append(f"  obligation {f['obligation']} [{r['engine']}:{r['unit']}] {f.get('message', '')[:200]} {('at ' + f['source']) if f.get('source') else ''}")
    rc = 0
    if vcount:
        rc = 1
    elif undecided:
        rc = 2
    for l in lines:
        print(l)
    if rc == 2 or (undecided and rc == 1):
        for u in undecided:
            print(f"UNDECIDED property={pid} reason={u[:1800]}")
    # ---- evidence
    proved_only = all(r['engine'] in ('verus', 'kani') for r in real) and not any(
        str(k).startswith('bounded') for r in real for k in r.get('harness_kinds', {}).values())
    level = P.get('level', 'other')
    coverage = dict(
        obligations=total,
        discharged=discharged,
        held_on_stated_bounded_domain=held_bounded,
        by_backend=by_backend,
        functions_under_contract=functions,
        solver_time_s=solver_time,
        proof_stability=stability,
        checker_cmd=' && '.join(sorted(set(cmds)))[:4000] or f"./check {pid} --tier {tier}",
        trusted_base=TRUSTED_BASE,
        rewrites_applied=rewrites,
        bounds=bounds,
        samples=samples[:40],
        known_findings_reported=[k.get('obligation') for k, _, _ in known_hits],
        undecided=undecided,
        explanation=P.get('explanation') or 'Deductive obligations (Verus/Kani) and bounded native obligations are reported separately in by_backend; bounded ones are never counted as discharged.',
        exhaustive=False,
    )
    if evaluations:
        coverage['evaluations'] = evaluations
        coverage['distinct_nontrivial'] = nontrivial
        coverage['rule'] = P.get('rule', 'bounded sets enumerate their stated domain exhaustively; a case is non-trivial when it satisfies the contract precondition and exercises a non-default branch (counted by the enumerator)')
    if level == 'proof' and (discharged != total or not proved_only):
        level_out = 'other'
        coverage['explanation'] = (coverage['explanation'] + ' [this run: not every obligation was discharged by a deductive back end, so the run is reported at level other]').strip()
    else:
        level_out = level
    ev = dict(property_id=pid, tier=tier, seed=seed, level=level_out, coverage=coverage,
              assumptions=sorted(set(assumptions)) + P.get('assumptions', []),
              wall_s=round(wall, 2), violations=vcount)
    if not args.no_evidence:
        os.makedirs(f"{VERIF}/evidence", exist_ok=True)
        json.dump(ev, open(f"{VERIF}/evidence/{pid}.json", 'w'), indent=1)
    if args.record_baseline:
        os.makedirs(f"{VERIF}/contracts", exist_ok=True)
        baseline[pid] = {r['unit']: sorted(r['obligations']) for r in real}
        json.dump(baseline, open(f"{VERIF}/contracts/baseline_status.json", 'w'), indent=1, sort_keys=True)
        opaque_base.update({u: h for u, h in opaque_now_all.items() if h})
        json.dump(opaque_base, open(f"{VERIF}/contracts/opaque_hashes.json", 'w'), indent=1, sort_keys=True)
    print(f"{pid} [{tier}] obligations={total} discharged={discharged} bounded-held={held_bounded} "
          f"violations={vcount} known={len(seen)} undecided={len(undecided)} wall={wall:.1f}s -> exit {rc}")
    return rc


def replay(pid, path, repo):
    """Re-execute the recorded failing input against the real code (bounded harness), or print the
    failed obligation when the verifier gave no input."""
    doc = json.load(open(path))
    print(f"replay: property={doc['property']} obligation={doc['obligation']} engine={doc['engine']}")
    if doc.get('failing_input') is None:
        print("no concrete failing input was found; the verifier's output for the failed obligation follows")
        print(doc.get('verifier_output', '')[:4000])
        return 1
    fi = doc['failing_input']
    if isinstance(fi, dict) and 'kani_concrete_playback' in fi:
        print("Kani concrete playback unit test (values of the counterexample):")
        print(fi['kani_concrete_playback'])
        return 1
    from . import engine_b
    ob = doc.get('bounded_obligation') or doc['obligation']
    return engine_b.replay_case(repo, doc['bounded_set'], ob, fi)
