"""Minimal Rust lexical helpers: masking of comments / strings / chars, brace matching.

Everything in the extractor works on a *masked* copy of the source (same length, same line
structure) in which the contents of comments, string literals and char literals are replaced
by spaces, so that regexes and bracket matching never look inside them.  Offsets found on the
masked text are used to slice the original text, which is what gets copied.
"""
import re


class ExtractError(Exception):
    """Raised when an anchor is lost or a construct is outside the rule catalogue.
    The driver turns it into exit 2 (UNDECIDED), never into a violation."""


def mask(src: str) -> str:
    out = list(src)
    n = len(src)
    i = 0

    def blank(a, b):
        for k in range(a, b):
            if out[k] != '\n':
                out[k] = ' '

    while i < n:
        c = src[i]
        if c == '/' and i + 1 < n and src[i + 1] == '/':
            j = src.find('\n', i)
            if j < 0:
                j = n
            blank(i, j)
            i = j
        elif c == '/' and i + 1 < n and src[i + 1] == '*':
            depth = 1
            j = i + 2
            while j < n and depth:
                if src.startswith('/*', j):
                    depth += 1
                    j += 2
                elif src.startswith('*/', j):
                    depth -= 1
                    j += 2
                else:
                    j += 1
            blank(i, j)
            i = j
        elif c == '"' or (c == 'b' and src.startswith('b"', i)) :
            if c == 'b':
                i += 1
            j = i + 1
            while j < n and src[j] != '"':
                if src[j] == '\\':
                    j += 1
                j += 1
            blank(i + 1, j)
            i = j + 1
        elif c == 'r' and re.match(r'r#*"', src[i:i + 8]) and (i == 0 or not (src[i - 1].isalnum() or src[i - 1] == '_')):
            m = re.match(r'r(#*)"', src[i:i + 8])
            close = '"' + m.group(1)
            j = src.find(close, i + len(m.group(0)))
            if j < 0:
                j = n
            blank(i + len(m.group(0)), j)
            i = j + len(close)
        elif c == "'":
            m = re.match(r"'(\\u\{[0-9a-fA-F]+\}|\\x[0-9a-fA-F]{2}|\\.|[^\\'])'", src[i:i + 14])
            if m:
                blank(i + 1, i + len(m.group(0)) - 1)
                i += len(m.group(0))
            else:
                i += 1  # lifetime
        else:
            i += 1
    return ''.join(out)


OPEN = {'(': ')', '[': ']', '{': '}'}
CLOSE = {v: k for k, v in OPEN.items()}


def match_close(masked: str, i: int) -> int:
    """masked[i] is an opening bracket; return index of its matching closer."""
    assert masked[i] in OPEN, (masked[i], i)
    stack = []
    j = i
    n = len(masked)
    while j < n:
        c = masked[j]
        if c in OPEN:
            stack.append(c)
        elif c in CLOSE:
            if not stack or stack[-1] != CLOSE[c]:
                raise ExtractError(f"unbalanced bracket at offset {j}")
            stack.pop()
            if not stack:
                return j
        j += 1
    raise ExtractError("unterminated bracket")


def find_body_open(masked: str, start: int) -> int:
    """From `start` (inside a header such as `fn f(..) -> T where ..` or `for p in e`), return the
    offset of the first `{` at bracket depth 0 (parens/brackets/angle-free)."""
    depth = 0
    j = start
    n = len(masked)
    while j < n:
        c = masked[j]
        if c in '([':
            depth += 1
        elif c in ')]':
            depth -= 1
        elif c == '{' and depth == 0:
            return j
        elif c == ';' and depth == 0:
            raise ExtractError("item has no body")
        j += 1
    raise ExtractError("no body brace found")


def line_of(src: str, off: int) -> int:
    return src.count('\n', 0, off) + 1


def split_top_level(masked: str, text: str, sep: str = ','):
    """Split `text` at `sep` occurring at bracket depth 0 (angle brackets counted too)."""
    parts = []
    depth = 0
    last = 0
    for k, c in enumerate(masked):
        if c in '([{<':
            depth += 1
        elif c in ')]}':
            depth -= 1
        elif c == '>' and k > 0 and masked[k - 1] != '-' and masked[k - 1] != '=':
            depth -= 1
        elif c == sep and depth == 0:
            parts.append(text[last:k])
            last = k + 1
    parts.append(text[last:])
    return parts
