"""Parser/assembler for Verus unit files (`units/*.vu`).

A unit file is Verus source text with `//@` directive lines.  Text outside `//@fn … //@endfn`
is copied verbatim (spec functions, lemmas, projected type declarations).  A `//@fn` block is
replaced by the real function extracted from /repo at run time with the block's clauses and
ghost text spliced in (see extract.py).
"""
import re
from .rustlex import mask, match_close, ExtractError
from .extract import extract_fn, extract_stmts, parse_kv


def _tag(text, tag):
    out = []
    for l in text.split('\n'):
        if l.strip() and not l.rstrip().endswith('\\'):
            out.append(f"{l.rstrip()}  //@{tag}")
        else:
            out.append(l)
    return '\n'.join(out)


def parse_unit(path):
    lines = open(path).read().split('\n')
    unit = dict(id=None, properties=[], chunks=[], path=path, structs=[], allowed_assumptions=[], expect_fail=[])
    cur_fn = None
    sec = ('verbatim', None)
    buf = []
    buf_start = 1

    def flush():
        nonlocal buf
        text = '\n'.join(buf)
        kind, arg = sec
        if cur_fn is None:
            if kind == 'verbatim':
                if text.strip():
                    unit['chunks'].append(('verbatim', text, buf_start))
            elif kind == 'struct':
                unit['structs'].append(dict(args=arg, text=text))
                unit['chunks'].append(('verbatim', text, buf_start))
        else:
            f = cur_fn
            if kind in ('requires', 'ensures'):
                if text.strip():
                    f.setdefault(kind, []).append((arg, text.strip()))
            elif kind == 'sig':
                f['wrapper_sig'] = text.strip()
            elif kind == 'anchor':
                f['anchors'].append((text.strip(), arg or {}))
            elif kind == 'top':
                f['top'] = _tag(text, 'GHOST')
            elif kind == 'bottom':
                f['bottom'] = _tag(text, 'GHOST')
            elif kind == 'end':
                f['end'] = _tag(text, 'GHOST')
            elif kind == 'decreases':
                f['decreases'] = text.strip()
            elif kind == 'loop':
                n, where, kv = arg
                lp = f['loops'].setdefault(n, {})
                lp.update({k: v for k, v in kv.items() if k in ('index', 'elem', 'ty', 'native', 'chunks_of', 'optional')})
                if where == 'clauses':
                    lp['clauses'] = _tag(text, f"OBL loop {f['name']}.loop{n}")
                else:
                    lp[where] = _tag(text, 'GHOST')
            elif kind == 'subst':
                d = dict(arg)
                if 'from' not in d:
                    a, b = text.split('\n=>\n') if '\n=>\n' in text else (None, None)
                    if a is None:
                        raise ExtractError(f"{path}: //@subst block needs `=>` separator line")
                    d['from'], d['to'] = a, b
                d['kind'] = 'subst'
                f['directives'].append(d)
            elif kind == 'opaque':
                d = dict(arg)
                if 'replace' not in d:
                    d['replace'] = text
                d['kind'] = 'opaque'
                f['directives'].append(d)
            elif kind == 'insert':
                d = dict(arg)
                d['text'] = _tag(text, 'GHOST')
                d['kind'] = 'insert'
                f['directives'].append(d)
        buf = []

    for ln, l in enumerate(lines, 1):
        s = l.strip()
        if not s.startswith('//@'):
            buf.append(l)
            continue
        d = s[3:].strip()
        word = d.split()[0] if d.split() else ''
        rest = d[len(word):].strip()
        flush()
        buf_start = ln + 1
        if word == 'unit':
            unit['id'] = rest
            sec = ('verbatim', None)
        elif word == 'property':
            unit['properties'] = rest.split()
            sec = ('verbatim', None)
        elif word == 'allow':
            unit['allowed_assumptions'].append(rest)
            sec = ('verbatim', None)
        elif word == 'expect_fail':
            # obligation ids that are allowed to be listed in known_findings (documentation only)
            unit['expect_fail'] += rest.split()
            sec = ('verbatim', None)
        elif word == 'verbatim':
            sec = ('verbatim', None)
        elif word == 'struct':
            sec = ('struct', parse_kv(rest))
        elif word == 'fn':
            kv = parse_kv(rest)
            cur_fn = dict(file=kv['file'], name=kv['name'], impl=kv.get('impl'), ret=kv.get('ret'),
                          rules=[r for r in kv.get('rules', '').split(',') if r], generics=kv.get('generics'),
                          nth=int(kv['nth']) if 'nth' in kv else None,
                          dropped_fields=[x for x in kv.get('dropped_fields', '').split(',') if x],
                          loops={}, directives=[], unit_line=ln, indent=kv.get('indent', ''),
                          sig_subst=[], optional=bool(kv.get('optional')), no_termination=bool(kv.get('no_termination')), loop_isolation=kv.get('loop_isolation'))
            sec = ('none', None)
        elif word == 'const':
            # `//@const file=<path> name=<NAME>`: the repository's `const NAME: T = <expr>;` item, copied verbatim
            unit['chunks'].append(('const', parse_kv(rest), ln))
            sec = ('verbatim', None)
        elif word == 'stmts':
            kv = parse_kv(rest)
            cur_fn = dict(file=kv['file'], name=kv['name'], src_fn=kv['fn'], impl=kv.get('impl'), ret=kv.get('ret'),
                          rules=[r for r in kv.get('rules', '').split(',') if r], generics=None, nth=None,
                          dropped_fields=[], loops={}, directives=[], unit_line=ln, indent=kv.get('indent', ''),
                          sig_subst=[], optional=False, stmts=True, anchors=[], wrapper_sig=None)
            sec = ('none', None)
        elif word == 'sig':
            sec = ('sig', None)
        elif word == 'anchor':
            sec = ('anchor', parse_kv(rest) if rest.strip() else None)
        elif word == 'endfn':
            unit['chunks'].append(('fn', cur_fn, ln))
            cur_fn = None
            sec = ('verbatim', None)
        elif word in ('requires', 'ensures'):
            m = re.match(r'\[([^\]]+)\]', rest)
            sec = (word, m.group(1) if m else f"{cur_fn['name']}.{word}")
        elif word in ('top', 'bottom', 'end', 'decreases'):
            sec = (word, None)
        elif word == 'loop':
            toks = rest.split()
            n = int(toks[0])
            where = 'clauses'
            kvs = []
            for t in toks[1:]:
                if t in ('before', 'after', 'body_top', 'body_bottom'):
                    where = t
                else:
                    kvs.append(t)
            sec = ('loop', (n, where, parse_kv(' '.join(kvs))))
        elif word == 'subst':
            sec = ('subst', parse_kv(rest))
        elif word == 'sigsubst':
            kv = parse_kv(rest)
            cur_fn['sig_subst'].append((kv['from'], kv['to'], kv.get('rule', 'sigsubst')))
            sec = ('none', None)
        elif word == 'opaque':
            sec = ('opaque', parse_kv(rest))
        elif word == 'insert':
            sec = ('insert', parse_kv(rest))
        elif word == '#' or word.startswith('#'):
            sec = sec  # comment directive
        else:
            raise ExtractError(f"{path}:{ln}: unknown directive //@{word}")
    flush()
    if not unit['id']:
        raise ExtractError(f"{path}: missing //@unit")
    return unit


def validate_struct(repo, st):
    """Projection validator (R9): each projected field must exist in the real struct with the same
    type modulo the declared type map."""
    a = st['args']
    src = open(f"{repo}/{a['file']}").read()
    ms = mask(src)
    kw = a.get('kind', 'struct')
    m = re.search(r'\b' + kw + r'\s+' + re.escape(a['name']) + r'\b[^{;(]*\{', ms)
    if not m:
        raise ExtractError(f"projection: {kw} {a['name']} not found in {a['file']}")
    o = m.end() - 1
    c = match_close(ms, o)
    real = src[o + 1:c]
    rmask = ms[o + 1:c]
    tmap = []
    for pair in a.get('map', '').split(';'):
        if '=' in pair:
            x, y = pair.split('=', 1)
            tmap.append((x.strip(), y.strip()))
    log = []
    if kw == 'struct':
        # real fields
        rf = {}
        for fm in re.finditer(r'(?m)^\s*(?:pub(?:\([a-z]+\))?\s+)?(\w+)\s*:\s*([^\n]+?),?\s*$', rmask):
            name = fm.group(1)
            ty = real[fm.start(2):fm.end(2)].rstrip(',').strip()
            rf[name] = ty
        pm = re.search(r'\bstruct\s+\w+[^{]*\{', st['text'])
        body = st['text'][pm.end():st['text'].rindex('}')]
        pf = {}
        for fm in re.finditer(r'(?m)^\s*(?:pub\s+)?(\w+)\s*:\s*([^\n]+?),?\s*(?://.*)?$', body):
            pf[fm.group(1)] = fm.group(2).rstrip(',').strip()
        ghost_fields = sorted(n_ for n_, t_ in pf.items() if t_.startswith('Ghost<'))
        for n_ in ghost_fields:
            if n_ in rf:
                raise ExtractError(f"projection: ghost field {a['name']}.{n_} collides with a real field")
            del pf[n_]
        if ghost_fields:
            log.append(f"ghost fields added to {a['name']} (specification state only, erased at run time): {ghost_fields}")
        for name, ty in pf.items():
            if name not in rf:
                raise ExtractError(f"projection: field {a['name']}.{name} no longer exists in {a['file']}")
            rty = rf[name]
            for x, y in tmap:
                rty = re.sub(x, y, rty)
            if re.sub(r'\s+', '', rty) != re.sub(r'\s+', '', ty):
                raise ExtractError(f"projection: field {a['name']}.{name} has type `{rf[name]}` (mapped `{rty}`), unit declares `{ty}`")
        dropped = sorted(set(rf) - set(pf))
        log.append(f"R9 projection {a['name']}: kept {sorted(pf)}; dropped {dropped}")
    else:
        # enum: variant names must coincide exactly (order-insensitive)
        rv = set(re.findall(r'(?m)^\s*(\w+)\s*(?:[({,=]|$)', rmask))
        pm = re.search(r'\benum\s+\w+[^{]*\{', st['text'])
        pbody = st['text'][pm.end():st['text'].rindex('}')]
        pv = set(re.findall(r'(?m)^\s*(\w+)\s*(?:[({,=]|$)', mask(pbody)))
        if a.get('subset'):
            if not pv <= rv:
                raise ExtractError(f"projection: enum {a['name']} variants {sorted(pv - rv)} not in real enum")
            log.append(f"R9 enum projection {a['name']}: kept {sorted(pv)}; dropped {sorted(rv - pv)}")
        elif rv != pv:
            raise ExtractError(f"projection: enum {a['name']} variants differ: real {sorted(rv)} vs unit {sorted(pv)}")
        else:
            log.append(f"enum {a['name']}: variants identical to {a['file']}")
    return log


def assemble(repo, unit):
    """Return dict(text, origins[list per line], fns[list], log)."""
    out_lines = []
    origins = []
    fns = []
    log = []
    for st in unit['structs']:
        log += validate_struct(repo, st)
    for ch in unit['chunks']:
        if ch[0] == 'verbatim':
            _, text, start = ch
            for k, l in enumerate(text.split('\n')):
                out_lines.append(l)
                origins.append(('unit', start + k))
        elif ch[0] == 'const':
            _, kv, start = ch
            try:
                src = open(f"{repo}/{kv['file']}").read()
            except OSError as e:
                raise ExtractError(f"anchor lost: file {kv['file']}: {e}")
            m = re.search(r'(?m)^[ \t]*(?:pub(?:\([a-z]+\))?\s+)?(const\s+' + re.escape(kv['name']) + r'\s*:\s*[^=;]+=\s*[^;]+;)', mask(src))
            if not m:
                raise ExtractError(f"anchor lost: const {kv['name']} in {kv['file']}")
            item = src[m.start(1):m.end(1)]
            out_lines.append('pub ' + ' '.join(item.split()))
            origins.append(('src', kv['file'], src.count('\n', 0, m.start(1)) + 1, True))
            log.append(f"const {kv['name']} copied from {kv['file']}: `{' '.join(item.split())}`")
        else:
            _, f, ln = ch
            try:
                r = extract_stmts(repo, f) if f.get('stmts') else extract_fn(repo, f)
            except ExtractError as e:
                if f.get('optional') and 'anchor lost: fn' in str(e):
                    log.append(f"{f['name']}: optional helper not present in the tree ({e}); block skipped")
                    continue
                raise
            first = len(out_lines) + 1
            ind = f.get('indent') or ''
            for k, l in enumerate(r['text'].rstrip('\n').split('\n')):
                out_lines.append(ind + l if l else l)
                origins.append(('src', r['file'], r['linemap'][k], r['exact'][k]))
            key = f['name']
            if any(x['key'] == key for x in fns):
                key = f"{f.get('impl') or f['file']}::{f['name']}"
            fns.append(dict(name=f['name'], key=key, impl=f.get('impl'), file=r['file'], src_line=r['src_line'],
                            first=first, last=len(out_lines), body_sha=r['body_sha'], log=r['log'],
                            ensures=[oid for oid, _ in f.get('ensures', [])],
                            requires=[oid for oid, _ in f.get('requires', [])],
                            loops=sorted(n for n, lp in f['loops'].items() if lp.get('clauses', '').strip())))
            # loop obligation tags carry the fn name; requalify them on collision
            if key != f['name']:
                for k2 in range(first - 1, len(out_lines)):
                    out_lines[k2] = out_lines[k2].replace(f"//@OBL loop {f['name']}.loop", f"//@OBL loop {key}.loop")
            log += [f"{f['name']}: {x}" for x in r['log']]
    return dict(text='\n'.join(out_lines) + '\n', origins=origins, fns=fns, log=log)
