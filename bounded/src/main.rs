//! BOUNDED native contract checks (DESIGN.md engine B).  Usage:
//!   bounded list
//!   bounded run <set> [--tier quick|thorough] [--seed N]
//!   bounded replay <set> <obligation> '<case-json>'      exit 1 = obligation fails on the real code
mod fw;
mod sets;

use fw::Tier;

fn main() {
    std::panic::set_hook(Box::new(|_| {}));
    let args: Vec<String> = std::env::args().collect();
    let cmd = args.get(1).map(String::as_str).unwrap_or("list");
    match cmd {
        "list" => { for (n, _, _) in sets::all() { println!("{n}"); } },
        "run" => {
            let set = &args[2];
            let mut tier = Tier::Quick;
            let mut seed = 0u64;
            let mut i = 3;
            while i < args.len() {
                match args[i].as_str() {
                    "--tier" => { tier = if args[i + 1] == "thorough" { Tier::Thorough } else { Tier::Quick }; i += 2; },
                    "--seed" => { seed = args[i + 1].parse().unwrap_or(0); i += 2; },
                    _ => i += 1,
                }
            }
            let Some((_, run, _)) = sets::all().into_iter().find(|(n, _, _)| n == set) else {
                eprintln!("unknown set {set}"); std::process::exit(2);
            };
            let rep = run(tier, seed);
            println!("{}", rep.to_json());
        },
        "replay" => {
            let set = &args[2];
            let ob = &args[3];
            let case: serde_json::Value = serde_json::from_str(&args[4]).expect("case json");
            let Some((_, _, replay)) = sets::all().into_iter().find(|(n, _, _)| n == set) else {
                eprintln!("unknown set {set}"); std::process::exit(2);
            };
            match replay(ob, &case) {
                Ok(msg) => { println!("HOLDS: {msg}"); },
                Err(msg) => { println!("FAILS: {msg}"); std::process::exit(1); },
            }
        },
        _ => { eprintln!("usage: bounded list|run|replay"); std::process::exit(2); },
    }
}
