//! BOUNDED native contract checks (DESIGN.md engine B).  Usage:
//!   bounded list
//!   bounded run <set> [--tier quick|thorough] [--seed N]
//!   bounded replay <set> <obligation> '<case-json>'      exit 1 = obligation fails on the real code
mod fw;
mod sets;

use fw::Tier;

static LAST_PANIC: std::sync::Mutex<String> = std::sync::Mutex::new(String::new());

fn main() {
    // panics inside `no_panic` closures are expected and silent; the last one is remembered so that a
    // panic escaping a set (a harness-level `unwrap` that stopped holding) can be explained
    std::panic::set_hook(Box::new(|info| {
        let loc = info.location().map(|l| format!("{}:{}", l.file(), l.line())).unwrap_or_default();
        let msg = info.payload().downcast_ref::<&str>().map(|s| (*s).to_string())
            .or_else(|| info.payload().downcast_ref::<String>().cloned()).unwrap_or_default();
        if let Ok(mut g) = LAST_PANIC.lock() { *g = format!("{msg} at {loc}"); }
    }));
    let args: Vec<String> = std::env::args().collect();
    let cmd = args.get(1).map(String::as_str).unwrap_or("list");
    match cmd {
        "list" => { for (n, _, _) in sets::all() { println!("{n}"); } },
        "run" => {
            let set = &args[2];
            let mut tier = Tier::Quick;
            let mut seed = 0u64;
            let mut i = 3;
            while i < args.len() {
                match args[i].as_str() {
                    "--tier" => { tier = if args[i + 1] == "thorough" { Tier::Thorough } else { Tier::Quick }; i += 2; },
                    "--seed" => { seed = args[i + 1].parse().unwrap_or(0); i += 2; },
                    _ => i += 1,
                }
            }
            let Some((_, run, _)) = sets::all().into_iter().find(|(n, _, _)| n == set) else {
                eprintln!("unknown set {set}"); std::process::exit(2);
            };
            match std::panic::catch_unwind(|| run(tier, seed)) {
                Ok(rep) => println!("{}", rep.to_json()),
                Err(_) => {
                    let why = LAST_PANIC.lock().map(|g| g.clone()).unwrap_or_default();
                    eprintln!("SET-PANIC set={set}: {why}");
                    std::process::exit(101);
                },
            }
        },
        "replay" => {
            let set = &args[2];
            let ob = &args[3];
            let case: serde_json::Value = serde_json::from_str(&args[4]).expect("case json");
            let Some((_, _, replay)) = sets::all().into_iter().find(|(n, _, _)| n == set) else {
                eprintln!("unknown set {set}"); std::process::exit(2);
            };
            match std::panic::catch_unwind(|| replay(ob, &case)) {
                Ok(Ok(msg)) => { println!("HOLDS: {msg}"); },
                Ok(Err(msg)) => { println!("FAILS: {msg}"); std::process::exit(1); },
                Err(_) => {
                    let why = LAST_PANIC.lock().map(|g| g.clone()).unwrap_or_default();
                    eprintln!("PANIC: {why}");
                    std::process::exit(101);
                },
            }
        },
        _ => { eprintln!("usage: bounded list|run|replay"); std::process::exit(2); },
    }
}
