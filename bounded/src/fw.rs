//! Tiny framework for bounded contract checks: an obligation is evaluated on one enumerated case at
//! a time against the real function; failures keep the case (JSON) so it can be replayed.
use serde_json::{json, Value};
use std::collections::BTreeMap;

#[derive(Clone, Copy, PartialEq, Eq, Debug)]
pub enum Tier { Quick, Thorough }

#[derive(Default)]
pub struct Ob { pub cases: u64, pub failures: Vec<(Value, String)>, pub function: String, pub dropped: u64, pub classes: BTreeMap<String, u32> }

pub struct Report {
    pub set: String,
    pub domain: String,
    pub exhaustive: bool,
    pub functions: Vec<String>,
    pub obligations: BTreeMap<String, Ob>,
    pub evaluations: u64,
    pub nontrivial: u64,
    pub samples: Vec<Value>,
}

impl Report {
    pub fn new(set: &str, domain: &str, exhaustive: bool, functions: &[&str]) -> Self {
        Self { set: set.into(), domain: domain.into(), exhaustive, functions: functions.iter().map(|s| (*s).to_string()).collect(),
               obligations: BTreeMap::new(), evaluations: 0, nontrivial: 0, samples: vec![] }
    }
    /// declare an obligation so that "0 cases" is detectable (vacuity guard)
    pub fn declare(&mut self, oid: &str, function: &str) {
        self.obligations.entry(oid.into()).or_default().function = function.into();
    }
    /// one real-code execution counted
    pub fn eval(&mut self, nontrivial: bool) {
        self.evaluations += 1;
        if nontrivial { self.nontrivial += 1; }
    }
    pub fn sample(&mut self, v: Value) { if self.samples.len() < 6 { self.samples.push(v); } }
    pub fn check(&mut self, oid: &str, ok: bool, case: &dyn Fn() -> Value, detail: &dyn Fn() -> String) {
        let o = self.obligations.entry(oid.into()).or_default();
        o.cases += 1;
        // keep the first 300 failing cases per obligation, and beyond that up to 25 per CLASS of case (the case's field names
        // and string-valued fields, e.g. its "kind" / "op"), so that a new failure class is never hidden behind a listed one
        if !ok {
            let c = case();
            let class = match &c { Value::Object(m) => m.iter().map(|(k, v)| match v { Value::String(x) if x.len() <= 24 => format!("{k}={x};"), _ => format!("{k};") }).collect::<String>(), _ => String::new() };
            let n = o.classes.entry(class).or_insert(0);
            *n += 1;
            if o.failures.len() < 300 || (*n <= 25 && o.failures.len() < 3000) { o.failures.push((c, detail())); } else { o.dropped += 1; }
        }
    }
    pub fn to_json(&self) -> Value {
        let mut obs = serde_json::Map::new();
        for (k, o) in &self.obligations {
            obs.insert(k.clone(), json!({
                "cases": o.cases, "function": o.function,
                "failures": o.failures.iter().map(|(c, d)| json!({"case": c, "detail": d})).collect::<Vec<_>>(),
                "failure_count": o.failures.len() as u64 + o.dropped,
            }));
        }
        json!({"set": self.set, "domain": self.domain, "exhaustive": self.exhaustive, "functions": self.functions,
               "evaluations": self.evaluations, "nontrivial": self.nontrivial, "samples": self.samples, "obligations": obs})
    }
}

/// Run `f`, turning a panic into Err(message) (used for "never panics" obligations).
pub fn no_panic<T>(f: impl FnOnce() -> T + std::panic::UnwindSafe) -> Result<T, String> {
    std::panic::catch_unwind(f).map_err(|e| {
        if let Some(s) = e.downcast_ref::<&str>() { (*s).to_string() }
        else if let Some(s) = e.downcast_ref::<String>() { s.clone() }
        else { "panic".to_string() }
    })
}

/// Deterministic splitmix64 for seeded sampling beyond the exhaustive core.
pub struct Rng(pub u64);
impl Rng {
    pub fn next(&mut self) -> u64 {
        self.0 = self.0.wrapping_add(0x9E37_79B9_7F4A_7C15);
        let mut z = self.0;
        z = (z ^ (z >> 30)).wrapping_mul(0xBF58_476D_1CE4_E5B9);
        z = (z ^ (z >> 27)).wrapping_mul(0x94D0_49BB_1331_11EB);
        z ^ (z >> 31)
    }
    pub fn below(&mut self, n: u64) -> u64 { if n == 0 { 0 } else { self.next() % n } }
}

pub fn tmpdir(tag: &str) -> std::path::PathBuf {
    let base = std::env::var("NEUMANN_VERIF_CACHE").unwrap_or_else(|_| "/var/tmp/neumann-verif".into());
    let p = std::path::PathBuf::from(base).join("run").join(format!("{}-{}", tag, std::process::id()));
    let _ = std::fs::remove_dir_all(&p);
    std::fs::create_dir_all(&p).unwrap();
    p
}
