//! Tiny framework for bounded contract checks: an obligation is evaluated on one enumerated case at
//! a time against the real function; failures keep the case (JSON) so it can be replayed.
use serde_json::{json, Value};
use std::collections::BTreeMap;

#[derive(Clone, Copy, PartialEq, Eq, Debug)]
pub enum Tier { Quick, Thorough }

#[derive(Default)]
pub struct Ob { pub cases: u64, pub failures: Vec<(Value, String)>, pub function: String }

pub struct Report {
    pub set: String,
    pub domain: String,
    pub exhaustive: bool,
    pub functions: Vec<String>,
    pub obligations: BTreeMap<String, Ob>,
    pub evaluations: u64,
    pub nontrivial: u64,
    pub samples: Vec<Value>,
}

impl Report {
    pub fn new(set: &str, domain: &str, exhaustive: bool, functions: &[&str]) -> Self {
        Self { set: set.into(), domain: domain.into(), exhaustive, functions: functions.iter().map(|s| (*s).to_string()).collect(),
               obligations: BTreeMap::new(), evaluations: 0, nontrivial: 0, samples: vec![] }
    }
    /// declare an obligation so that "0 cases" is detectable (vacuity guard)
    pub fn declare(&mut self, oid: &str, function: &str) {
        self.obligations.entry(oid.into()).or_default().function = function.into();
    }
    /// one real-code execution counted
    pub fn eval(&mut self, nontrivial: bool) {
        self.evaluations += 1;
        if nontrivial { self.nontrivial += 1; }
    }
    pub fn sample(&mut self, v: Value) { if self.samples.len() < 6 { self.samples.push(v); } }
    pub fn check(&mut self, oid: &str, ok: bool, case: &dyn Fn() -> Value, detail: &dyn Fn() -> String) {
        let o = self.obligations.entry(oid.into()).or_default();
        o.cases += 1;
        // keep up to 300 failing cases per obligation so that a NEW failure class is not hidden behind a listed one
        if !ok && o.failures.len() < 300 { o.failures.push((case(), detail())); }
        else if !ok { o.failures.push((Value::Null, String::new())); o.failures.truncate(301); }
    }
    pub fn to_json(&self) -> Value {
        let mut obs = serde_json::Map::new();
        for (k, o) in &self.obligations {
            obs.insert(k.clone(), json!({
                "cases": o.cases, "function": o.function,
                "failures": o.failures.iter().filter(|(c, _)| !c.is_null()).map(|(c, d)| json!({"case": c, "detail": d})).collect::<Vec<_>>(),
                "failure_count": o.failures.len(),
            }));
        }
        json!({"set": self.set, "domain": self.domain, "exhaustive": self.exhaustive, "functions": self.functions,
               "evaluations": self.evaluations, "nontrivial": self.nontrivial, "samples": self.samples, "obligations": obs})
    }
}

/// Run `f`, turning a panic into Err(message) (used for "never panics" obligations).
pub fn no_panic<T>(f: impl FnOnce() -> T + std::panic::UnwindSafe) -> Result<T, String> {
    std::panic::catch_unwind(f).map_err(|e| {
        if let Some(s) = e.downcast_ref::<&str>() { (*s).to_string() }
        else if let Some(s) = e.downcast_ref::<String>() { s.clone() }
        else { "panic".to_string() }
    })
}

/// Deterministic splitmix64 for seeded sampling beyond the exhaustive core.
pub struct Rng(pub u64);
impl Rng {
    pub fn next(&mut self) -> u64 {
        self.0 = self.0.wrapping_add(0x9E37_79B9_7F4A_7C15);
        let mut z = self.0;
        z = (z ^ (z >> 30)).wrapping_mul(0xBF58_476D_1CE4_E5B9);
        z = (z ^ (z >> 27)).wrapping_mul(0x94D0_49BB_1331_11EB);
        z ^ (z >> 31)
    }
    pub fn below(&mut self, n: u64) -> u64 { if n == 0 { 0 } else { self.next() % n } }
}

pub fn tmpdir(tag: &str) -> std::path::PathBuf {
    let base = std::env::var("NEUMANN_VERIF_CACHE").unwrap_or_else(|_| "/var/tmp/neumann-verif".into());
    let p = std::path::PathBuf::from(base).join("run").join(format!("{}-{}", tag, std::process::id()));
    let _ = std::fs::remove_dir_all(&p);
    std::fs::create_dir_all(&p).unwrap();
    p
}
