//! C18 (bounded): path queries return real, optimal paths; traversals / variable-length matches
//! return exactly the nodes / simple paths within the hop bounds; SCC, MST, k-core, triangle,
//! biconnectivity and A* agree with their textbook definitions computed by brute force here.
//!
//! Every real call is compared with a specification computed in this file on the plain edge list
//! (no code shared with the engine).  Nodes are numbered 0..n in the case JSON (engine id = the id
//! returned by `create_node`, in creation order); an endpoint equal to `n` denotes a node id that
//! does not exist.  Edge = [from, to, directed(0/1), type(0="A",1="B"), w, w2, wn]:
//!   edge_type and string property "t" = "A"/"B", Float property "w" (non-negative, dyadic),
//!   Int property "w2" (non-negative), Float property "wn" (may be negative).
//!
//! Semantics used (from the doc comments of the functions + the property text):
//!  * direction Outgoing: a directed edge is walked from -> to only, an undirected one both ways;
//!    Incoming: the reverse; Both: every edge both ways.  find_path / find_weighted_path /
//!    find_all_paths are Outgoing.
//!  * edge filter / edge type: every edge of a result satisfies it; node filter: every
//!    *intermediate* node satisfies it.  Whether the two endpoints must satisfy the node filter is
//!    not stated anywhere, so optimality / exact-set clauses are only evaluated when both
//!    endpoints satisfy the node filter (all readings agree there).
//!  * traverse with a node filter: the text does not say whether a non-matching node blocks the
//!    traversal or is only hidden from the output; the clause is evaluated only when both
//!    readings give the same node set.
//!  * find_all_paths = all SHORTEST paths (doc comment); find_variable_paths with
//!    allow_cycles=false = all simple paths (no repeated node) with min <= hops <= max, paths that
//!    differ only in a parallel edge are different paths.
//!  * find_variable_paths with allow_cycles=true (C18.varpaths.cycles): the property text says "Variable-length matches
//!    return exactly the simple (or, when cycles are allowed, all) paths within the requested hop bounds"; the engine's
//!    doc comment only says "Whether to allow cycles in paths".  "All paths" is checked as ALL WALKS: every sequence of
//!    legal steps from the source that ends at the target after min <= hops <= max steps; nodes AND edges may repeat, the
//!    walk may run through the source and through the target any number of times (a walk that reaches the target early,
//!    leaves it and comes back within the bounds is a different path and must be returned too), a self-loop is one step
//!    u -> u, parallel edges give different paths.  No narrower reading ("edges may not repeat", "stop at the first
//!    arrival at the target") is stated anywhere, and the text opposes "simple" to "all".  Node filter: as for the simple
//!    case, every node entered other than the target must satisfy it.  The clause compares the SET of distinct returned
//!    (node sequence, edge sequence) pairs with the brute-force set, and requires truncated == false, paths_found == number
//!    of returned paths, min/max_length == shortest/longest walk.  The domain keeps every specification set below the
//!    default max_paths limit (1000); a query whose brute-force set reaches it is skipped (walks over directed self-loops
//!    under Direction::Both are counted once per orientation for this purpose only); no query of the quick tier is skipped.
//!  * C18.varpaths.cycles.unique: the same calls, "no path is returned twice" (returned list has no duplicate and
//!    paths_found == number of distinct paths).  Kept as a separate clause because it is the only part of the walk
//!    semantics with two defensible readings: under Direction::Both a DIRECTED self-loop u -> u can be stepped "along" and
//!    "against" its direction, both steps are u -> u over the same edge.  The result type (`Path { nodes, edges }`) cannot
//!    tell the two apart, so they are the same path of the property text and the clause demands it once (the engine itself
//!    removes the corresponding duplicate for undirected edges).
//!  * filtered find_path (C18.path.valid / .optimal): besides the positional types, the edge filter t == "B" is used so that
//!    the first created edge is a rejected one, and `family_filtered` enumerates the edge types explicitly: a node that is
//!    first seen through a rejected edge (or through a node-filter-rejected neighbour) must still be reachable through a
//!    later accepted edge, and the answer must be a fewest-hop qualifying path (PathNotFound only if there is none).
//!  * k-core / triangles(undirected) / biconnectivity are defined on the underlying simple
//!    undirected graph (direction dropped, parallel edges merged, self-loops dropped), MST on the
//!    underlying undirected multigraph, SCC on the Outgoing step relation.
//!
//! Domain: see `run` (quick: every ordered edge sequence of <= 3 edges and every 4-edge multiset on <= 3 nodes, all
//! (start,end) pairs, + whole-graph algorithms on 4 nodes; thorough: 4 nodes / 4 edges + seeded random graphs to 10 nodes;
//! both tiers: `family_filtered` (typed edges, filtered find_path), `family_cycles` (4-node graphs with cycles through the target),
//! `family_improve` (find_all_weighted_paths on 4-node graphs with explicit weights 0/1/2: heavy direct edges next to lighter routes, ties,
//! parallel edges) and `family_patterns` (variable-length patterns on 3-, 4- and 5-node graphs); find_all_weighted_paths also runs on every
//! graph of the exhaustive enumerations).
//! The exhaustive enumerations walk ONE engine per node count depth-first (create_edge to extend, delete_edge to
//! backtrack; TensorStore::new costs ~1 ms, so a fresh engine per graph would not fit the time budget); the engine's
//! current graph is always exactly the case graph, and every failure is re-evaluated on freshly built engines before it is
//! recorded, so that `replay` (which builds the graph from scratch) reproduces it.
//! Larger graphs (6..=24 nodes, both tiers; `family_components`): C18.components.partition compares `connected_components`
//! (no config, and restricted to edge type A / B) -- the member sets as a set of sets, community_count and the per-node
//! community id map -- and the member sets / count / per-node map of `strongly_connected_components` with a DFS partition
//! resp. the mutual-reachability classes computed here on the edge list; C18.mst.forest compares `minimum_spanning_tree`
//! and `minimum_spanning_forest` with the true components and with the weight of a minimum spanning forest computed by
//! Prim's algorithm here (no union-find on the specification side).  Graphs: "merge order" forests (small trees of
//! different union-find rank / size -- single node, pair, paths, stars, balanced pair-of-pairs, balanced 8 -- joined by one
//! edge for EVERY choice of the two endpoints and both orientations of the joining edge; four small trees joined pairwise
//! and the two results joined again the same way; edge weights w increasing / w2 decreasing / wn shuffled in creation order
//! so that a Kruskal-style implementation meets the merges in creation order, in reverse and in a mixed order) plus seeded
//! random multigraphs (self-loops, parallel edges, directed and undirected edges mixed, isolated nodes).
//! find_all_weighted_paths (C18.weighted.all_optimal; Outgoing steps like find_weighted_path): "Returns all paths with the minimum
//! total weight between two nodes".  Checked as: total_weight == the Bellman-Ford distance computed here; every returned path is a
//! legal walk start -> end whose edge weights sum to its own total_weight and to the minimum; the set of DISTINCT returned
//! (node sequence, edge sequence) pairs equals the set of ALL minimum-weight walks, enumerated exhaustively here (every walk from the
//! start whose running weight stays <= the minimum, up to 2n hops) -- paths that differ only in a parallel edge are different paths;
//! PathNotFound iff the end is unreachable; NodeNotFound for a missing endpoint.  Graphs with a negative weight are left to
//! C18.weighted.negative.  Precondition: no minimum-weight walk visits a node twice, i.e. no closed walk of total weight 0 (a
//! zero-weight self-loop, a zero-weight undirected edge walked back and forth, a zero-weight cycle) lies on a minimum-weight walk.
//! Otherwise the set of minimum-weight walks is infinite, "all" has no finite meaning under the walk reading, and the call is NOT
//! made: on such an input (e.g. 0 -> 1 -> 2 with weights 1 and a zero-weight self-loop on node 1, query 0 -> 2)
//! find_all_weighted_paths does not return and allocates without bound (observed once under a memory limit: aborted at 4 GB after
//! 2.5 s); this is outside the property text (nothing is returned) and is reported, not asserted.
//! "No path is returned twice" is part of the clause on graphs whose non-loop edges are all directed; on graphs with an undirected
//! non-loop edge it is the separate clause C18.weighted.all_optimal.unique (as for C18.varpaths.cycles.unique: a returned list that
//! repeats a path is not the set of all minimum paths).
//! Variable-length patterns (C18.pattern.variable): `match_pattern` on (a)-[p *min..max]-(b) with node variables a, b and the path
//! variable p.  Semantics from the code comments of `extend_variable_length_match` ("Skip visited nodes to prevent cycles", the start
//! node is visited from the beginning): one match per SIMPLE path (no node repeats, so no edge repeats either; self-loops never
//! match; a path may not return to its start) with min <= hops <= max whose start satisfies the first node pattern and whose end
//! satisfies the last one; min = 0 additionally matches the empty path on a start node that satisfies the end pattern; paths that
//! differ only in a parallel edge are different matches (as for find_variable_paths).  The clause compares the MULTISET of
//! (a, b, path nodes, path edges) with the brute-force enumeration, requires a / b to be the two ends of p, matches_found == number
//! of matches, truncated == false (all specification sets stay below default_match_limit = 1000), count_pattern_matches == the
//! number of matches, pattern_exists == (the number is > 0).  Node patterns: unconstrained (candidates by scan), label "N" (label
//! index), idx == i (property lookup); edge pattern: direction, optional edge type.
//! Incoming / Both on graphs in which two non-loop edges join the same two nodes (parallel or antiparallel, directed or undirected)
//! are the separate clause C18.pattern.variable.directions: the neighbour list of a step keeps ONE edge per neighbour reached over an
//! incoming edge, so such paths are lost; Outgoing returns them.  All other Incoming / Both queries belong to C18.pattern.variable.
//! Negative weights: only the unambiguous part of "negative weight => error" is asserted (C18.weighted.negative): an Ok
//! answer never contains a negative edge, a NegativeWeight error names a real negative edge, and when every start->end
//! walk needs a negative edge the call fails with NegativeWeight.
use crate::fw::{Report, Rng, Tier};
use graph_engine::{
    AStarConfig, BiconnectedConfig, CommunityConfig, Direction, EdgePattern, GraphEngine, GraphError, KCoreConfig, MstConfig, NodePattern, PathPattern,
    Pattern, PropertyValue, SccConfig, TraversalFilter, TriangleConfig, VariableLengthConfig,
};
use serde_json::{json, Value};
use std::collections::HashMap;

// ---------------------------------------------------------------- model of a case

#[derive(Clone, Debug)]
struct E { f: usize, t: usize, d: bool, ty: u8, w: f64, w2: i64, wn: f64 }

#[derive(Clone, Debug)]
struct G { n: usize, es: Vec<E> }

#[derive(Clone, Copy, PartialEq, Eq, Debug)]
enum Dir { Out, In, Both }

#[derive(Clone, Copy, PartialEq, Eq, Debug)]
enum K { Path, Weighted, AllPaths, Var, Trav, Astar, Scc, Mst, Kcore, Tri, Bicon, Comp, SccPart, MstForest, AllWeighted, Pattern }

/// One query.  `s`/`t` = endpoints (index n = missing node), `min`/`max` hop bounds (`max` = depth for
/// traverse), `ty` = edge-type restriction, `et` = edge property filter t == "A"/"B",
/// `excl` = bitmask of nodes excluded by the node filter (idx != i for every excluded i),
/// `prop` = weight property 0 "w", 1 "w2", 2 "wn", 3 "nope" (absent => default 1.0), `und` = undirected flag,
/// `any` (pattern queries only) = bit 0: the start node pattern is unconstrained, bit 1: the end node pattern is unconstrained,
/// bit 2: an unconstrained start pattern carries the label "N" (candidates through the label index instead of a scan),
/// bit 3: only match_pattern is called (otherwise also count_pattern_matches and pattern_exists).
#[derive(Clone, Copy, Debug)]
struct Q { k: K, s: usize, t: usize, min: usize, max: usize, dir: Dir, ty: Option<u8>, et: Option<u8>, excl: u8, prop: u8, und: bool, cyc: bool, any: u8 }

const Q0: Q = Q { k: K::Scc, s: 0, t: 0, min: 0, max: 0, dir: Dir::Out, ty: None, et: None, excl: 0, prop: 0, und: false, cyc: false, any: 0 };
/// `VariableLengthConfig::max_paths` default: the exact-set clauses are only evaluated when the specification has fewer paths
const MAX_PATHS: usize = 1000;
const PROPS: [&str; 4] = ["w", "w2", "wn", "nope"];
const TYPES: [&str; 2] = ["A", "B"];
const MISSING_ID: u64 = 987_654;

// attributes by position (exhaustive part)
const POS_TY: [u8; 4] = [0, 1, 0, 1];
const POS_W: [f64; 4] = [0.0, 1.0, 2.5, 4.0];
const POS_W2: [i64; 4] = [1, 1, 0, 3];
const POS_WN: [f64; 4] = [-1.0, 1.0, 0.0, 2.5];

fn weight(e: &E, prop: u8) -> f64 {
    match prop { 0 => e.w, 1 => e.w2 as f64, 2 => e.wn, _ => 1.0 }
}

fn k_name(k: K) -> &'static str {
    match k { K::Path => "path", K::Weighted => "weighted", K::AllPaths => "all_paths", K::Var => "variable", K::Trav => "traverse",
              K::Astar => "astar", K::Scc => "scc", K::Mst => "mst", K::Kcore => "kcore", K::Tri => "triangles", K::Bicon => "biconnected",
              K::Comp => "components", K::SccPart => "scc_partition", K::MstForest => "mst_forest", K::AllWeighted => "all_weighted", K::Pattern => "pattern" }
}
fn dir_name(d: Dir) -> &'static str { match d { Dir::Out => "out", Dir::In => "in", Dir::Both => "both" } }

fn case_json(g: &G, q: &Q) -> Value {
    let es: Vec<Value> = g.es.iter().map(|e| json!([e.f, e.t, u8::from(e.d), e.ty, e.w, e.w2, e.wn])).collect();
    let mut c = json!({"n": g.n, "edges": es, "q": {"k": k_name(q.k), "s": q.s, "t": q.t, "min": q.min, "max": q.max, "dir": dir_name(q.dir),
           "ty": q.ty, "et": q.et, "excl": q.excl, "prop": PROPS[q.prop as usize], "und": q.und}});
    // "cyc" (allow_cycles) is only written when set, so that the case format of the older obligations is unchanged
    if q.cyc { c["q"]["cyc"] = json!(true); }
    if q.any != 0 { c["q"]["any"] = json!(q.any); }
    c
}

fn parse_case(c: &Value) -> Result<(G, Q), String> {
    let n = c["n"].as_u64().ok_or("n")? as usize;
    let mut es = vec![];
    for e in c["edges"].as_array().ok_or("edges")? {
        let a = e.as_array().ok_or("edge")?;
        if a.len() < 3 { return Err("edge needs [from,to,directed,...]".into()); }
        let k = es.len() % 4;
        let num = |i: usize| a.get(i).and_then(Value::as_f64);
        es.push(E { f: a[0].as_u64().ok_or("from")? as usize, t: a[1].as_u64().ok_or("to")? as usize,
                    d: a[2].as_u64().map_or_else(|| a[2].as_bool().unwrap_or(true), |x| x != 0),
                    ty: a.get(3).and_then(Value::as_u64).map_or(POS_TY[k], |x| x as u8),
                    w: num(4).unwrap_or(POS_W[k]), w2: a.get(5).and_then(Value::as_i64).unwrap_or(POS_W2[k]), wn: num(6).unwrap_or(POS_WN[k]) });
    }
    for e in &es { if e.f >= n || e.t >= n { return Err("edge endpoint out of range".into()); } }
    let q = &c["q"];
    let k = match q["k"].as_str().ok_or("q.k")? {
        "path" => K::Path, "weighted" => K::Weighted, "all_paths" => K::AllPaths, "variable" => K::Var, "traverse" => K::Trav,
        "astar" => K::Astar, "scc" => K::Scc, "mst" => K::Mst, "kcore" => K::Kcore, "triangles" => K::Tri, "biconnected" => K::Bicon,
        "components" => K::Comp, "scc_partition" => K::SccPart, "mst_forest" => K::MstForest, "all_weighted" => K::AllWeighted, "pattern" => K::Pattern,
        o => return Err(format!("unknown query kind {o}")),
    };
    let us = |f: &str| q[f].as_u64().unwrap_or(0) as usize;
    let o8 = |f: &str| q[f].as_u64().map(|x| x as u8);
    let dir = match q["dir"].as_str().unwrap_or("out") { "in" => Dir::In, "both" => Dir::Both, _ => Dir::Out };
    let prop = PROPS.iter().position(|p| Some(*p) == q["prop"].as_str()).unwrap_or(0) as u8;
    Ok((G { n, es }, Q { k, s: us("s"), t: us("t"), min: us("min"), max: us("max"), dir, ty: o8("ty"), et: o8("et"),
                         excl: us("excl") as u8, prop, und: q["und"].as_bool().unwrap_or(false), cyc: q["cyc"].as_bool().unwrap_or(false), any: us("any") as u8 }))
}

// ---------------------------------------------------------------- the real graph

struct Built { e: GraphEngine, nid: Vec<u64>, eid: Vec<u64> }

fn build(g: &G) -> Built {
    let e = GraphEngine::new();
    let mut nid = vec![];
    for i in 0..g.n {
        let mut p = HashMap::new();
        p.insert("idx".to_string(), PropertyValue::Int(i as i64));
        nid.push(e.create_node("N", p).expect("create_node"));
    }
    let mut eid = vec![];
    for ed in &g.es {
        let mut p = HashMap::new();
        p.insert("w".to_string(), PropertyValue::Float(ed.w));
        p.insert("w2".to_string(), PropertyValue::Int(ed.w2));
        p.insert("wn".to_string(), PropertyValue::Float(ed.wn));
        p.insert("t".to_string(), PropertyValue::String(TYPES[ed.ty as usize].to_string()));
        eid.push(e.create_edge(nid[ed.f], nid[ed.t], TYPES[ed.ty as usize], p, ed.d).expect("create_edge"));
    }
    Built { e, nid, eid }
}

impl Built {
    fn id(&self, i: usize) -> u64 { self.nid.get(i).copied().unwrap_or(MISSING_ID) }
    fn nidx(&self, id: u64) -> Option<usize> { self.nid.iter().position(|x| *x == id) }
    fn eidx(&self, id: u64) -> Option<usize> { self.eid.iter().position(|x| *x == id) }
    fn nodes(&self, ids: &[u64]) -> Result<Vec<usize>, String> {
        ids.iter().map(|i| self.nidx(*i).ok_or_else(|| format!("node id {i} is not in the graph"))).collect()
    }
    fn edges(&self, ids: &[u64]) -> Result<Vec<usize>, String> {
        ids.iter().map(|i| self.eidx(*i).ok_or_else(|| format!("edge id {i} is not in the graph"))).collect()
    }
}

fn direction(d: Dir) -> Direction { match d { Dir::Out => Direction::Outgoing, Dir::In => Direction::Incoming, Dir::Both => Direction::Both } }

fn mk_filter(g: &G, et: Option<u8>, excl: u8) -> Option<TraversalFilter> {
    if et.is_none() && excl == 0 { return None; }
    let mut f = TraversalFilter::new();
    if let Some(t) = et { f = f.edge_eq("t", PropertyValue::String(TYPES[t as usize].to_string())); }
    for i in 0..g.n.min(8) { if excl >> i & 1 == 1 { f = f.node_ne("idx", PropertyValue::Int(i as i64)); } }
    Some(f)
}

// ---------------------------------------------------------------- specification (brute force on the edge list)

#[derive(Clone, Copy, Default)]
struct EF { ty: Option<u8>, et: Option<u8> }
impl EF { fn ok(&self, e: &E) -> bool { self.ty.map_or(true, |x| e.ty == x) && self.et.map_or(true, |x| e.ty == x) } }

/// all one-hop moves (neighbour, edge index) available at `u`
fn steps(g: &G, u: usize, dir: Dir, ef: &EF) -> Vec<(usize, usize)> {
    let mut out = vec![];
    for (k, e) in g.es.iter().enumerate() {
        if !ef.ok(e) { continue; }
        if e.f == e.t { if e.f == u { out.push((u, k)); } continue; }
        let (along, against) = match dir { Dir::Out => (true, !e.d), Dir::In => (!e.d, true), Dir::Both => (true, true) };
        if e.f == u && along { out.push((e.t, k)); }
        if e.t == u && against { out.push((e.f, k)); }
    }
    out
}

fn excluded(excl: u8, v: usize) -> bool { v < 8 && excl >> v & 1 == 1 }

/// hop distances from s; a node may be entered iff it is not excluded or it is the exempt target
fn spec_bfs(g: &G, s: usize, dir: Dir, ef: &EF, excl: u8, exempt: Option<usize>) -> Vec<Option<usize>> {
    let mut dist = vec![None; g.n];
    dist[s] = Some(0);
    let mut frontier = vec![s];
    let mut d = 0;
    while !frontier.is_empty() {
        d += 1;
        let mut next = vec![];
        for u in frontier {
            for (v, _) in steps(g, u, dir, ef) {
                if dist[v].is_none() && (!excluded(excl, v) || exempt == Some(v)) { dist[v] = Some(d); next.push(v); }
            }
        }
        frontier = next;
    }
    dist
}

/// Bellman-Ford (weights must be non-negative here; exact for the dyadic weights used)
fn spec_bellman(g: &G, s: usize, dir: Dir, ef: &EF, prop: u8) -> Vec<Option<f64>> {
    let mut dist: Vec<Option<f64>> = vec![None; g.n];
    dist[s] = Some(0.0);
    for _ in 0..=g.n {
        for u in 0..g.n {
            let Some(du) = dist[u] else { continue };
            for (v, k) in steps(g, u, dir, ef) {
                let c = du + weight(&g.es[k], prop);
                if dist[v].map_or(true, |x| c < x) { dist[v] = Some(c); }
            }
        }
    }
    dist
}

type P = (Vec<usize>, Vec<usize>);

/// all simple paths s -> t with min <= hops <= max
#[allow(clippy::too_many_arguments)]
fn spec_simple_paths(g: &G, s: usize, t: usize, min: usize, max: usize, dir: Dir, ef: &EF, excl: u8) -> Vec<P> {
    fn rec(g: &G, u: usize, t: usize, min: usize, max: usize, dir: Dir, ef: &EF, excl: u8, ns: &mut Vec<usize>, es: &mut Vec<usize>, out: &mut Vec<P>) {
        if u == t { if es.len() >= min && es.len() <= max { out.push((ns.clone(), es.clone())); } return; }
        if es.len() >= max { return; }
        for (v, k) in steps(g, u, dir, ef) {
            if ns.contains(&v) || (v != t && excluded(excl, v)) { continue; }
            ns.push(v); es.push(k);
            rec(g, v, t, min, max, dir, ef, excl, ns, es, out);
            ns.pop(); es.pop();
        }
    }
    let mut out = vec![];
    rec(g, s, t, min, max, dir, ef, excl, &mut vec![s], &mut vec![], &mut out);
    out.sort();
    out
}

/// all WALKS s -> t with min <= hops <= max (nodes and edges may repeat, the walk may pass through s and t any number
/// of times); an excluded node may only be entered as the target
#[allow(clippy::too_many_arguments)]
fn spec_walks(g: &G, s: usize, t: usize, min: usize, max: usize, dir: Dir, ef: &EF, excl: u8) -> Vec<P> {
    fn rec(g: &G, u: usize, t: usize, min: usize, max: usize, dir: Dir, ef: &EF, excl: u8, ns: &mut Vec<usize>, es: &mut Vec<usize>, out: &mut Vec<P>) {
        if u == t && es.len() >= min && es.len() <= max { out.push((ns.clone(), es.clone())); }
        if es.len() >= max || out.len() > 4 * MAX_PATHS { return; }
        for (v, k) in steps(g, u, dir, ef) {
            if v != t && excluded(excl, v) { continue; }
            ns.push(v); es.push(k);
            rec(g, v, t, min, max, dir, ef, excl, ns, es, out);
            ns.pop(); es.pop();
        }
    }
    let mut out = vec![];
    rec(g, s, t, min, max, dir, ef, excl, &mut vec![s], &mut vec![], &mut out);
    out.sort();
    out
}

/// All minimum-weight WALKS s -> t (Outgoing steps, non-negative weights), by exhaustive enumeration: every walk from `s`
/// whose running weight does not exceed `dmin` (the Bellman-Ford distance, computed separately) is followed for up to 2n hops
/// and kept when it stands on `t` with weight exactly `dmin`.  None = some minimum-weight walk visits a node twice (it runs
/// through a closed walk of weight 0): the family of minimum-weight walks is then infinite and "all minimum-weight paths" has
/// no finite answer under the walk reading (see the module doc).  Otherwise every minimum-weight walk is a simple path and
/// the returned list is the complete, duplicate-free set.
fn spec_min_walks(g: &G, s: usize, t: usize, prop: u8, dmin: f64) -> Option<Vec<P>> {
    #[allow(clippy::too_many_arguments)]
    fn rec(g: &G, u: usize, t: usize, prop: u8, dmin: f64, acc: f64, ns: &mut Vec<usize>, es: &mut Vec<usize>, out: &mut Vec<P>, infinite: &mut bool) {
        if *infinite { return; }
        if u == t && acc == dmin {
            let mut seen = ns.clone();
            seen.sort_unstable();
            seen.dedup();
            if seen.len() != ns.len() { *infinite = true; return; }
            out.push((ns.clone(), es.clone()));
        }
        if es.len() >= 2 * g.n { return; }
        for (v, k) in steps(g, u, Dir::Out, &EF::default()) {
            let c = acc + weight(&g.es[k], prop);
            if c > dmin { continue; }
            ns.push(v); es.push(k);
            rec(g, v, t, prop, dmin, c, ns, es, out, infinite);
            ns.pop(); es.pop();
        }
    }
    let (mut out, mut infinite) = (vec![], false);
    rec(g, s, t, prop, dmin, 0.0, &mut vec![s], &mut vec![], &mut out, &mut infinite);
    if infinite { return None; }
    out.sort();
    Some(out)
}

/// Ok(()) iff (nodes, edges) is a walk s -> t under `dir` using only edges allowed by `ef`, intermediate nodes not excluded
#[allow(clippy::too_many_arguments)]
fn walk_ok(g: &G, b: &Built, nodes: &[u64], edges: &[u64], s: usize, t: usize, dir: Dir, ef: &EF, excl: u8) -> Result<P, String> {
    let ns = b.nodes(nodes)?;
    let es = b.edges(edges)?;
    if ns.is_empty() || ns.len() != es.len() + 1 { return Err(format!("{} nodes but {} edges", ns.len(), es.len())); }
    if ns[0] != s { return Err(format!("starts at node {} instead of {s}", ns[0])); }
    if ns[ns.len() - 1] != t { return Err(format!("ends at node {} instead of {t}", ns[ns.len() - 1])); }
    for i in 0..es.len() {
        let e = &g.es[es[i]];
        if !ef.ok(e) { return Err(format!("hop {i} uses edge #{} which the edge filter/type excludes", es[i])); }
        let (a, c) = (ns[i], ns[i + 1]);
        let (along, against) = match dir { Dir::Out => (true, !e.d), Dir::In => (!e.d, true), Dir::Both => (true, true) };
        if !((e.f == a && e.t == c && along) || (e.t == a && e.f == c && against)) {
            return Err(format!("hop {i} {a}->{c} is not a legal traversal of edge #{} ({}{}{})", es[i], e.f, if e.d { "->" } else { "--" }, e.t));
        }
        if i > 0 && excluded(excl, a) { return Err(format!("intermediate node {a} is excluded by the node filter")); }
    }
    Ok((ns, es))
}

fn adj_simple(g: &G) -> Vec<u32> {
    let mut adj = vec![0u32; g.n];
    for e in &g.es { if e.f != e.t { adj[e.f] |= 1 << e.t; adj[e.t] |= 1 << e.f; } }
    adj
}

/// number of connected components of the simple graph `adj` restricted to `alive`, with one pair optionally removed
fn count_components(adj: &[u32], alive: u32, removed: Option<(usize, usize)>) -> usize {
    let mut seen = 0u32;
    let mut c = 0;
    for s in 0..adj.len() {
        if alive >> s & 1 == 0 || seen >> s & 1 == 1 { continue; }
        c += 1;
        let mut stack = vec![s];
        seen |= 1 << s;
        while let Some(u) = stack.pop() {
            for v in 0..adj.len() {
                if adj[u] >> v & 1 == 0 || alive >> v & 1 == 0 || seen >> v & 1 == 1 { continue; }
                if removed == Some((u.min(v), u.max(v))) { continue; }
                seen |= 1 << v;
                stack.push(v);
            }
        }
    }
    c
}

/// connected components of the underlying undirected multigraph (edges of type `ty` only, if given): plain DFS on the
/// edge list; every component sorted, components sorted
fn spec_partition(g: &G, ty: Option<u8>) -> Vec<Vec<usize>> {
    let mut nb: Vec<Vec<usize>> = vec![vec![]; g.n];
    for e in &g.es { if ty.map_or(true, |t| e.ty == t) { nb[e.f].push(e.t); nb[e.t].push(e.f); } }
    let mut seen = vec![false; g.n];
    let mut out = vec![];
    for s in 0..g.n {
        if seen[s] { continue; }
        seen[s] = true;
        let (mut stack, mut c) = (vec![s], vec![]);
        while let Some(u) = stack.pop() {
            c.push(u);
            for &v in &nb[u] { if !seen[v] { seen[v] = true; stack.push(v); } }
        }
        c.sort_unstable();
        out.push(c);
    }
    out.sort();
    out
}

/// weight of a minimum spanning forest of the underlying undirected multigraph: Prim's algorithm grown from the smallest
/// node of every component (always the cheapest edge that leaves the tree built so far)
fn spec_prim(g: &G, prop: u8) -> f64 {
    let mut inside = vec![false; g.n];
    let mut total = 0.0;
    for s in 0..g.n {
        if inside[s] { continue; }
        inside[s] = true;
        loop {
            let mut best: Option<(f64, usize)> = None;
            for e in &g.es {
                if inside[e.f] == inside[e.t] { continue; }
                let (w, out) = (weight(e, prop), if inside[e.f] { e.t } else { e.f });
                if best.map_or(true, |b| w < b.0) { best = Some((w, out)); }
            }
            let Some((w, v)) = best else { break };
            total += w;
            inside[v] = true;
        }
    }
    total
}

/// the partition of 0..n induced by the edges `sel` (indices into g.es), same normal form as `spec_partition`
fn partition_of(g: &G, sel: &[usize]) -> Vec<Vec<usize>> {
    spec_partition(&G { n: g.n, es: sel.iter().map(|k| g.es[*k].clone()).collect() }, None)
}

fn uf_find(p: &mut [usize], x: usize) -> usize { let mut r = x; while p[r] != r { r = p[r]; } p[x] = r; r }

// ---------------------------------------------------------------- one query against the real code

type Sink<'a> = &'a mut dyn FnMut(&'static str, bool, &dyn Fn() -> String);

fn node_not_found<T: std::fmt::Debug>(r: &Result<T, GraphError>, id: u64) -> bool { matches!(r, Err(GraphError::NodeNotFound(x)) if *x == id) }

/// Executes `q` on the real engine and feeds every applicable clause to `sink`. Returns "non-trivial".
#[allow(clippy::too_many_lines)]
fn eval(g: &G, b: &Built, q: &Q, sink: Sink) -> bool {
    let n = g.n;
    let none = EF::default();
    let missing = if q.s >= n { Some(q.s) } else if q.t >= n && !matches!(q.k, K::Trav) { Some(q.t) } else { None };
    match q.k {
        K::Path => {
            let filter = mk_filter(g, q.et, q.excl);
            let r = b.e.find_path(b.id(q.s), b.id(q.t), filter.as_ref());
            if missing.is_some() {
                sink("C18.path.optimal", node_not_found(&r, MISSING_ID), &|| format!("find_path with a missing endpoint = {r:?}, expected NodeNotFound({MISSING_ID})"));
                return false;
            }
            let ef = EF { ty: None, et: q.et };
            if let Ok(p) = &r {
                let v = walk_ok(g, b, &p.nodes, &p.edges, q.s, q.t, Dir::Out, &ef, q.excl);
                sink("C18.path.valid", v.is_ok(), &|| format!("find_path = {p:?} (ids), not a legal walk: {}", v.clone().err().unwrap_or_default()));
            }
            if !excluded(q.excl, q.s) && !excluded(q.excl, q.t) {
                let d = spec_bfs(g, q.s, Dir::Out, &ef, q.excl, Some(q.t))[q.t];
                let ok = match (&r, d) { (Ok(p), Some(d)) => p.edges.len() == d, (Err(GraphError::PathNotFound), None) => true, _ => false };
                sink("C18.path.optimal", ok, &|| format!("find_path = {r:?}; spec BFS distance = {d:?} (None = unreachable => PathNotFound expected)"));
            }
            q.s != q.t && !g.es.is_empty()
        },
        K::Weighted => {
            let r = b.e.find_weighted_path(b.id(q.s), b.id(q.t), PROPS[q.prop as usize]);
            if missing.is_some() {
                sink("C18.weighted.optimal", node_not_found(&r, MISSING_ID), &|| format!("find_weighted_path with a missing endpoint = {r:?}, expected NodeNotFound"));
                return false;
            }
            let sum = |es: &[usize]| es.iter().map(|k| weight(&g.es[*k], q.prop)).sum::<f64>();
            let any_neg = g.es.iter().any(|e| weight(e, q.prop) < 0.0);
            if !any_neg {
                if let Ok(p) = &r {
                    let v = walk_ok(g, b, &p.nodes, &p.edges, q.s, q.t, Dir::Out, &none, 0).and_then(|(_, es)| {
                        if sum(&es) == p.total_weight { Ok(()) } else { Err(format!("total_weight {} but the edges sum to {}", p.total_weight, sum(&es))) }
                    });
                    sink("C18.weighted.valid", v.is_ok(), &|| format!("find_weighted_path[{}] = {p:?}: {}", PROPS[q.prop as usize], v.clone().err().unwrap_or_default()));
                }
                let d = spec_bellman(g, q.s, Dir::Out, &none, q.prop)[q.t];
                let ok = match (&r, d) { (Ok(p), Some(d)) => p.total_weight == d, (Err(GraphError::PathNotFound), None) => true, _ => false };
                sink("C18.weighted.optimal", ok, &|| format!("find_weighted_path[{}] = {r:?}; spec shortest distance = {d:?}", PROPS[q.prop as usize]));
            } else {
                // negative weights present: an Ok answer must still be a real walk without negative edges and a
                // NegativeWeight error must name a real negative edge; when EVERY s->t walk needs a negative edge the call must fail with NegativeWeight.
                let reach_all = spec_bfs(g, q.s, Dir::Out, &none, 0, None)[q.t].is_some();
                let nonneg = G { n, es: g.es.iter().filter(|e| weight(e, q.prop) >= 0.0).cloned().collect() };
                let reach_nonneg = spec_bfs(&nonneg, q.s, Dir::Out, &none, 0, None)[q.t].is_some();
                let verdict: Result<(), String> = match &r {
                    Ok(p) => walk_ok(g, b, &p.nodes, &p.edges, q.s, q.t, Dir::Out, &none, 0).and_then(|(_, es)| {
                        if es.iter().any(|k| weight(&g.es[*k], q.prop) < 0.0) { Err("returned path contains a negative-weight edge".into()) }
                        else if sum(&es) != p.total_weight { Err("total_weight is not the sum of the edges".into()) }
                        else if !reach_nonneg { Err("every walk needs a negative edge, NegativeWeight expected".into()) } else { Ok(()) }
                    }),
                    Err(GraphError::NegativeWeight { edge_id, weight: w }) => match b.eidx(*edge_id) {
                        Some(k) if weight(&g.es[k], q.prop) == *w && *w < 0.0 => Ok(()),
                        _ => Err("NegativeWeight names an edge/weight that is not in the graph".into()),
                    },
                    Err(GraphError::PathNotFound) => if reach_all { Err("PathNotFound but the target is reachable".into()) } else { Ok(()) },
                    Err(e) => Err(format!("unexpected error {e:?}")),
                };
                sink("C18.weighted.negative", verdict.is_ok(), &|| format!("find_weighted_path[{}] = {r:?}: {} (reachable={reach_all}, reachable without negative edges={reach_nonneg})",
                                                                             PROPS[q.prop as usize], verdict.clone().err().unwrap_or_default()));
            }
            q.s != q.t && !g.es.is_empty()
        },
        K::AllPaths => {
            let r = b.e.find_all_paths(b.id(q.s), b.id(q.t), None);
            if missing.is_some() {
                sink("C18.all_paths", node_not_found(&r, MISSING_ID), &|| format!("find_all_paths with a missing endpoint = {r:?}, expected NodeNotFound"));
                return false;
            }
            let d = spec_bfs(g, q.s, Dir::Out, &none, 0, None)[q.t];
            let verdict: Result<(), String> = match (&r, d) {
                (Ok(ap), Some(d)) => {
                    let want = spec_simple_paths(g, q.s, q.t, d, d, Dir::Out, &none, 0);
                    let mut got = vec![];
                    let mut bad = None;
                    for p in &ap.paths { match (b.nodes(&p.nodes), b.edges(&p.edges)) { (Ok(a), Ok(c)) => got.push((a, c)), (Err(e), _) | (_, Err(e)) => bad = Some(e) } }
                    got.sort();
                    if let Some(e) = bad { Err(e) }
                    else if ap.hop_count != d { Err(format!("hop_count {} but BFS distance {d}", ap.hop_count)) }
                    else if got != want { Err(format!("paths (node idx, edge idx) {got:?} but the set of all shortest paths is {want:?}")) } else { Ok(()) }
                },
                (Err(GraphError::PathNotFound), None) => Ok(()),
                _ => Err(format!("spec BFS distance = {d:?}")),
            };
            sink("C18.all_paths", verdict.is_ok(), &|| format!("find_all_paths = {r:?}: {}", verdict.clone().err().unwrap_or_default()));
            q.s != q.t && !g.es.is_empty()
        },
        K::Var => {
            let mut cfg = VariableLengthConfig::with_hops(q.min, q.max).direction(direction(q.dir));
            if let Some(t) = q.ty { cfg = cfg.edge_type(TYPES[t as usize]); }
            if let Some(f) = mk_filter(g, q.et, q.excl) { cfg = cfg.with_filter(f); }
            if q.cyc { cfg = cfg.allow_cycles(true); }
            let ob: &'static str = if q.cyc { "C18.varpaths.cycles" } else { "C18.variable" };
            let kind = if q.cyc { "walks (cycles allowed)" } else { "simple paths" };
            let ef = EF { ty: q.ty, et: q.et };
            // the exact-set clause needs an untruncated answer: the domain is chosen so that this never skips a case
            let want = if missing.is_some() { vec![] } else if q.cyc { spec_walks(g, q.s, q.t, q.min, q.max, q.dir, &ef, q.excl) }
                       else { spec_simple_paths(g, q.s, q.t, q.min, q.max, q.dir, &ef, q.excl) };
            // (a step over a directed self-loop under Direction::Both counts twice: the reading under which the engine lists such
            // a walk once per orientation -- see C18.varpaths.cycles.unique -- must not run into the limit either)
            let twice = |k: &usize| q.cyc && q.dir == Dir::Both && g.es[*k].d && g.es[*k].f == g.es[*k].t;
            let load: usize = want.iter().map(|p| 1usize << p.1.iter().filter(|k| twice(k)).count().min(12)).sum();
            if load >= MAX_PATHS { return false; }
            let r = b.e.find_variable_paths(b.id(q.s), b.id(q.t), cfg);
            if missing.is_some() {
                sink(ob, node_not_found(&r, MISSING_ID), &|| format!("find_variable_paths with a missing endpoint = {r:?}, expected NodeNotFound"));
                return false;
            }
            if excluded(q.excl, q.s) || excluded(q.excl, q.t) { return false; }
            let verdict: Result<(), String> = match &r {
                Ok(vp) => {
                    let mut got = vec![];
                    let mut bad = None;
                    for p in &vp.paths { match (b.nodes(&p.nodes), b.edges(&p.edges)) { (Ok(a), Ok(c)) => got.push((a, c)), (Err(e), _) | (_, Err(e)) => bad = Some(e) } }
                    got.sort();
                    if q.cyc {
                        // multiplicity is its own clause (see the module doc): the exact-set clause compares the distinct paths
                        let returned = got.len();
                        got.dedup();
                        let dups = returned - got.len();
                        sink("C18.varpaths.cycles.unique", bad.is_some() || (dups == 0 && vp.stats.paths_found == got.len()),
                             &|| format!("find_variable_paths returned {returned} paths of which only {} are distinct (stats.paths_found = {}): {:?}", got.len(), vp.stats.paths_found, vp.paths));
                    }
                    let lens: Vec<usize> = want.iter().map(|p| p.1.len()).collect();
                    if let Some(e) = bad { Err(e) }
                    else if got != want { Err(format!("paths (node idx, edge idx) {got:?} but the {kind} within [{}, {}] hops are {want:?}", q.min, q.max)) }
                    else if (!q.cyc && vp.stats.paths_found != want.len()) || vp.stats.paths_found != vp.paths.len() || vp.stats.truncated || vp.stats.min_length != lens.iter().min().copied() || vp.stats.max_length != lens.iter().max().copied() {
                        Err(format!("stats {:?} inconsistent with the {} returned paths", vp.stats, want.len()))
                    } else { Ok(()) }
                },
                Err(e) => Err(format!("unexpected error {e:?}")),
            };
            sink(ob, verdict.is_ok(), &|| format!("find_variable_paths: {}", verdict.clone().err().unwrap_or_default()));
            !want.is_empty() && q.max > 0
        },
        K::Trav => {
            let filter = mk_filter(g, q.et, q.excl);
            let r = b.e.traverse(b.id(q.s), direction(q.dir), q.max, q.ty.map(|t| TYPES[t as usize]), filter.as_ref());
            if missing.is_some() {
                sink("C18.traverse", node_not_found(&r, MISSING_ID), &|| format!("traverse from a missing node = {:?}, expected NodeNotFound", r.as_ref().map(Vec::len)));
                return false;
            }
            let ef = EF { ty: q.ty, et: q.et };
            // reading A: the node filter only hides nodes from the output; reading B: it also blocks the traversal
            let da = spec_bfs(g, q.s, q.dir, &ef, 0, None);
            let db = spec_bfs(g, q.s, q.dir, &ef, q.excl, None);
            let a: Vec<usize> = (0..n).filter(|v| *v == q.s || (da[*v].is_some_and(|d| d <= q.max) && !excluded(q.excl, *v))).collect();
            let bb: Vec<usize> = (0..n).filter(|v| *v == q.s || db[*v].is_some_and(|d| d <= q.max)).collect();
            if a != bb { return false; }
            let verdict: Result<(), String> = match &r {
                Ok(ns) => {
                    let ids: Vec<u64> = ns.iter().map(|x| x.id).collect();
                    b.nodes(&ids).and_then(|mut got| { got.sort_unstable(); if got == a { Ok(()) } else { Err(format!("returned nodes {got:?}, nodes within {} hops are {a:?}", q.max)) } })
                },
                Err(e) => Err(format!("unexpected error {e:?}")),
            };
            sink("C18.traverse", verdict.is_ok(), &|| format!("traverse: {}", verdict.clone().err().unwrap_or_default()));
            a.len() > 1
        },
        K::Astar => {
            let mut cfg = AStarConfig::new().direction(direction(q.dir));
            cfg = if q.prop == 3 { cfg.unweighted() } else { cfg.weight_property(PROPS[q.prop as usize]) };
            if let Some(t) = q.ty { cfg = cfg.edge_type(TYPES[t as usize]); }
            let r = b.e.astar_path(b.id(q.s), b.id(q.t), &cfg);
            if missing.is_some() { return false; }
            let ef = EF { ty: q.ty, et: None };
            let d = spec_bellman(g, q.s, q.dir, &ef, q.prop)[q.t];
            let verdict: Result<(), String> = match &r {
                Ok(res) => match (&res.path, d) {
                    (Some(p), Some(d)) => walk_ok(g, b, &p.nodes, &p.edges, q.s, q.t, q.dir, &ef, 0).and_then(|(_, es)| {
                        let s: f64 = es.iter().map(|k| weight(&g.es[*k], q.prop)).sum();
                        if s != p.total_weight { Err(format!("total_weight {} but the listed edges sum to {s}", p.total_weight)) }
                        else if p.total_weight != d { Err(format!("total_weight {} but the shortest distance is {d}", p.total_weight)) } else { Ok(()) }
                    }),
                    (None, None) => Ok(()),
                    (p, d) => Err(format!("path {p:?} but spec distance {d:?}")),
                },
                Err(e) => Err(format!("unexpected error {e:?}")),
            };
            sink("C18.algos.astar", verdict.is_ok(), &|| format!("astar_path[{} {}] = {:?}: {}", PROPS[q.prop as usize], dir_name(q.dir), r.as_ref().map(|x| &x.path), verdict.clone().err().unwrap_or_default()));
            q.s != q.t && !g.es.is_empty()
        },
        K::AllWeighted => {
            if missing.is_some() {
                let r = b.e.find_all_weighted_paths(b.id(q.s), b.id(q.t), PROPS[q.prop as usize], None);
                sink("C18.weighted.all_optimal", node_not_found(&r, MISSING_ID), &|| format!("find_all_weighted_paths with a missing endpoint = {r:?}, expected NodeNotFound"));
                return false;
            }
            // negative weights are the business of C18.weighted.negative
            if g.es.iter().any(|e| weight(e, q.prop) < 0.0) { return false; }
            let d = spec_bellman(g, q.s, Dir::Out, &none, q.prop)[q.t];
            // precondition: the set of minimum-weight walks is finite (no closed walk of weight 0 on a minimum-weight walk);
            // the call is not made otherwise (module doc: it does not return on such inputs)
            let want = match d { Some(dm) => match spec_min_walks(g, q.s, q.t, q.prop, dm) { Some(w) => w, None => return false }, None => vec![] };
            let r = b.e.find_all_weighted_paths(b.id(q.s), b.id(q.t), PROPS[q.prop as usize], None);
            let verdict: Result<(), String> = match (&r, d) {
                (Ok(ap), Some(dm)) => (|| {
                    if ap.total_weight != dm { return Err(format!("total_weight {} but the minimum weight of a walk (Bellman-Ford) is {dm}", ap.total_weight)); }
                    let mut got = vec![];
                    for p in &ap.paths {
                        let (ns, es) = walk_ok(g, b, &p.nodes, &p.edges, q.s, q.t, Dir::Out, &none, 0).map_err(|e| format!("returned path {p:?} (ids) is not a legal walk: {e}"))?;
                        let sum: f64 = es.iter().map(|k| weight(&g.es[*k], q.prop)).sum();
                        if sum != p.total_weight || sum != dm { return Err(format!("returned path (node idx, edge idx) {:?} reports weight {}, its edges sum to {sum}, the minimum is {dm}", (&ns, &es), p.total_weight)); }
                        got.push((ns, es));
                    }
                    got.sort();
                    let returned = got.len();
                    got.dedup();
                    // "no path is returned twice": its own clause on graphs with an undirected (non-loop) edge, part of this clause otherwise (module doc)
                    if g.es.iter().any(|e| !e.d && e.f != e.t) {
                        sink("C18.weighted.all_optimal.unique", returned == got.len(),
                             &|| format!("find_all_weighted_paths[{}] returned {returned} paths of which only {} are distinct: {:?}", PROPS[q.prop as usize], got.len(), ap.paths));
                    } else if returned != got.len() {
                        return Err(format!("returned {returned} paths of which only {} are distinct: {:?}", got.len(), ap.paths));
                    }
                    if got != want { return Err(format!("distinct returned paths (node idx, edge idx) {got:?} but the set of all minimum-weight ({dm}) walks is {want:?}")); }
                    Ok(())
                })(),
                (Err(GraphError::PathNotFound), None) => Ok(()),
                _ => Err(format!("spec shortest distance = {d:?} (None = unreachable => PathNotFound expected)")),
            };
            sink("C18.weighted.all_optimal", verdict.is_ok(), &|| format!("find_all_weighted_paths[{}] = {:?}: {}", PROPS[q.prop as usize], r.as_ref().map(|x| (x.total_weight, x.paths.len())), verdict.clone().err().unwrap_or_default()));
            q.s != q.t && want.len() + usize::from(d.is_none()) > 0 && !g.es.is_empty()
        },
        K::Pattern => {
            // (a [idx = s]) -[p *min..max, direction, edge type]-> (b [idx = t]); bit 0 / 1 of `any` drop the start / end condition
            // Incoming / Both on graphs where two non-loop edges join the same pair of nodes: own clause (module doc)
            let multi = g.es.iter().enumerate().any(|(i, e)| e.f != e.t && g.es[..i].iter().any(|x| (x.f, x.t) == (e.f, e.t) || (x.f, x.t) == (e.t, e.f)));
            let ob: &'static str = if q.dir == Dir::Out || !multi { "C18.pattern.variable" } else { "C18.pattern.variable.directions" };
            let mut start = NodePattern::new().variable("a");
            if q.any & 1 == 0 { start = start.where_eq("idx", PropertyValue::Int(q.s as i64)); } else if q.any & 4 != 0 { start = start.label("N"); }
            let mut end = NodePattern::new().variable("b");
            if q.any & 2 == 0 { end = end.where_eq("idx", PropertyValue::Int(q.t as i64)); }
            let mut ep = EdgePattern::new().variable("p").direction(direction(q.dir)).variable_length(q.min, q.max);
            if let Some(t) = q.ty { ep = ep.edge_type(TYPES[t as usize]); }
            let pattern = Pattern::new(PathPattern::new(start, ep, end));
            let ef = EF { ty: q.ty, et: None };
            let starts: Vec<usize> = if q.any & 1 == 0 { vec![q.s] } else { (0..n).collect() };
            let ends: Vec<usize> = if q.any & 2 == 0 { vec![q.t] } else { (0..n).collect() };
            let mut want: Vec<(usize, usize, Vec<usize>, Vec<usize>)> = vec![];
            for &s in &starts { if s >= n { continue; } for &t in &ends { if t >= n { continue; }
                for (ns, es) in spec_simple_paths(g, s, t, q.min, q.max, q.dir, &ef, 0) { want.push((s, t, ns, es)); }
            } }
            want.sort();
            if want.len() >= MAX_PATHS { return false; }
            let r = b.e.match_pattern(&pattern);
            let verdict: Result<(), String> = match &r {
                Ok(res) => (|| {
                    let mut got = vec![];
                    for m in &res.matches {
                        let (Some(a), Some(c), Some(p)) = (m.get_node("a"), m.get_node("b"), m.get_path("p")) else { return Err(format!("a match lacks one of the bindings a, b, p: {m:?}")); };
                        let (ns, es) = (b.nodes(&p.nodes)?, b.edges(&p.edges)?);
                        let (ai, ci) = (b.nodes(&[a.id])?[0], b.nodes(&[c.id])?[0]);
                        if ns.first() != Some(&ai) || ns.last() != Some(&ci) { return Err(format!("match binds a = {ai}, b = {ci} but the path p runs over the nodes {ns:?}")); }
                        got.push((ai, ci, ns, es));
                    }
                    got.sort();
                    if got != want { return Err(format!("matches (a, b, path nodes, path edges) {got:?} but the simple paths with {}..={} hops are {want:?}", q.min, q.max)); }
                    if res.stats.matches_found != want.len() || res.stats.truncated { return Err(format!("stats {:?} inconsistent with the {} matches", res.stats, want.len())); }
                    Ok(())
                })(),
                Err(e) => Err(format!("unexpected error {e:?}")),
            };
            sink(ob, verdict.is_ok(), &|| format!("match_pattern: {}", verdict.clone().err().unwrap_or_default()));
            if q.any & 8 != 0 { return !want.is_empty(); }
            let c = b.e.count_pattern_matches(&pattern);
            sink(ob, matches!(&c, Ok(x) if *x == want.len() as u64), &|| format!("count_pattern_matches = {c:?}, the brute-force enumeration has {} matches: {want:?}", want.len()));
            let x = b.e.pattern_exists(&pattern);
            sink(ob, matches!(&x, Ok(v) if *v == !want.is_empty()), &|| format!("pattern_exists = {x:?}, the brute-force enumeration has {} matches: {want:?}", want.len()));
            !want.is_empty()
        },
        K::Scc | K::SccPart => {
            let ob: &'static str = if q.k == K::Scc { "C18.algos.scc" } else { "C18.components.partition" };
            let r = b.e.strongly_connected_components(&SccConfig::new().with_condensation());
            let reach: Vec<Vec<Option<usize>>> = (0..n).map(|s| spec_bfs(g, s, Dir::Out, &none, 0, None)).collect();
            let mut want: Vec<Vec<usize>> = vec![];
            for u in 0..n { if !want.iter().any(|c| c.contains(&u)) { want.push((0..n).filter(|v| reach[u][*v].is_some() && reach[*v][u].is_some()).collect()); } }
            want.sort();
            let verdict: Result<(), String> = match &r {
                Ok(res) => (|| {
                    let mut got = vec![];
                    for m in &res.members { let mut c = b.nodes(m)?; c.sort_unstable(); got.push(c); }
                    let mut sorted = got.clone();
                    sorted.sort();
                    if sorted != want { return Err(format!("members {sorted:?}, mutual-reachability classes {want:?}")); }
                    if res.component_count != want.len() || res.components.len() != n { return Err("component_count / components map size wrong".into()); }
                    for (ci, c) in got.iter().enumerate() { for v in c { if res.components.get(&b.id(*v)) != Some(&ci) { return Err(format!("components[{v}] != {ci}")); } } }
                    let comp = |v: usize| got.iter().position(|c| c.contains(&v)).unwrap_or(usize::MAX);
                    let mut ce: Vec<(usize, usize)> = vec![];
                    for u in 0..n { for (v, _) in steps(g, u, Dir::Out, &none) { if comp(u) != comp(v) && !ce.contains(&(comp(u), comp(v))) { ce.push((comp(u), comp(v))); } } }
                    ce.sort_unstable();
                    let mut gce = res.condensation_edges.clone();
                    gce.sort_unstable();
                    if gce != ce { return Err(format!("condensation edges {gce:?}, expected {ce:?}")); }
                    let mut perm = res.topological_order.clone();
                    perm.sort_unstable();
                    if perm != (0..want.len()).collect::<Vec<_>>() { return Err(format!("topological_order {:?} is not a permutation of the components", res.topological_order)); }
                    let pos = |c: usize| res.topological_order.iter().position(|x| *x == c).unwrap_or(0);
                    if ce.iter().any(|(a, c)| pos(*a) >= pos(*c)) { return Err(format!("topological_order {:?} violates an edge of {ce:?}", res.topological_order)); }
                    Ok(())
                })(),
                Err(e) => Err(format!("unexpected error {e:?}")),
            };
            sink(ob, verdict.is_ok(), &|| format!("strongly_connected_components: {}", verdict.clone().err().unwrap_or_default()));
            !g.es.is_empty()
        },
        K::Mst => {
            let r = b.e.minimum_spanning_tree(&MstConfig::new(PROPS[q.prop as usize]));
            let adj = adj_simple(g);
            let all = (1u32 << n) - 1;
            let comps = count_components(&adj, all, None);
            let m = g.es.len();
            let acyclic = |sel: &[usize]| { let mut p: Vec<usize> = (0..n).collect(); sel.iter().all(|k| { let (a, c) = (uf_find(&mut p, g.es[*k].f), uf_find(&mut p, g.es[*k].t)); p[a] = c; a != c }) };
            let mut best: Option<f64> = None;
            for mask in 0u32..1 << m {
                if mask.count_ones() as usize != n - comps { continue; }
                let sel: Vec<usize> = (0..m).filter(|k| mask >> k & 1 == 1).collect();
                if !acyclic(&sel) { continue; }
                let wsum: f64 = sel.iter().map(|k| weight(&g.es[*k], q.prop)).sum();
                if best.map_or(true, |x| wsum < x) { best = Some(wsum); }
            }
            let verdict: Result<(), String> = match &r {
                Ok(res) => (|| {
                    let ids: Vec<u64> = res.edges.iter().map(|e| e.edge_id).collect();
                    let sel = b.edges(&ids)?;
                    for (me, k) in res.edges.iter().zip(&sel) {
                        let e = &g.es[*k];
                        if b.nidx(me.from) != Some(e.f) || b.nidx(me.to) != Some(e.t) || me.weight != weight(e, q.prop) { return Err(format!("{me:?} does not describe edge #{k}")); }
                    }
                    let mut ds = sel.clone(); ds.sort_unstable(); ds.dedup();
                    if ds.len() != sel.len() || !acyclic(&sel) { return Err(format!("edges {sel:?} contain a cycle")); }
                    if sel.len() != n - comps { return Err(format!("{} edges, a spanning forest of {n} nodes / {comps} components has {}", sel.len(), n - comps)); }
                    if res.tree_count != comps { return Err(format!("tree_count {} but {comps} connected components", res.tree_count)); }
                    let s: f64 = sel.iter().map(|k| weight(&g.es[*k], q.prop)).sum();
                    if res.total_weight != s { return Err(format!("total_weight {} but edges sum to {s}", res.total_weight)); }
                    if Some(res.total_weight) != best { return Err(format!("total_weight {} but the minimum over all spanning forests is {best:?}", res.total_weight)); }
                    let mut ns = b.nodes(&res.nodes)?; ns.sort_unstable();
                    if ns != (0..n).collect::<Vec<_>>() { return Err(format!("nodes {ns:?} is not the node set")); }
                    Ok(())
                })(),
                Err(e) => Err(format!("unexpected error {e:?}")),
            };
            sink("C18.algos.mst", verdict.is_ok(), &|| format!("minimum_spanning_tree[{}]: {}", PROPS[q.prop as usize], verdict.clone().err().unwrap_or_default()));
            n - comps > 0
        },
        K::Kcore => {
            let cfg = if q.und { KCoreConfig::new().undirected() } else { KCoreConfig::new() };
            let r = b.e.kcore_decomposition(&cfg);
            let adj = adj_simple(g);
            // core(v) = max over node subsets S containing v of the minimum degree of the subgraph induced by S
            let mut core = vec![0usize; n];
            for s in 1u32..1 << n {
                let md = (0..n).filter(|v| s >> v & 1 == 1).map(|v| (adj[v] & s).count_ones() as usize).min().unwrap_or(0);
                for v in 0..n { if s >> v & 1 == 1 && md > core[v] { core[v] = md; } }
            }
            let verdict: Result<(), String> = match &r {
                Ok(res) => (|| {
                    let got: Vec<Option<usize>> = (0..n).map(|v| res.core_numbers.get(&b.id(v)).copied()).collect();
                    if res.core_numbers.len() != n || got != core.iter().map(|c| Some(*c)).collect::<Vec<_>>() { return Err(format!("core numbers {got:?}, by definition {core:?}")); }
                    if res.degeneracy != core.iter().copied().max().unwrap_or(0) { return Err(format!("degeneracy {}", res.degeneracy)); }
                    for k in 0..=n {
                        let mut gk = b.nodes(res.cores.get(&k).map_or(&[][..], Vec::as_slice))?; gk.sort_unstable();
                        if gk != (0..n).filter(|v| core[*v] == k).collect::<Vec<_>>() { return Err(format!("cores[{k}] = {gk:?}")); }
                    }
                    if res.cores.keys().any(|k| *k > n) { return Err("cores has an impossible key".into()); }
                    Ok(())
                })(),
                Err(e) => Err(format!("unexpected error {e:?}")),
            };
            sink("C18.algos.kcore", verdict.is_ok(), &|| format!("kcore_decomposition: {}", verdict.clone().err().unwrap_or_default()));
            core.iter().any(|c| *c > 0)
        },
        K::Tri => {
            // und=false (Outgoing adjacency) is only evaluated on graphs whose edges are all undirected (same adjacency)
            if !q.und && g.es.iter().any(|e| e.d) { return false; }
            let cfg = if q.und { TriangleConfig::new().undirected() } else { TriangleConfig::new() };
            let r = b.e.count_triangles(&cfg);
            let adj = adj_simple(g);
            let has = |a: usize, c: usize| adj[a] >> c & 1 == 1;
            let mut tri = vec![0usize; n];
            let mut total = 0usize;
            for a in 0..n { for c in a + 1..n { for d in c + 1..n { if has(a, c) && has(c, d) && has(a, d) { total += 1; tri[a] += 1; tri[c] += 1; tri[d] += 1; } } } }
            let deg: Vec<usize> = adj.iter().map(|x| x.count_ones() as usize).collect();
            let pairs = |d: usize| if d < 2 { 0 } else { d * (d - 1) / 2 };
            let triplets: usize = deg.iter().map(|d| pairs(*d)).sum();
            let close = |x: f64, y: f64| (x - y).abs() < 1e-12;
            let verdict: Result<(), String> = match &r {
                Ok(res) => (|| {
                    let got: Vec<Option<usize>> = (0..n).map(|v| res.node_triangles.get(&b.id(v)).copied()).collect();
                    if res.triangle_count != total { return Err(format!("triangle_count {} but {total} node triples are pairwise adjacent", res.triangle_count)); }
                    if res.node_triangles.len() != n || got != tri.iter().map(|c| Some(*c)).collect::<Vec<_>>() { return Err(format!("node_triangles {got:?}, by enumeration {tri:?}")); }
                    for v in 0..n {
                        let want = if pairs(deg[v]) == 0 { 0.0 } else { tri[v] as f64 / pairs(deg[v]) as f64 };
                        if !res.local_clustering.get(&b.id(v)).is_some_and(|x| close(*x, want)) { return Err(format!("local_clustering[{v}] = {:?}, expected {want}", res.local_clustering.get(&b.id(v)))); }
                    }
                    let wg = if triplets == 0 { 0.0 } else { (3 * total) as f64 / triplets as f64 };
                    if !close(res.global_clustering, wg) { return Err(format!("global_clustering {} expected {wg}", res.global_clustering)); }
                    Ok(())
                })(),
                Err(e) => Err(format!("unexpected error {e:?}")),
            };
            sink("C18.algos.triangles", verdict.is_ok(), &|| format!("count_triangles(undirected={}): {}", q.und, verdict.clone().err().unwrap_or_default()));
            triplets > 0
        },
        K::Bicon => {
            let r = b.e.biconnected_components(&BiconnectedConfig::new());
            let adj = adj_simple(g);
            let all = (1u32 << n) - 1;
            let base = count_components(&adj, all, None);
            let aps: Vec<usize> = (0..n).filter(|v| count_components(&adj, all & !(1 << v), None) > base).collect();
            let mut pairs: Vec<(usize, usize)> = vec![];
            for a in 0..n { for c in a + 1..n { if adj[a] >> c & 1 == 1 { pairs.push((a, c)); } } }
            let bridges: Vec<(usize, usize)> = pairs.iter().copied().filter(|p| count_components(&adj, all, Some(*p)) > base).collect();
            // blocks: classes of the relation "lie on a common simple cycle" (closed under union), bridges are singletons
            let mut uf: Vec<usize> = (0..pairs.len()).collect();
            fn cycles(adj: &[u32], start: usize, path: &mut Vec<usize>, pairs: &[(usize, usize)], uf: &mut Vec<usize>) {
                let u = path[path.len() - 1];
                for v in 0..adj.len() {
                    if adj[u] >> v & 1 == 0 { continue; }
                    if v == start && path.len() >= 3 {
                        let idx = |a: usize, c: usize| pairs.iter().position(|p| *p == (a.min(c), a.max(c))).unwrap_or(0);
                        let first = idx(path[0], path[1]);
                        for i in 0..path.len() { let k = idx(path[i], path[(i + 1) % path.len()]); let (x, y) = (uf_find(uf, first), uf_find(uf, k)); uf[x] = y; }
                    } else if v > start && !path.contains(&v) { path.push(v); cycles(adj, start, path, pairs, uf); path.pop(); }
                }
            }
            for s in 0..n { cycles(&adj, s, &mut vec![s], &pairs, &mut uf); }
            let mut blocks: Vec<Vec<(usize, usize)>> = vec![];
            for root in 0..pairs.len() { let c: Vec<(usize, usize)> = (0..pairs.len()).filter(|k| uf_find(&mut uf, *k) == uf_find(&mut uf, root)).map(|k| pairs[k]).collect(); if !blocks.contains(&c) { blocks.push(c); } }
            blocks.sort();
            let verdict: Result<(), String> = match &r {
                Ok(res) => (|| {
                    let mut ga = b.nodes(&res.articulation_points)?; ga.sort_unstable();
                    if ga != aps { return Err(format!("articulation_points {ga:?}, nodes whose removal disconnects: {aps:?}")); }
                    let pair = |p: &(u64, u64)| -> Result<(usize, usize), String> { let v = b.nodes(&[p.0, p.1])?; Ok((v[0].min(v[1]), v[0].max(v[1]))) };
                    let mut gb = res.bridges.iter().map(pair).collect::<Result<Vec<_>, _>>()?; gb.sort_unstable();
                    if gb != bridges { return Err(format!("bridges {gb:?}, adjacent pairs whose removal disconnects: {bridges:?}")); }
                    let mut gc = vec![];
                    for c in &res.components { let mut x = c.iter().map(pair).collect::<Result<Vec<_>, _>>()?; x.sort_unstable(); gc.push(x); }
                    gc.sort();
                    if gc != blocks || res.component_count != blocks.len() { return Err(format!("components {gc:?} (count {}), blocks by definition {blocks:?}", res.component_count)); }
                    Ok(())
                })(),
                Err(e) => Err(format!("unexpected error {e:?}")),
            };
            sink("C18.algos.biconnected", verdict.is_ok(), &|| format!("biconnected_components: {}", verdict.clone().err().unwrap_or_default()));
            !pairs.is_empty()
        },
        K::Comp => {
            let r = b.e.connected_components(q.ty.map(|t| CommunityConfig::new().edge_type(TYPES[t as usize])));
            let want = spec_partition(g, q.ty);
            let verdict: Result<(), String> = match &r {
                Ok(res) => (|| {
                    let mut got = vec![];
                    for m in res.members.values() { let mut c = b.nodes(m)?; c.sort_unstable(); got.push(c); }
                    got.sort();
                    if got != want { return Err(format!("members {got:?}, connected components by DFS on the edge list {want:?}")); }
                    if res.community_count != want.len() { return Err(format!("community_count {} but {} components", res.community_count, want.len())); }
                    if res.communities.len() != n { return Err(format!("communities maps {} nodes, the graph has {n}", res.communities.len())); }
                    for v in 0..n {
                        let Some(cid) = res.communities.get(&b.id(v)) else { return Err(format!("communities has no entry for node {v}")); };
                        if !res.members.get(cid).is_some_and(|m| m.contains(&b.id(v))) { return Err(format!("communities[{v}] = {cid} but members[{cid}] does not list node {v}")); }
                    }
                    Ok(())
                })(),
                Err(e) => Err(format!("unexpected error {e:?}")),
            };
            sink("C18.components.partition", verdict.is_ok(), &|| format!("connected_components(edge_type {:?}): {}", q.ty.map(|t| TYPES[t as usize]), verdict.clone().err().unwrap_or_default()));
            want.len() < n
        },
        K::MstForest => {
            let parts = spec_partition(g, None);
            let best = spec_prim(g, q.prop);
            let wsum = |sel: &[usize]| sel.iter().map(|k| weight(&g.es[*k], q.prop)).sum::<f64>();
            let acyclic = |sel: &[usize]| { let mut p: Vec<usize> = (0..n).collect(); sel.iter().all(|k| { let (a, c) = (uf_find(&mut p, g.es[*k].f), uf_find(&mut p, g.es[*k].t)); p[a] = c; a != c }) };
            let describe = |res: &graph_engine::MstResult| -> Result<Vec<usize>, String> {
                let ids: Vec<u64> = res.edges.iter().map(|e| e.edge_id).collect();
                let sel = b.edges(&ids)?;
                for (me, k) in res.edges.iter().zip(&sel) {
                    let e = &g.es[*k];
                    if b.nidx(me.from) != Some(e.f) || b.nidx(me.to) != Some(e.t) || me.weight != weight(e, q.prop) { return Err(format!("{me:?} does not describe edge #{k}")); }
                }
                let mut ds = sel.clone(); ds.sort_unstable(); ds.dedup();
                if ds.len() != sel.len() || !acyclic(&sel) { return Err(format!("edges {sel:?} contain a cycle")); }
                if res.total_weight != wsum(&sel) { return Err(format!("total_weight {} but its edges sum to {}", res.total_weight, wsum(&sel))); }
                Ok(sel)
            };
            let r = b.e.minimum_spanning_tree(&MstConfig::new(PROPS[q.prop as usize]));
            let verdict: Result<(), String> = match &r {
                Ok(res) => (|| {
                    let sel = describe(res)?;
                    let pieces = partition_of(g, &sel);
                    if pieces != parts { return Err(format!("the returned edges {sel:?} connect the node sets {pieces:?}, the connected components are {parts:?}")); }
                    if sel.len() != n - parts.len() { return Err(format!("{} edges, a spanning forest of {n} nodes / {} components has {}", sel.len(), parts.len(), n - parts.len())); }
                    if res.tree_count != parts.len() { return Err(format!("tree_count {} but {} connected components", res.tree_count, parts.len())); }
                    if res.total_weight != best { return Err(format!("total_weight {} but a minimum spanning forest (Prim) weighs {best}", res.total_weight)); }
                    let mut ns = b.nodes(&res.nodes)?; ns.sort_unstable();
                    if ns != (0..n).collect::<Vec<_>>() { return Err(format!("nodes {ns:?} is not the node set")); }
                    Ok(())
                })(),
                Err(e) => Err(format!("unexpected error {e:?}")),
            };
            sink("C18.mst.forest", verdict.is_ok(), &|| format!("minimum_spanning_tree[{}]: {}", PROPS[q.prop as usize], verdict.clone().err().unwrap_or_default()));
            let rf = b.e.minimum_spanning_forest(PROPS[q.prop as usize]);
            let verdict: Result<(), String> = match &rf {
                Ok(trees) => (|| {
                    let mut got = vec![];
                    let mut total = 0.0;
                    for t in trees {
                        let sel = describe(t)?;
                        let mut ns = b.nodes(&t.nodes)?; ns.sort_unstable();
                        if t.tree_count != 1 { return Err(format!("a tree of the forest has tree_count {}", t.tree_count)); }
                        if sel.len() + 1 != ns.len() || sel.iter().any(|k| !ns.contains(&g.es[*k].f) || !ns.contains(&g.es[*k].t)) { return Err(format!("edges {sel:?} are not a spanning tree of its node list {ns:?}")); }
                        total += t.total_weight;
                        got.push(ns);
                    }
                    got.sort();
                    if got != parts { return Err(format!("node lists of the trees {got:?}, the connected components are {parts:?}")); }
                    if total != best { return Err(format!("the trees weigh {total} in total but a minimum spanning forest (Prim) weighs {best}")); }
                    Ok(())
                })(),
                Err(e) => Err(format!("unexpected error {e:?}")),
            };
            sink("C18.mst.forest", verdict.is_ok(), &|| format!("minimum_spanning_forest[{}]: {}", PROPS[q.prop as usize], verdict.clone().err().unwrap_or_default()));
            parts.len() < n
        },
    }
}

// ---------------------------------------------------------------- query sets

#[derive(Clone, Copy, PartialEq, Eq, Debug)]
enum Level { Full, Reduced, Light, AlgosOnly }

/// Full: every node-filter mask and every hop pair; Reduced: every function, direction and kind of filter but fewer
/// combinations; Light: the unfiltered core of every function; AlgosOnly: whole-graph algorithms.
#[allow(clippy::too_many_lines)]
fn queries(g: &G, level: Level) -> Vec<Q> {
    let n = g.n;
    let mut qs = vec![];
    if level == Level::AlgosOnly { algo_queries(&mut qs); return qs; }
    let masks = 1u8 << n;
    let (full, light) = (level == Level::Full, level == Level::Light);
    for s in 0..n {
        for t in 0..n {
            let free: Vec<u8> = (0..masks).filter(|m| !excluded(*m, s) && !excluded(*m, t)).collect();
            // find_path
            for et in [None, Some(0)] {
                if full { for excl in 0..masks { qs.push(Q { k: K::Path, s, t, et, excl, ..Q0 }); } }
                else if light { qs.push(Q { k: K::Path, s, t, et, ..Q0 }); }
                else { for excl in &free { qs.push(Q { k: K::Path, s, t, et, excl: *excl, ..Q0 }); } }
            }
            // find_weighted_path
            for prop in 0..4 { if !light || prop < 3 { qs.push(Q { k: K::Weighted, s, t, prop, ..Q0 }); } }
            qs.push(Q { k: K::AllPaths, s, t, ..Q0 });
            // find_variable_paths
            if full {
                for min in 0..=n { for max in min..=n { qs.push(Q { k: K::Var, s, t, min, max, ..Q0 }); } }
                for dir in [Dir::In, Dir::Both] { for (min, max) in [(0, n), (1, 1), (2, n)] { qs.push(Q { k: K::Var, s, t, min, max, dir, ..Q0 }); } }
            } else if light {
                qs.push(Q { k: K::Var, s, t, min: 0, max: n, ..Q0 });
                qs.push(Q { k: K::Var, s, t, min: 1, max: 2, dir: Dir::Both, ..Q0 });
                qs.push(Q { k: K::Var, s, t, min: 2, max: n, dir: Dir::In, ..Q0 });
            } else {
                for (min, max) in [(0, n), (1, n), (1, 1), (2, 2)] { qs.push(Q { k: K::Var, s, t, min, max, ..Q0 }); }
                qs.push(Q { k: K::Var, s, t, min: 1, max: n, dir: Dir::In, ..Q0 });
                qs.push(Q { k: K::Var, s, t, min: 0, max: n, dir: Dir::Both, ..Q0 });
                qs.push(Q { k: K::Var, s, t, min: 2, max: n, dir: Dir::Both, ..Q0 });
            }
            if !light {
                qs.push(Q { k: K::Var, s, t, min: 2, max: 1, ..Q0 });
                qs.push(Q { k: K::Var, s, t, min: 1, max: n, ty: Some(0), ..Q0 });
                qs.push(Q { k: K::Var, s, t, min: 1, max: n, dir: Dir::Both, et: Some(0), ..Q0 });
                if full { qs.push(Q { k: K::Var, s, t, min: 0, max: n, dir: Dir::Both, ty: Some(1), ..Q0 }); }
                for (i, excl) in free.iter().filter(|m| **m != 0).enumerate() {
                    if full || i == 0 { qs.push(Q { k: K::Var, s, t, min: 0, max: n, excl: *excl, ..Q0 }); }
                    if full { qs.push(Q { k: K::Var, s, t, min: 1, max: n, dir: Dir::Both, et: Some(0), excl: *excl, ..Q0 }); }
                }
            }
            // astar_path
            qs.push(Q { k: K::Astar, s, t, ..Q0 });
            if !light {
                qs.push(Q { k: K::Astar, s, t, dir: Dir::Both, prop: 1, ..Q0 });
                qs.push(Q { k: K::Astar, s, t, dir: Dir::In, prop: 3, ..Q0 });
            }
            if full {
                qs.push(Q { k: K::Astar, s, t, prop: 1, ..Q0 });
                qs.push(Q { k: K::Astar, s, t, prop: 3, ..Q0 });
                qs.push(Q { k: K::Astar, s, t, ty: Some(0), ..Q0 });
            }
        }
        // traverse
        for dir in [Dir::Out, Dir::In, Dir::Both] {
            for max in 0..=n { if full || max <= 1 || max == n { qs.push(Q { k: K::Trav, s, max, dir, ..Q0 }); } }
            if full { qs.push(Q { k: K::Trav, s, max: n, dir, ty: Some(0), ..Q0 }); qs.push(Q { k: K::Trav, s, max: 1, dir, et: Some(1), ..Q0 }); }
        }
        if !light && !full {
            qs.push(Q { k: K::Trav, s, max: n, ty: Some(0), ..Q0 });
            qs.push(Q { k: K::Trav, s, max: n, dir: Dir::Both, et: Some(1), ..Q0 });
        }
        if !light {
            for (i, excl) in (1..masks).filter(|m| !excluded(*m, s)).enumerate() {
                if full || i == 0 { qs.push(Q { k: K::Trav, s, max: n, excl, ..Q0 }); }
                if full { qs.push(Q { k: K::Trav, s, max: 1, dir: Dir::Both, excl, ..Q0 }); qs.push(Q { k: K::Trav, s, max: 2, dir: Dir::In, et: Some(0), excl, ..Q0 }); }
            }
        }
    }
    // missing endpoints
    if !light {
        for k in [K::Path, K::Weighted, K::AllPaths, K::Var] { qs.push(Q { k, s: n, t: 0, max: 1, ..Q0 }); qs.push(Q { k, s: 0, t: n, max: 1, ..Q0 }); }
        qs.push(Q { k: K::Trav, s: n, max: 1, ..Q0 });
    }
    algo_queries(&mut qs);
    qs
}

/// Queries added after the original per-graph query set (kept separate so that the order of the older cases is unchanged):
///  * find_path with the edge filter t == "B": with the positional types A,B,A,B the FIRST created edge is then a
///    rejected one (parallel edges with the rejected edge created first, a node first reached through a rejected edge);
///  * find_variable_paths with allow_cycles(true) (C18.varpaths.cycles).
fn extra_queries(g: &G, level: Level) -> Vec<Q> {
    let n = g.n;
    let mut qs = vec![];
    if level == Level::AlgosOnly { return qs; }
    // 4-node enumerations (thorough tier only): the light selection, the time budget of the tier is spent on the older queries
    let level = if n >= 4 { Level::Light } else { level };
    let masks = 1u8 << n;
    let (full, light) = (level == Level::Full, level == Level::Light);
    let var = |s: usize, t: usize, min: usize, max: usize, dir: Dir| Q { k: K::Var, s, t, min, max, dir, cyc: true, ..Q0 };
    for s in 0..n {
        for t in 0..n {
            let free: Vec<u8> = (0..masks).filter(|m| !excluded(*m, s) && !excluded(*m, t)).collect();
            if full { for excl in 0..masks { qs.push(Q { k: K::Path, s, t, et: Some(1), excl, ..Q0 }); } }
            else if light { qs.push(Q { k: K::Path, s, t, et: Some(1), ..Q0 }); }
            else { for excl in &free { qs.push(Q { k: K::Path, s, t, et: Some(1), excl: *excl, ..Q0 }); } }
            if full {
                for min in 0..=n { for max in min..=n { qs.push(var(s, t, min, max, Dir::Out)); } }
                for dir in [Dir::In, Dir::Both] { for (min, max) in [(0, n), (1, 1), (2, n)] { qs.push(var(s, t, min, max, dir)); } }
                qs.push(Q { ty: Some(0), ..var(s, t, 1, n, Dir::Out) });
                qs.push(Q { et: Some(1), ..var(s, t, 1, n, Dir::Both) });
                for excl in free.iter().filter(|m| **m != 0) { qs.push(Q { excl: *excl, ..var(s, t, 0, n, Dir::Out) }); }
            } else if light {
                qs.push(var(s, t, 1, n.min(3), Dir::Both));
            } else {
                qs.push(var(s, t, 0, n, Dir::Out));
                qs.push(var(s, t, 1, n, Dir::Both));
                qs.push(Q { et: Some(0), ..var(s, t, 2, n, Dir::In) });
            }
        }
    }
    if !light { qs.push(Q { s: n, ..var(0, 0, 0, 1, Dir::Out) }); qs.push(Q { t: n, ..var(0, 0, 0, 1, Dir::Out) }); }
    // find_all_weighted_paths (C18.weighted.all_optimal): every pair, weight properties w, w2 and (FULL) the absent property
    for s in 0..n { for t in 0..n { for prop in [0u8, 1, 3] { if full || prop < 3 { qs.push(Q { k: K::AllWeighted, s, t, prop, ..Q0 }); } } } }
    if !light { qs.push(Q { k: K::AllWeighted, s: n, t: 0, ..Q0 }); qs.push(Q { k: K::AllWeighted, s: 0, t: n, ..Q0 }); }
    qs
}

fn algo_queries(qs: &mut Vec<Q>) {
    qs.push(Q { k: K::Scc, ..Q0 });
    qs.push(Q { k: K::Mst, prop: 0, ..Q0 });
    qs.push(Q { k: K::Mst, prop: 2, ..Q0 });
    qs.push(Q { k: K::Mst, prop: 3, ..Q0 });
    qs.push(Q { k: K::Kcore, ..Q0 });
    qs.push(Q { k: K::Kcore, und: true, ..Q0 });
    qs.push(Q { k: K::Tri, und: true, ..Q0 });
    qs.push(Q { k: K::Tri, und: false, ..Q0 });
    qs.push(Q { k: K::Bicon, ..Q0 });
}

type Outcome = Vec<(&'static str, bool, Option<String>)>;

fn collect(g: &G, b: &Built, q: &Q) -> (bool, Outcome) {
    let mut results: Outcome = vec![];
    let nontrivial = eval(g, b, q, &mut |ob, ok, detail| results.push((ob, ok, if ok { None } else { Some(detail()) })));
    (nontrivial, results)
}

/// fresh engines tried when a failure has to be confirmed / replayed: the engine iterates its store in a per-instance
/// hash order (e.g. the DFS root of `biconnected_components`), so one fresh instance may or may not hit an order-dependent defect
const FRESH_TRIES: usize = 8;

fn fresh_failure(g: &G, q: &Q) -> Option<Outcome> {
    (0..FRESH_TRIES).map(|_| collect(g, &build(g), q).1).find(|r| r.iter().any(|x| !x.1))
}

/// One real execution of `q`.  `pooled` = the engine reached this graph through create_edge/delete_edge of earlier
/// graphs of the enumeration; a failure is then re-evaluated on freshly built engines so that the recorded case replays.
fn run_query(rep: &mut Report, g: &G, b: &Built, q: &Q, pooled: bool) {
    let (nontrivial, mut results) = collect(g, b, q);
    if results.is_empty() { return; }
    // (only while the failing obligation still records cases: the framework keeps the first 25)
    let recording = |rep: &Report, ob: &str| rep.obligations.get(ob).map_or(true, |o| o.failures.len() < 25);
    if pooled && results.iter().any(|r| !r.1 && recording(rep, r.0)) {
        if let Some(fresh) = fresh_failure(g, q) { results = fresh; } else {
            for r in &mut results { if let Some(d) = &mut r.2 { *d = format!("NOT reproduced on {FRESH_TRIES} freshly built identical graphs (depends on the create_edge/delete_edge history of the engine or on its hash iteration order; replay may say HOLDS): {d}"); } }
        }
    }
    rep.eval(nontrivial);
    for (ob, ok, detail) in results { rep.check(ob, ok, &|| case_json(g, q), &|| detail.clone().unwrap_or_default()); }
}

fn run_graph(rep: &mut Report, g: &G, b: &Built, level: Level, pooled: bool) {
    for q in &queries(g, level) { run_query(rep, g, b, q, pooled); }
    for q in &extra_queries(g, level) { run_query(rep, g, b, q, pooled); }
}

/// One engine reused along a depth-first enumeration: extending the graph = create_edge, backtracking = delete_edge.
/// The engine's current graph is always exactly `g`.
struct Pool { b: Built, g: G }

impl Pool {
    fn new(n: usize) -> Self { let g = G { n, es: vec![] }; Self { b: build(&g), g } }
    fn push(&mut self, o: (usize, usize, bool)) {
        let k = self.g.es.len() % 4;
        self.push_e(E { f: o.0, t: o.1, d: o.2, ty: POS_TY[k], w: POS_W[k], w2: POS_W2[k], wn: POS_WN[k] });
    }
    /// edge with an explicit type (the other attributes stay positional)
    fn push_typed(&mut self, o: (usize, usize, bool), ty: u8) {
        let k = self.g.es.len() % 4;
        self.push_e(E { f: o.0, t: o.1, d: o.2, ty, w: POS_W[k], w2: POS_W2[k], wn: POS_WN[k] });
    }
    fn push_e(&mut self, ed: E) {
        let mut p = HashMap::new();
        p.insert("w".to_string(), PropertyValue::Float(ed.w));
        p.insert("w2".to_string(), PropertyValue::Int(ed.w2));
        p.insert("wn".to_string(), PropertyValue::Float(ed.wn));
        p.insert("t".to_string(), PropertyValue::String(TYPES[ed.ty as usize].to_string()));
        let id = self.b.e.create_edge(self.b.nid[ed.f], self.b.nid[ed.t], TYPES[ed.ty as usize], p, ed.d).expect("create_edge");
        self.b.eid.push(id);
        self.g.es.push(ed);
    }
    fn pop(&mut self) {
        let id = self.b.eid.pop().expect("pop");
        self.b.e.delete_edge(id).expect("delete_edge");
        self.g.es.pop();
    }
}

/// all (from, to, directed) triples; `loops_and_mirrors = false` drops self-loops and the mirror (to,from) of undirected edges
fn edge_options(n: usize, loops_and_mirrors: bool) -> Vec<(usize, usize, bool)> {
    let mut v = vec![];
    for f in 0..n { for t in 0..n { for d in [true, false] { if loops_and_mirrors || (f != t && (d || f < t)) { v.push((f, t, d)); } } } }
    v
}

/// every ORDERED edge sequence with lo <= length <= hi (attributes by position => every placement of the attributes)
fn for_sequences(n: usize, lo: usize, hi: usize, f: &mut dyn FnMut(&G, &Built)) {
    fn rec(p: &mut Pool, opts: &[(usize, usize, bool)], lo: usize, hi: usize, f: &mut dyn FnMut(&G, &Built)) {
        if p.g.es.len() >= lo { f(&p.g, &p.b); }
        if p.g.es.len() == hi { return; }
        for o in opts { p.push(*o); rec(p, opts, lo, hi, f); p.pop(); }
    }
    rec(&mut Pool::new(n), &edge_options(n, true), lo, hi, f);
}

/// `for_sequences` over a given option list
fn for_sequences_of(n: usize, opts: &[(usize, usize, bool)], lo: usize, hi: usize, f: &mut dyn FnMut(&G, &Built)) {
    fn rec(p: &mut Pool, opts: &[(usize, usize, bool)], lo: usize, hi: usize, f: &mut dyn FnMut(&G, &Built)) {
        if p.g.es.len() >= lo { f(&p.g, &p.b); }
        if p.g.es.len() == hi { return; }
        for o in opts { p.push(*o); rec(p, opts, lo, hi, f); p.pop(); }
    }
    rec(&mut Pool::new(n), opts, lo, hi, f);
}

/// every edge MULTISET with lo <= size <= hi (non-decreasing option indices)
fn for_multisets(n: usize, opts: &[(usize, usize, bool)], lo: usize, hi: usize, f: &mut dyn FnMut(&G, &Built)) {
    fn rec(p: &mut Pool, opts: &[(usize, usize, bool)], lo: usize, hi: usize, from: usize, f: &mut dyn FnMut(&G, &Built)) {
        if p.g.es.len() >= lo { f(&p.g, &p.b); }
        if p.g.es.len() == hi { return; }
        for o in from..opts.len() { p.push(opts[o]); rec(p, opts, lo, hi, o, f); p.pop(); }
    }
    rec(&mut Pool::new(n), opts, lo, hi, 0, f);
}

fn random_graph(rng: &mut Rng, n: usize, m: usize) -> G {
    const W: [f64; 6] = [0.0, 0.5, 1.0, 2.5, 4.0, 1e9];
    const W2: [i64; 5] = [0, 1, 1, 3, 7];
    const WN: [f64; 5] = [-2.5, -1.0, 0.0, 1.0, 2.5];
    G { n, es: (0..m).map(|_| E { f: rng.below(n as u64) as usize, t: rng.below(n as u64) as usize, d: rng.below(2) == 0, ty: rng.below(2) as u8,
                                   w: W[rng.below(6) as usize], w2: W2[rng.below(5) as usize], wn: WN[rng.below(5) as usize] }).collect() }
}

/// query set for the sampled larger graphs: all pairs, every function, a few random filters
fn random_queries(g: &G, rng: &mut Rng) -> Vec<Q> {
    let n = g.n;
    let mut qs = vec![];
    let hop = n.min(4);
    for s in 0..n {
        for t in 0..n {
            let excl = if n <= 8 { (rng.below(1 << n) as u32 & !(1 << s) & !(1 << t) & 0xff) as u8 } else { 0 };
            qs.push(Q { k: K::Path, s, t, ..Q0 });
            qs.push(Q { k: K::Path, s, t, et: Some(rng.below(2) as u8), excl, ..Q0 });
            for prop in 0..4 { qs.push(Q { k: K::Weighted, s, t, prop, ..Q0 }); }
            qs.push(Q { k: K::AllPaths, s, t, ..Q0 });
            qs.push(Q { k: K::Var, s, t, min: rng.below(3) as usize, max: hop, ..Q0 });
            qs.push(Q { k: K::Var, s, t, min: 1, max: 3, dir: Dir::Both, ty: Some(rng.below(2) as u8), ..Q0 });
            qs.push(Q { k: K::Var, s, t, min: 0, max: 3, dir: Dir::In, et: Some(0), excl, ..Q0 });
            qs.push(Q { k: K::Astar, s, t, prop: rng.below(2) as u8, ..Q0 });
            qs.push(Q { k: K::Astar, s, t, prop: 3, dir: Dir::Both, ..Q0 });
            qs.push(Q { k: K::Var, s, t, min: 1, max: 3, cyc: true, ..Q0 });
            qs.push(Q { k: K::Path, s, t, et: Some(1), ..Q0 });
        }
        for dir in [Dir::Out, Dir::In, Dir::Both] { qs.push(Q { k: K::Trav, s, max: rng.below(5) as usize, dir, ..Q0 }); }
        qs.push(Q { k: K::Trav, s, max: 3, ty: Some(0), ..Q0 });
        if n <= 8 { qs.push(Q { k: K::Trav, s, max: 2, dir: Dir::Both, excl: (rng.below(1 << n) as u32 & !(1 << s) & 0xff) as u8, ..Q0 }); }
    }
    algo_queries(&mut qs);
    qs
}

// ---------------------------------------------------------------- added families (filtered find_path, cycles)

/// F-filter (C18.path.valid / C18.path.optimal): graphs whose edge TYPES are enumerated explicitly (not by position), so that
/// every placement of accepted / rejected edges occurs, in every creation order:
///  (a) every ordered sequence of <= 3 typed non-loop edges on 3 nodes (18 options: 9 (from, to, directed) x type A/B), find_path
///      with the edge filter t == "A" for every (s, t) (<= 2 edges: and every node-filter mask that keeps s and t);
///  (b) 4 nodes: A -closed-> C, A -open-> B -open-> C -open-> D (the shortest qualifying path to C and D enters C through the
///      later, accepted edge, C is first seen through the rejected one), every creation order x every directed/undirected
///      choice; (c) the same with a rejected edge parallel to A -open-> B, every creation order.  Filter t == "B", all (s, t).
fn family_filtered(rep: &mut Report) {
    let opts = edge_options(3, false);
    fn rec(p: &mut Pool, opts: &[(usize, usize, bool)], rep: &mut Report) {
        let n = p.g.n;
        for s in 0..n { for t in 0..n { for excl in 0..(if p.g.es.len() < 3 { 1u8 << n } else { 1 }) {
            if excluded(excl, s) || excluded(excl, t) { continue; }
            run_query(rep, &p.g, &p.b, &Q { k: K::Path, s, t, et: Some(0), excl, ..Q0 }, true);
        } } }
        if p.g.es.len() == 3 { return; }
        for o in opts { for ty in 0..2 { p.push_typed(*o, ty); rec(p, opts, rep); p.pop(); } }
    }
    rec(&mut Pool::new(3), &opts, rep);
    // (b), (c)
    let base: [((usize, usize), u8); 5] = [((0, 2), 0), ((0, 1), 1), ((1, 2), 1), ((2, 3), 1), ((0, 1), 0)];
    fn perms(k: usize, cur: &mut Vec<usize>, out: &mut Vec<Vec<usize>>) {
        if cur.len() == k { out.push(cur.clone()); return; }
        for i in 0..k { if !cur.contains(&i) { cur.push(i); perms(k, cur, out); cur.pop(); } }
    }
    for k in [4usize, 5] {
        let mut orders = vec![];
        perms(k, &mut vec![], &mut orders);
        for order in &orders { for und in 0..(if k == 4 { 16u32 } else { 1 }) {
            let mut p = Pool::new(4);
            for &i in order { let ((f, t), ty) = base[i]; p.push_typed((f, t, und >> i & 1 == 0), ty); }
            for s in 0..4 { for t in 0..4 { run_query(rep, &p.g, &p.b, &Q { k: K::Path, s, t, et: Some(1), ..Q0 }, false); } }
        } }
    }
}

/// F-cycle (C18.varpaths.cycles, and C18.variable on the same graphs): 4 nodes, the path 0 -> 1 -> 2 plus every subset of
/// <= 3 of 11 decorations that put cycles through node 2 (back edge 2 -> 1, self-loops on 2 (directed and undirected), an
/// undirected and a directed parallel edge 1 -- 2 / 1 -> 2, the directed cycle 2 -> 3 -> 1 / 2 -> 3 -> 2, an undirected edge
/// 2 -- 3, a chord 0 -> 2, a self-loop on the source); every (s, t); allow_cycles in {true, false};
/// Outgoing with hops (1,4), (0,3), (2,4), (3,3); Incoming (1,3); Both (1,3), (2,3); edge type A only; edge filter t == "B" with node 3 excluded.
fn family_cycles(rep: &mut Report) {
    let deco: [(usize, usize, bool); 11] = [(2, 1, true), (2, 2, true), (1, 2, false), (1, 2, true), (2, 3, true), (3, 2, true), (3, 1, true), (0, 2, true),
                                            (2, 3, false), (0, 0, true), (2, 2, false)];
    let mut subsets: Vec<Vec<usize>> = vec![vec![]];
    for a in 0..deco.len() { subsets.push(vec![a]); for b in a + 1..deco.len() { subsets.push(vec![a, b]); for c in b + 1..deco.len() { subsets.push(vec![a, b, c]); } } }
    for sub in &subsets {
        let mut p = Pool::new(4);
        p.push((0, 1, true));
        p.push((1, 2, true));
        for &i in sub { p.push(deco[i]); }
        for s in 0..4 { for t in 0..4 { for cyc in [true, false] {
            let v = |min: usize, max: usize, dir: Dir| Q { k: K::Var, s, t, min, max, dir, cyc, ..Q0 };
            let qs = [v(1, 4, Dir::Out), v(0, 3, Dir::Out), v(2, 4, Dir::Out), v(3, 3, Dir::Out), v(1, 3, Dir::In), v(1, 3, Dir::Both), v(2, 3, Dir::Both),
                      Q { ty: Some(0), ..v(1, 4, Dir::Out) }, Q { et: Some(1), excl: 8, ..v(1, 3, Dir::Both) }];
            for q in &qs { run_query(rep, &p.g, &p.b, q, false); }
        } } }
    }
}


// ---------------------------------------------------------------- added families: all minimum-weight paths, variable-length patterns

/// F-improve (C18.weighted.all_optimal): 4 nodes, 7 edge slots 0->3, 0->1, 0->2, 1->2, 1->3, 2->3 and a second (parallel) 1->3,
/// every slot absent or present with weight 0 / 1 / 2 (w Float and w2 Int carry the same weight): direct heavy edges next to
/// lighter two- and three-hop routes, diamonds, equal-weight ties, zero weights, parallel edges of different weight.  Four
/// variants: slots created in the listed order / in reverse order (the heavy direct edge is relaxed first / last), all edges
/// directed (queries on w) / slots 0, 2, 4, 6 undirected (queries on w2).  Queries (0,3), (0,2), (1,3) and, with undirected
/// edges, (3,0).
fn family_improve(rep: &mut Report) -> usize {
    const SLOTS: [(usize, usize); 7] = [(0, 3), (0, 1), (0, 2), (1, 2), (1, 3), (2, 3), (1, 3)];
    fn rec(p: &mut Pool, order: &[usize], at: usize, mixed: bool, prop: u8, rep: &mut Report, graphs: &mut usize) {
        if at == order.len() {
            *graphs += 1;
            for (s, t) in [(0, 3), (0, 2), (1, 3), (3, 0)] { if mixed || s < t { run_query(rep, &p.g, &p.b, &Q { k: K::AllWeighted, s, t, prop, ..Q0 }, true); } }
            return;
        }
        rec(p, order, at + 1, mixed, prop, rep, graphs);
        let slot = order[at];
        for w in 0..3i64 {
            let k = p.g.es.len() % 4;
            p.push_e(E { f: SLOTS[slot].0, t: SLOTS[slot].1, d: !(mixed && slot % 2 == 0), ty: POS_TY[k], w: w as f64, w2: w, wn: POS_WN[k] });
            rec(p, order, at + 1, mixed, prop, rep, graphs);
            p.pop();
        }
    }
    let fwd: Vec<usize> = (0..SLOTS.len()).collect();
    let rev: Vec<usize> = fwd.iter().rev().copied().collect();
    let mut graphs = 0;
    for order in [&fwd, &rev] { for mixed in [false, true] { rec(&mut Pool::new(4), order, 0, mixed, u8::from(mixed), rep, &mut graphs); } }
    graphs
}

/// pattern queries of one graph (`any` bit 3 = only match_pattern is called, otherwise also count_pattern_matches and
/// pattern_exists).  Every hop range 1..=3 x 1..=3 (also min > max) with unconstrained start and end (candidates by scan /
/// by label alternately); given start with free end; given (start, end) pairs; edge type A; min 0; Incoming / Both
/// (C18.pattern.variable.directions).  `full`: all three calls for every query but the given-start ones, every (start, end)
/// pair x 3 ranges.
fn pattern_queries(n: usize, full: bool) -> Vec<Q> {
    let mut qs = vec![];
    let only = if full { 0 } else { 8 };
    let pq = |s: usize, t: usize, min: usize, max: usize, dir: Dir, any: u8| Q { k: K::Pattern, s, t, min, max, dir, any, ..Q0 };
    for min in 1..=3 { for max in 1..=3 {
        let three = full || (min, max) == (1, 3) || (min, max) == (2, 2);
        qs.push(pq(0, 0, min, max, Dir::Out, if (min + max) % 2 == 0 { 3 } else { 7 } | if three { 0 } else { 8 }));
        if full || (min, max) == (2, 3) { qs.push(pq((min + max) % n, 0, min, max, Dir::Out, 2 | 8)); }
    } }
    if full { for s in 0..n { for t in 0..n { for (min, max) in [(1, 3), (2, 2), (2, 3)] { qs.push(pq(s, t, min, max, Dir::Out, 0)); } } } }
    else { for t in 0..n { qs.push(pq(0, t, 1, 3, Dir::Out, 0)); } }
    qs.push(Q { ty: Some(0), ..pq(0, 0, 1, 3, Dir::Out, 3 | only) });
    qs.push(pq(0, 0, 0, 2, Dir::Out, 3 | only));
    for (min, max) in [(1, 1), (1, 3), (2, 2)] {
        if full || min != 1 || max != 1 { qs.push(pq(0, 0, min, max, Dir::In, 3 | if min == max { only } else { 0 })); }
        if full || min != 2 { qs.push(pq(0, 0, min, max, Dir::Both, 3 | if min == max { only } else { 0 })); }
    }
    qs
}

/// F-pattern (C18.pattern.variable): match_pattern / count_pattern_matches / pattern_exists with one variable-length edge on
///  (a) every ordered sequence of <= 3 edges on 3 nodes (directed self-loops, parallel edges, directed edges and undirected edges
///      in both creation orientations: 15 options per edge; <= 2 edges: the full query set, 3 edges: the reduced one);
///  (b) every multiset of <= 3 non-loop edges on 4 nodes (18 options);
///  (c) 5 nodes: a root with three children 0->1, 0->2, 0->3 created in every order, every subset of the six directed
///      sibling-to-sibling edges (a->b, a->c, c->b, ...), and the tails {}, {3->4}, {1->4, 2->4, 3->4, 4->0}.
fn family_patterns(rep: &mut Report) -> (usize, usize, usize) {
    let (mut n3, mut n4, mut n5) = (0, 0, 0);
    let (q3f, q3) = (pattern_queries(3, true), pattern_queries(3, false));
    let o3: Vec<(usize, usize, bool)> = edge_options(3, true).into_iter().filter(|o| o.2 || o.0 != o.1).collect();
    for_sequences_of(3, &o3, 0, 3, &mut |g, b| { n3 += 1; for q in if g.es.len() <= 2 { &q3f } else { &q3 } { run_query(rep, g, b, q, true); } });
    let q4 = pattern_queries(4, false);
    for_multisets(4, &edge_options(4, false), 0, 3, &mut |g, b| { n4 += 1; for q in &q4 { run_query(rep, g, b, q, true); } });
    let q5 = pattern_queries(5, false);
    let sib: [(usize, usize); 6] = [(1, 2), (2, 1), (1, 3), (3, 1), (2, 3), (3, 2)];
    let tails: [&[(usize, usize)]; 3] = [&[], &[(3, 4)], &[(1, 4), (2, 4), (3, 4), (4, 0)]];
    for order in [[1usize, 2, 3], [1, 3, 2], [2, 1, 3], [2, 3, 1], [3, 1, 2], [3, 2, 1]] {
        let mut p = Pool::new(5);
        for c in order { p.push((0, c, true)); }
        for mask in 0u32..64 { for tail in tails {
            let before = p.g.es.len();
            for (i, (f, t)) in sib.iter().enumerate() { if mask >> i & 1 == 1 { p.push((*f, *t, true)); } }
            for (f, t) in tail { p.push((*f, *t, true)); }
            n5 += 1;
            for q in &q5 { run_query(rep, &p.g, &p.b, q, true); }
            while p.g.es.len() > before { p.pop(); }
        } }
    }
    (n3, n4, n5)
}

// ---------------------------------------------------------------- added family: components / spanning forests on 6..=24 nodes

/// a small tree given by its edges in creation order (local node numbers)
struct Part { size: usize, es: Vec<(usize, usize)> }

fn parts_all() -> Vec<Part> {
    let p = |size: usize, es: &[(usize, usize)]| Part { size, es: es.to_vec() };
    vec![p(1, &[]), p(2, &[(0, 1)]), p(3, &[(0, 1), (1, 2)]), p(3, &[(1, 2), (0, 1)]), p(4, &[(0, 1), (1, 2), (2, 3)]),
         p(4, &[(0, 1), (2, 3), (1, 3)]), p(4, &[(0, 1), (0, 2), (0, 3)]), p(4, &[(1, 0), (2, 0), (3, 0)]),
         p(8, &[(0, 1), (2, 3), (4, 5), (6, 7), (1, 3), (5, 7), (3, 7)])]
}

/// graph under construction: edge #k gets type A,B,A,B by position, w = k/2 (increasing in creation order), w2 = 64 - k
/// (decreasing), wn = (7k mod 11) - 3 (shuffled, with ties and negative values)
struct GB { g: G }
impl GB {
    fn new() -> Self { Self { g: G { n: 0, es: vec![] } } }
    fn edge(&mut self, f: usize, t: usize, d: bool) {
        let k = self.g.es.len();
        self.g.es.push(E { f, t, d, ty: POS_TY[k % 4], w: k as f64 * 0.5, w2: 64 - k as i64, wn: ((k * 7) % 11) as f64 - 3.0 });
    }
    /// adds the part (internal edges undirected / directed alternately) and returns its node offset
    fn part(&mut self, p: &Part) -> usize {
        let off = self.g.n;
        self.g.n += p.size;
        for (i, (f, t)) in p.es.iter().enumerate() { self.edge(off + f, off + t, i % 2 == 1); }
        off
    }
    fn isolated(&mut self, k: usize) { self.g.n += k; }
}

fn component_queries(full: bool) -> Vec<Q> {
    let mut qs = vec![Q { k: K::Comp, ..Q0 }, Q { k: K::Comp, ty: Some(0), ..Q0 }, Q { k: K::MstForest, prop: 0, ..Q0 }, Q { k: K::MstForest, prop: 1, ..Q0 }];
    if full { qs.extend([Q { k: K::Comp, ty: Some(1), ..Q0 }, Q { k: K::SccPart, ..Q0 }, Q { k: K::MstForest, prop: 2, ..Q0 }, Q { k: K::MstForest, prop: 3, ..Q0 }]); }
    qs
}

/// C18.components.partition / C18.mst.forest on graphs of 6..=24 nodes (see the module doc).  Returns the number of graphs per family.
fn family_components(rep: &mut Report, seed: u64, randoms: usize) -> (usize, usize, usize) {
    let parts = parts_all();
    let run = |rep: &mut Report, g: &G, full: bool| {
        let b = build(g);
        for q in &component_queries(full) { run_query(rep, g, &b, q, false); }
    };
    // (1) two trees joined by one edge: every ordered pair of parts, every endpoint in each, both orientations of the joining
    //     edge (created last); a separate pair and isolated nodes (>= 1, up to 6 nodes in total) make the partition non-trivial
    let mut n1 = 0;
    for a in &parts { for c in &parts { for x in 0..a.size { for y in 0..c.size { for flip in [false, true] {
        let mut gb = GB::new();
        let (oa, oc) = (gb.part(a), gb.part(c));
        gb.part(&parts[1]);
        let used = gb.g.n;
        gb.isolated(if used >= 5 { 1 } else { 6 - used });
        let (f, t) = if flip { (oc + y, oa + x) } else { (oa + x, oc + y) };
        gb.edge(f, t, (x + y) % 2 == 0);
        run(rep, &gb.g, true);
        n1 += 1;
    } } } } }
    // (2) four trees (pair, path, star) joined pairwise (last node to last node), the two results joined again: every endpoint
    //     on each side, both orientations; one isolated node.  (d, e | a, c) repeats the shapes of (a, c | d, e) with the two sides
    //     exchanged (the outer edge is tried in both orientations anyway): only (a, c) <= (d, e) is built
    let small = [&parts[1], &parts[2], &parts[7]];
    let mut n2 = 0;
    for (ia, a) in small.into_iter().enumerate() { for (ic, c) in small.into_iter().enumerate() { for (id, d) in small.into_iter().enumerate() { for (ie, e) in small.into_iter().enumerate() {
        if (ia, ic) > (id, ie) { continue; }
        let left = a.size + c.size;
        for x in 0..left { for y in 0..d.size + e.size { for flip in [false, true] {
            let mut gb = GB::new();
            let (oa, oc, od, oe) = (gb.part(a), gb.part(c), gb.part(d), gb.part(e));
            gb.isolated(1);
            gb.edge(oa + a.size - 1, oc + c.size - 1, false);
            gb.edge(oe + e.size - 1, od + d.size - 1, true);
            let (f, t) = if flip { (left + y, x) } else { (x, left + y) };
            gb.edge(f, t, (x + y) % 2 == 1);
            run(rep, &gb.g, false);
            n2 += 1;
        } } }
    } } } }
    // (3) seeded random multigraphs: 6..=24 nodes, endpoints drawn from a random subset of the nodes (the others stay isolated),
    //     self-loops, parallel edges, directed and undirected edges mixed
    let mut rng = Rng(seed ^ 0xC18_C0);
    for _ in 0..randoms {
        let n = 6 + rng.below(19) as usize;
        let live = 2 + rng.below(n as u64 - 1) as usize;
        let m = rng.below(live as u64 * 3 / 2 + 2) as usize;
        let mut g = random_graph(&mut rng, live, m);
        g.n = n;
        // spread the live nodes over 0..n
        let stride = [1usize, 5, 7, 11, 13][rng.below(5) as usize];
        let stride = if gcd(stride, n) == 1 { stride } else { 1 };
        for e in &mut g.es { e.f = e.f * stride % n; e.t = e.t * stride % n; }
        run(rep, &g, true);
    }
    (n1, n2, randoms)
}

fn gcd(a: usize, b: usize) -> usize { if b == 0 { a } else { gcd(b, a % b) } }

const OBLIGATIONS: [(&str, &str); 22] = [
    ("C18.components.partition", "GraphEngine::connected_components, strongly_connected_components (graphs of 6..=24 nodes)"),
    ("C18.mst.forest", "GraphEngine::minimum_spanning_tree, minimum_spanning_forest (graphs of 6..=24 nodes)"),
    ("C18.varpaths.cycles", "GraphEngine::find_variable_paths with VariableLengthConfig::allow_cycles(true)"),
    ("C18.varpaths.cycles.unique", "GraphEngine::find_variable_paths with VariableLengthConfig::allow_cycles(true)"),
    ("C18.path.valid", "GraphEngine::find_path"), ("C18.path.optimal", "GraphEngine::find_path"),
    ("C18.weighted.valid", "GraphEngine::find_weighted_path"), ("C18.weighted.optimal", "GraphEngine::find_weighted_path"),
    ("C18.weighted.negative", "GraphEngine::find_weighted_path"),
    ("C18.all_paths", "GraphEngine::find_all_paths"), ("C18.variable", "GraphEngine::find_variable_paths"), ("C18.traverse", "GraphEngine::traverse"),
    ("C18.algos.scc", "GraphEngine::strongly_connected_components"), ("C18.algos.mst", "GraphEngine::minimum_spanning_tree"),
    ("C18.algos.kcore", "GraphEngine::kcore_decomposition"), ("C18.algos.triangles", "GraphEngine::count_triangles"),
    ("C18.algos.biconnected", "GraphEngine::biconnected_components"), ("C18.algos.astar", "GraphEngine::astar_path"),
    ("C18.weighted.all_optimal", "GraphEngine::find_all_weighted_paths"),
    ("C18.weighted.all_optimal.unique", "GraphEngine::find_all_weighted_paths on graphs with an undirected edge: no path is returned twice"),
    ("C18.pattern.variable", "GraphEngine::{match_pattern,count_pattern_matches,pattern_exists} with a variable-length edge"),
    ("C18.pattern.variable.directions", "GraphEngine::{match_pattern,count_pattern_matches,pattern_exists} with a variable-length edge, Direction::Incoming / Both, two edges between the same two nodes"),
];

const ADDED: &str = "On every enumerated graph additionally: find_path with edge filter t==B (first created edge rejected) and find_variable_paths with \
    allow_cycles(true) compared with the brute-force set of ALL walks within the hop bounds (FULL: every hop pair Outgoing, 3 pairs Incoming/Both, type / edge / node filters; \
    REDUCED: 3 queries; LIGHT: 1). F-filter: every ordered sequence of <= 3 TYPED non-loop edges on 3 nodes (18 options), find_path with edge filter t==A, all pairs (<= 2 edges: all \
    node masks); 4 nodes A-closed->C, A-open->B-open->C-open->D in all 24 creation orders x 16 directed/undirected choices, and with a rejected edge parallel to A->B in all 120 orders. \
    F-cycle: 4 nodes, path 0->1->2 plus every subset of <= 3 of 11 decorations (back edge, directed/undirected self-loops on the target, parallel and undirected edges at the target, \
    directed cycles 2->3->1 / 2->3->2, chord, self-loop on the source): 232 graphs x 16 pairs x allow_cycles in {true,false} x 9 hop/direction/filter combinations";

const COMMON: &str = "multigraphs with edge = (from, to, directed|undirected) incl. self-loops and parallel edges; attributes by position: type A,B,A,B; w 0,1,2.5,4; \
    w2 (Int) 1,1,0,3; wn -1,1,0,2.5; every (start,end) pair plus a missing node id; query sets FULL = every node-filter mask x edge filter none/A, every hop pair 0<=min<=max<=n, \
    3 directions, traverse depth 0..=n; REDUCED = every function/direction/filter kind with fewer combinations; LIGHT = unfiltered core of every function";

pub fn run(tier: Tier, seed: u64) -> Report {
    let thorough = tier == Tier::Thorough;
    let domain = if thorough {
        format!("{COMMON}. Exhaustive: all ORDERED edge sequences of <= 3 edges on 1..=3 nodes (FULL) and on 4 nodes (REDUCED); all edge multisets of 4 edges on 3 nodes (LIGHT) \
                 and on 4 nodes (REDUCED). {ADDED}. Not exhaustive: 400 seeded random graphs with 5..=10 nodes, <= 14 edges, random attributes incl. weight 1e9, all pairs")
    } else {
        format!("{COMMON}. Exhaustive: all ORDERED edge sequences on 1..=3 nodes with <= 2 edges (FULL) and with 3 edges (REDUCED); all edge multisets of 4 edges on 3 nodes (LIGHT); \
                 whole-graph algorithms additionally on all multisets of <= 4 non-loop edges on 4 nodes. {ADDED}")
    };
    let mut rep = Report::new("c18_paths", &domain, true,
        &["graph_engine::GraphEngine::find_path", "find_weighted_path", "find_all_paths", "find_variable_paths", "traverse", "strongly_connected_components",
          "minimum_spanning_tree", "kcore_decomposition", "count_triangles", "biconnected_components", "astar_path", "connected_components", "minimum_spanning_forest",
          "find_all_weighted_paths", "match_pattern", "count_pattern_matches", "pattern_exists"]);
    for (o, f) in OBLIGATIONS { rep.declare(o, f); }
    // no files are created by this set (in-memory engines only), so there is no tmpdir to remove
    let full_upto = if thorough { 3 } else { 2 };
    for n in 1..=3 {
        for_sequences(n, 0, full_upto, &mut |g, b| run_graph(&mut rep, g, b, Level::Full, true));
        if !thorough { for_sequences(n, 3, 3, &mut |g, b| run_graph(&mut rep, g, b, Level::Reduced, true)); }
    }
    for_multisets(3, &edge_options(3, true), 4, 4, &mut |g, b| run_graph(&mut rep, g, b, Level::Light, true));
    if thorough {
        for_sequences(4, 0, 3, &mut |g, b| run_graph(&mut rep, g, b, Level::Reduced, true));
        for_multisets(4, &edge_options(4, true), 4, 4, &mut |g, b| run_graph(&mut rep, g, b, Level::Reduced, true));
        let mut rng = Rng(seed ^ 0xC18);
        for _ in 0..400 {
            let n = 5 + rng.below(6) as usize;
            let m = rng.below(15) as usize;
            let g = random_graph(&mut rng, n, m);
            let b = build(&g);
            for q in random_queries(&g, &mut rng) { run_query(&mut rep, &g, &b, &q, false); }
        }
    } else {
        for_multisets(4, &edge_options(4, false), 0, 4, &mut |g, b| run_graph(&mut rep, g, b, Level::AlgosOnly, true));
    }
    family_filtered(&mut rep);
    family_cycles(&mut rep);
    let gi = family_improve(&mut rep);
    let (p3, p4, p5) = family_patterns(&mut rep);
    rep.domain.push_str(&format!(". find_all_weighted_paths (w, w2, absent property) for every pair of every enumerated graph, and on {gi} four-node graphs (7 edge slots incl. a direct \
        0->3 edge and a parallel 1->3 edge, each absent or of weight 0/1/2, slots created in both orders, all directed / every other slot undirected), compared with the exhaustively enumerated set \
        of minimum-weight walks (only when that set is finite). Variable-length patterns (match_pattern, count_pattern_matches, pattern_exists; every hop range 1..=3 x 1..=3 with free and \
        given endpoints, edge type, min 0, Incoming / Both) on {p3} ordered edge sequences of <= 3 edges on 3 nodes (15 edge options), {p4} multisets of <= 3 non-loop edges on 4 nodes and {p5} five-node \
        root-with-three-children graphs with every subset of sibling-to-sibling edges, compared with the brute-force set of simple paths"));
    let (n1, n2, n3) = family_components(&mut rep, seed, if thorough { 3000 } else { 300 });
    rep.domain.push_str(&format!(". Components / spanning forests on 6..=24 nodes (connected_components with and without edge type, SCC partition, minimum_spanning_tree / \
        minimum_spanning_forest on w, w2, wn and a missing property): {n1} forests of two trees (9 shapes: single, pair, 2 paths of 3, path of 4, balanced pair of pairs, 2 stars, balanced 8) \
        joined through every endpoint pair in both orientations; {n2} forests of four trees (pair, path, star) joined pairwise and again through every endpoint pair in both orientations; \
        {n3} seeded random multigraphs with self-loops, parallel edges, mixed directed/undirected edges and isolated nodes (not exhaustive)"));
    let sample = G { n: 3, es: vec![E { f: 0, t: 1, d: true, ty: 0, w: 0.0, w2: 1, wn: -1.0 }, E { f: 2, t: 1, d: false, ty: 1, w: 1.0, w2: 1, wn: 1.0 }] };
    rep.sample(case_json(&sample, &Q { k: K::Path, s: 1, t: 0, ..Q0 }));
    rep.sample(case_json(&sample, &Q { k: K::Var, s: 0, t: 2, min: 1, max: 3, dir: Dir::Both, ..Q0 }));
    rep.sample(case_json(&sample, &Q { k: K::Weighted, s: 0, t: 2, prop: 0, ..Q0 }));
    rep
}

pub fn replay(ob: &str, case: &Value) -> Result<String, String> {
    let (g, q) = parse_case(case)?;
    let big = matches!(q.k, K::Comp | K::SccPart | K::MstForest) && g.n <= 32 && g.es.len() <= 64;
    if g.n == 0 || g.n > 8 && q.excl != 0 || !big && (g.n > 16 || g.es.len() > 16) { return Err("case outside the supported size (1..=16 nodes, <= 16 edges, node filter only up to 8 nodes; components / scc_partition / mst_forest: <= 32 nodes, <= 64 edges)".into()); }
    // several fresh engines: see FRESH_TRIES
    let mut seen = 0;
    let mut fail: Option<String> = None;
    for _ in 0..FRESH_TRIES {
        let b = build(&g);
        eval(&g, &b, &q, &mut |o, ok, detail| {
            if o == ob { seen += 1; if !ok && fail.is_none() { fail = Some(detail()); } }
        });
        if fail.is_some() || seen == 0 { break; }
    }
    match (seen, fail) {
        (_, Some(d)) => Err(d),
        (0, None) => Ok(format!("precondition of {ob} does not hold for this case (clause not applicable)")),
        _ => Ok(format!("{ob} holds for {} on this graph ({FRESH_TRIES} fresh engines)", k_name(q.k))),
    }
}
