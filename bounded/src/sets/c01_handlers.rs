//! C01 (bounded): per-handler Raft obligations on the real `tensor_chain::RaftNode`, driven only through its public
//! API.  Pre-state = `RaftNode::with_state(..)` (+ one heartbeat to set the commit index, + `become_leader()` /
//! `start_election()` for the leader / candidate roles); every enumerated message is ONE `handle_message` call; the
//! post-state is read back through `save_to_store` + `load_from_store` (term, vote, whole log), `commit_index()`,
//! `state()`, `last_log_index()/last_log_term()`.
//!
//! Obligations (clauses from the property / the Raft paper, not from the code):
//! * C01.vote.once      granted => rv.term >= term0, term' = rv.term, (rv.term > term0 or vote0 in {None, cand}), vote' = cand;
//!                      a vote cast in the current term is never replaced (also across two successive requests: after
//!                      the first call a second candidate with the best possible log is never granted in the same term);
//!                      not granted => vote' = (None if the term grew else vote0); log and commit index untouched; response term = term'.
//! * C01.vote.uptodate  granted => (rv.last_log_term, rv.last_log_index) >=lex (own last term, own last index).
//! * C01.term.monotone  every handler: term' >= term0; term' > term0 => role' = Follower and vote' is None or the just-granted candidate.
//! * C01.ae.reject_stale ae.term < term0 => success = false and term, vote, log, commit unchanged.
//! * C01.ae.consistency success => own log had prev_log_term at prev_log_index (or prev = 0); log'[..=prev] unchanged; every sent
//!                      entry is at its index; entries beyond the sent ones are kept iff no sent entry conflicted (and then
//!                      all of them are kept); indices are position-consistent; !success => log unchanged.
//! * C01.ae.ack_bound   success => match_index = prev_log_index + entries.len().
//! * C01.ae.commit_bound commit' >= commit0; success => commit' = max(commit0, min(leader_commit, prev + entries.len())); !success => commit' = commit0.
//! * C01.commit.rule    leader + AppendEntriesResponse sequences: commit' >= commit0; commit' > commit0 => the node is leader,
//!                      log[commit'].term = current term and a majority (leader included) acknowledged an index >= commit'
//!                      (per follower: the maximum match_index over all successful responses delivered so far); log untouched.
//! * C01.history.delayed_ack / C01.history.delayed_snapshot  whole histories on five / three real nodes with hand-delivered messages in
//!                      which the network DELAYS an AppendEntriesResponse across two leadership changes, or a snapshot answer while the
//!                      follower catches up: no two nodes report different entries committed at one position, a committed position is on
//!                      a majority of the logs, every later leader's log holds every entry reported committed.
//! * C01.leader.quorum  candidate + RequestVoteResponse sequences: Candidate -> Leader only when a majority (self included) of
//!                      DISTINCT members granted a vote carrying the candidate's current term.
use crate::fw::{Report, Rng, Tier};
use serde_json::{json, Value};
use std::collections::{BTreeMap, BTreeSet};
use std::sync::Arc;
use tensor_chain::{AppendEntries, AppendEntriesResponse, Block, LogEntry, MemoryTransport, Message, PreVote, RaftConfig, RaftNode, RaftState, RequestVote, RequestVoteResponse, TimeoutNow};
use tensor_store::{SparseVector, TensorStore};

const NAMES: [&str; 5] = ["a", "b", "c", "d", "e"];

/// role: 0 follower, 1 leader (`become_leader`), 2 candidate (`start_election`, which moves to term+1 and votes for self).
/// cfg bits: 1 pre-vote, 2 fast-path, 4 geometric tie-break (7 = defaults).  emb: 1 = local state embedding [1,0,0].
#[derive(Clone, Debug, PartialEq)]
struct Pre { n: usize, term: u64, voted: Option<String>, log: Vec<u64>, commit: u64, role: u8, cfg: u8, emb: u8 }

#[derive(Clone, Debug, PartialEq)]
enum Msg {
    Rv { term: u64, cand: String, lli: u64, llt: u64, emb: u8 },
    Ae { term: u64, leader: String, prev_i: u64, prev_t: u64, entries: Vec<u64>, commit: u64, emb: bool },
    Aer { from: String, term: u64, success: bool, mi: u64 },
    Rvr { from: String, term: u64, granted: bool },
    Pv { term: u64, cand: String, lli: u64, llt: u64 },
    Tn { from: String, term: u64 },
}

/// `vk` = the vote was observed (full observation through the store); the light observation reads the log through
/// `get_entries_for_follower` of an unknown follower (next index 1 = the whole log) and leaves the vote unobserved.
#[derive(Clone, Debug, PartialEq)]
struct Obs { term: u64, voted: Option<String>, vk: bool, log: Vec<(u64, u64)>, commit: u64, role: RaftState, lli: u64, llt: u64 }

fn emb_vec(k: u8) -> SparseVector {
    match k { 1 => SparseVector::from_dense(&[1.0, 0.0, 0.0]), 2 => SparseVector::from_dense(&[-1.0, 0.0, 0.0]), _ => SparseVector::new(0) }
}

fn entries_at(start: u64, terms: &[u64]) -> Vec<LogEntry> {
    terms.iter().enumerate().map(|(k, t)| LogEntry::new(*t, start.wrapping_add(k as u64), Block::default())).collect()
}

impl Pre {
    fn json(&self) -> Value { json!({"n": self.n, "term": self.term, "voted": self.voted, "log": self.log, "commit": self.commit, "role": self.role, "cfg": self.cfg, "emb": self.emb}) }
    fn from_json(v: &Value) -> Option<Self> {
        Some(Self { n: v["n"].as_u64()? as usize, term: v["term"].as_u64()?, voted: v["voted"].as_str().map(String::from),
                    log: v["log"].as_array()?.iter().map(Value::as_u64).collect::<Option<Vec<_>>>()?, commit: v["commit"].as_u64()?,
                    role: v["role"].as_u64()? as u8, cfg: v["cfg"].as_u64()? as u8, emb: v["emb"].as_u64()? as u8 })
    }
    /// Err = this pre-state cannot be produced through the public API (the case is skipped, never counted).
    fn build(&self) -> Result<RaftNode, String> {
        let cfg = RaftConfig { enable_pre_vote: self.cfg & 1 != 0, enable_fast_path: self.cfg & 2 != 0, enable_geometric_tiebreak: self.cfg & 4 != 0, auto_heartbeat: false, ..RaftConfig::default() };
        let peers: Vec<String> = NAMES[1..self.n].iter().map(|s| (*s).to_string()).collect();
        let node = RaftNode::with_state("a".to_string(), peers, Arc::new(MemoryTransport::new("a".to_string())), cfg, self.term, self.voted.clone(), entries_at(1, &self.log));
        if self.emb == 1 { node.update_state_embedding_dense(&[1.0, 0.0, 0.0]); }
        if self.commit > 0 {
            // one heartbeat of the current-term leader that has exactly our log: the only public way to a commit index > 0 on a follower
            let hb = Message::AppendEntries(AppendEntries { term: self.term, leader_id: "b".into(), prev_log_index: self.log.len() as u64, prev_log_term: self.log.last().copied().unwrap_or(0),
                                                            entries: vec![], leader_commit: self.commit, block_embedding: None });
            let _ = node.handle_message(&"b".to_string(), &hb);
            if node.commit_index() != self.commit { return Err(format!("setup heartbeat gave commit {} instead of {}", node.commit_index(), self.commit)); }
        }
        match self.role { 1 => node.become_leader(), 2 => node.start_election(), _ => {} }
        Ok(node)
    }
}

impl Msg {
    fn json(&self) -> Value {
        match self {
            Self::Rv { term, cand, lli, llt, emb } => json!({"k": "rv", "term": term, "cand": cand, "lli": lli, "llt": llt, "emb": emb}),
            Self::Ae { term, leader, prev_i, prev_t, entries, commit, emb } => json!({"k": "ae", "term": term, "leader": leader, "prev_i": prev_i, "prev_t": prev_t, "entries": entries, "commit": commit, "emb": emb}),
            Self::Aer { from, term, success, mi } => json!({"k": "aer", "from": from, "term": term, "success": success, "mi": mi}),
            Self::Rvr { from, term, granted } => json!({"k": "rvr", "from": from, "term": term, "granted": granted}),
            Self::Pv { term, cand, lli, llt } => json!({"k": "pv", "term": term, "cand": cand, "lli": lli, "llt": llt}),
            Self::Tn { from, term } => json!({"k": "tn", "from": from, "term": term}),
        }
    }
    fn from_json(v: &Value) -> Option<Self> {
        let s = |k: &str| v[k].as_str().map(String::from);
        let u = |k: &str| v[k].as_u64();
        Some(match v["k"].as_str()? {
            "rv" => Self::Rv { term: u("term")?, cand: s("cand")?, lli: u("lli")?, llt: u("llt")?, emb: u("emb")? as u8 },
            "ae" => Self::Ae { term: u("term")?, leader: s("leader")?, prev_i: u("prev_i")?, prev_t: u("prev_t")?, entries: v["entries"].as_array()?.iter().map(Value::as_u64).collect::<Option<Vec<_>>>()?, commit: u("commit")?, emb: v["emb"].as_bool()? },
            "aer" => Self::Aer { from: s("from")?, term: u("term")?, success: v["success"].as_bool()?, mi: u("mi")? },
            "rvr" => Self::Rvr { from: s("from")?, term: u("term")?, granted: v["granted"].as_bool()? },
            "pv" => Self::Pv { term: u("term")?, cand: s("cand")?, lli: u("lli")?, llt: u("llt")? },
            "tn" => Self::Tn { from: s("from")?, term: u("term")? },
            _ => return None,
        })
    }
    fn sender(&self) -> String {
        match self { Self::Rv { cand, .. } | Self::Pv { cand, .. } => cand.clone(), Self::Ae { leader, .. } => leader.clone(), Self::Aer { from, .. } | Self::Rvr { from, .. } | Self::Tn { from, .. } => from.clone() }
    }
    fn term(&self) -> u64 {
        match self { Self::Rv { term, .. } | Self::Ae { term, .. } | Self::Aer { term, .. } | Self::Rvr { term, .. } | Self::Pv { term, .. } | Self::Tn { term, .. } => *term }
    }
    fn message(&self) -> Message {
        match self {
            Self::Rv { term, cand, lli, llt, emb } => Message::RequestVote(RequestVote { term: *term, candidate_id: cand.clone(), last_log_index: *lli, last_log_term: *llt, state_embedding: emb_vec(*emb) }),
            Self::Ae { term, leader, prev_i, prev_t, entries, commit, emb } => Message::AppendEntries(AppendEntries {
                term: *term, leader_id: leader.clone(), prev_log_index: *prev_i, prev_log_term: *prev_t, entries: entries_at(prev_i.wrapping_add(1), entries), leader_commit: *commit,
                block_embedding: if *emb { Some(emb_vec(1)) } else { None } }),
            Self::Aer { from, term, success, mi } => Message::AppendEntriesResponse(AppendEntriesResponse { term: *term, success: *success, follower_id: from.clone(), match_index: *mi, used_fast_path: false }),
            Self::Rvr { from, term, granted } => Message::RequestVoteResponse(RequestVoteResponse { term: *term, vote_granted: *granted, voter_id: from.clone() }),
            Self::Pv { term, cand, lli, llt } => Message::PreVote(PreVote { term: *term, candidate_id: cand.clone(), last_log_index: *lli, last_log_term: *llt, state_embedding: SparseVector::new(0) }),
            Self::Tn { from, term } => Message::TimeoutNow(TimeoutNow { term: *term, leader_id: from.clone() }),
        }
    }
}

fn observe(node: &RaftNode, store: &TensorStore, full: bool) -> Obs {
    let (_, _, entries, _) = node.get_entries_for_follower(&"zz".to_string());
    let log: Vec<(u64, u64)> = entries.iter().map(|e| (e.term, e.index)).collect();
    let mut o = Obs { term: node.current_term(), voted: None, vk: false, log, commit: node.commit_index(), role: node.state(), lli: node.last_log_index(), llt: node.last_log_term() };
    if full {
        node.save_to_store(store).expect("save_to_store");
        let (term, voted, plog) = RaftNode::load_from_store("a", store).expect("load_from_store");
        assert_eq!(term, o.term, "persisted term differs from current_term()");
        assert_eq!(plog.iter().map(|e| (e.term, e.index)).collect::<Vec<_>>(), o.log, "persisted log differs from get_entries_for_follower");
        o.voted = voted;
        o.vk = true;
    }
    o
}

type Results = Vec<(&'static str, bool, String)>;

/// Runs the whole call sequence from scratch and evaluates every applicable obligation after every call.
/// `nontrivial` receives one flag per `handle_message` call.
fn run_case(pre: &Pre, msgs: &[Msg], store: &TensorStore, nontrivial: &mut Vec<bool>, full_steps: usize, start: Option<&Obs>) -> Result<(Results, Obs, Obs), String> {
    let node = pre.build()?;
    let majority = pre.n / 2 + 1;
    let members: Vec<&str> = NAMES[1..pre.n].to_vec();
    let mut out: Results = Vec::new();
    let mut acked: BTreeMap<String, u64> = BTreeMap::new(); // per follower: max match_index over successful responses delivered while leader
    let mut votes: BTreeSet<String> = BTreeSet::new(); // members that granted a vote for the candidate's current term
    let first = start.cloned().unwrap_or_else(|| observe(&node, store, true));
    let mut o0 = first.clone();
    for (step, m) in msgs.iter().enumerate() {
        let resp = node.handle_message(&m.sender(), &m.message());
        let o1 = observe(&node, store, step < full_steps);
        let mut chk = |id: &'static str, ok: bool, d: &dyn Fn() -> String| out.push((id, ok, if ok { String::new() } else { format!("step {step}: {} | pre {:?} | msg {:?} | response {} | post {:?}", d(), o0, m, resp_img(&resp), o1) }));
        let mut granted_to: Option<&str> = None;
        match m {
            Msg::Rv { term, cand, lli, llt, .. } => {
                let (rterm, granted) = match &resp { Some(Message::RequestVoteResponse(r)) => (Some(r.term), r.vote_granted), _ => (None, false) };
                chk("C01.vote.once", rterm.is_some(), &|| "no RequestVoteResponse".into());
                if granted { granted_to = Some(cand.as_str()); }
                let prior_ok = *term > o0.term || o0.voted.is_none() || o0.voted.as_deref() == Some(cand.as_str());
                let vk = o0.vk && o1.vk;
                chk("C01.vote.once", !granted || (*term >= o0.term && o1.term == *term && (!o0.vk || prior_ok) && (!o1.vk || o1.voted.as_deref() == Some(cand.as_str()))),
                    &|| "vote granted although (rv.term >= term0, term' = rv.term, no other vote in this term, vote' = candidate) does not hold".into());
                chk("C01.vote.once", !vk || !(o1.term == o0.term && o0.voted.is_some()) || o1.voted == o0.voted, &|| "a vote already cast in this term was replaced".into());
                chk("C01.vote.once", !vk || granted || o1.voted == if o1.term > o0.term { None } else { o0.voted.clone() }, &|| "vote changed although the request was not granted".into());
                chk("C01.vote.once", o1.log == o0.log && o1.commit == o0.commit, &|| "RequestVote changed the log or the commit index".into());
                chk("C01.vote.once", rterm.is_none() || rterm == Some(o1.term), &|| "response term differs from the node's term".into());
                let (own_t, own_i) = o0.log.last().copied().unwrap_or((0, 0));
                chk("C01.vote.uptodate", !granted || (*llt, *lli) >= (own_t, own_i), &|| format!("granted to a candidate whose log ({llt},{lli}) is behind own ({own_t},{own_i})"));
                nontrivial.push(granted || o1.term != o0.term);
            },
            Msg::Ae { term, prev_i, prev_t, entries, commit, .. } => {
                let r = match &resp { Some(Message::AppendEntriesResponse(r)) => Some(r.clone()), _ => None };
                chk("C01.ae.consistency", r.is_some(), &|| "no AppendEntriesResponse".into());
                let success = r.as_ref().is_some_and(|r| r.success);
                let len0 = o0.log.len() as u64;
                let k = entries.len() as u64;
                if *term < o0.term {
                    chk("C01.ae.reject_stale", !success && o1.log == o0.log && o1.term == o0.term && (!(o0.vk && o1.vk) || o1.voted == o0.voted) && o1.commit == o0.commit,
                        &|| "stale-term AppendEntries was accepted or changed term/vote/log/commit".into());
                }
                if success {
                    let prev_ok = *prev_i == 0 || (*prev_i <= len0 && o0.log[(*prev_i - 1) as usize].0 == *prev_t);
                    chk("C01.ae.consistency", prev_ok && *term >= o0.term && o1.term == *term, &|| "success although the log did not contain prev_log_term at prev_log_index (or the term is wrong)".into());
                    if prev_ok {
                        let p = *prev_i as usize;
                        let prefix_same = o1.log.len() >= p && o1.log[..p] == o0.log[..p];
                        chk("C01.ae.consistency", prefix_same, &|| "log prefix up to prev_log_index changed".into());
                        let sent_present = entries.iter().enumerate().all(|(j, t)| o1.log.get(p + j) == Some(&(*t, *prev_i + 1 + j as u64)));
                        chk("C01.ae.consistency", sent_present, &|| "a sent entry is not at its index afterwards".into());
                        let conflict = entries.iter().enumerate().any(|(j, t)| o0.log.get(p + j).is_some_and(|e| e.0 != *t));
                        let want_len = if conflict { *prev_i + k } else { len0.max(*prev_i + k) };
                        let tail_kept = conflict || (o1.log.len() as u64 >= len0 && o1.log[..len0 as usize] == o0.log[..]);
                        chk("C01.ae.consistency", o1.log.len() as u64 == want_len && tail_kept,
                            &|| format!("entries beyond the sent ones: conflict={conflict}, expected log length {want_len}, got {}", o1.log.len()));
                    }
                } else {
                    chk("C01.ae.consistency", o1.log == o0.log, &|| "rejected AppendEntries changed the log".into());
                }
                chk("C01.ae.consistency", o1.log.iter().enumerate().all(|(j, e)| e.1 == j as u64 + 1) && o1.lli == o1.log.len() as u64 && o1.llt == o1.log.last().map_or(0, |e| e.0),
                    &|| "log indices are not position-consistent / last_log_index,last_log_term disagree with the stored log".into());
                if let Some(r) = &r {
                    chk("C01.ae.consistency", r.term == o1.term, &|| "response term differs from the node's term".into());
                    if success {
                        chk("C01.ae.ack_bound", r.match_index == *prev_i + k, &|| format!("match_index {} but this request verified exactly prev_log_index + entries.len() = {} ({})", r.match_index, *prev_i + k,
                            if r.match_index > *prev_i + k { "acknowledges entries the leader never verified: SAFETY" } else { "under-acknowledges" }));
                    }
                }
                chk("C01.ae.commit_bound", o1.commit >= o0.commit, &|| "commit index decreased".into());
                if success {
                    let want = o0.commit.max((*commit).min(*prev_i + k));
                    chk("C01.ae.commit_bound", o1.commit == want, &|| format!("commit' = {} but max(commit0, min(leader_commit, prev+len)) = {want}", o1.commit));
                } else {
                    chk("C01.ae.commit_bound", o1.commit == o0.commit, &|| "rejected AppendEntries moved the commit index".into());
                }
                nontrivial.push(success || o1.term != o0.term);
            },
            Msg::Aer { from, term, success, mi } => {
                if o0.role == RaftState::Leader && *success && *term == o0.term && members.contains(&from.as_str()) {
                    let e = acked.entry(from.clone()).or_insert(0);
                    *e = (*e).max(*mi);
                }
                chk("C01.commit.rule", o1.commit >= o0.commit, &|| "commit index decreased".into());
                if o1.commit > o0.commit {
                    let c = o1.commit;
                    let holders = 1 + members.iter().filter(|f| acked.get(**f).copied().unwrap_or(0) >= c).count();
                    let entry_term = o1.log.get((c - 1) as usize).map(|e| e.0);
                    chk("C01.commit.rule", o0.role == RaftState::Leader && entry_term == Some(o1.term) && holders >= majority,
                        &|| format!("commit advanced to {c}: leader-before={:?}, entry term {entry_term:?} vs current term {}, acknowledged by {holders} of {} (majority {majority}); acks {acked:?}", o0.role, o1.term, pre.n));
                }
                chk("C01.commit.rule", o1.log == o0.log, &|| "AppendEntriesResponse changed the log".into());
                nontrivial.push(o1.commit > o0.commit || o1.term != o0.term);
            },
            Msg::Rvr { from, term, granted } => {
                if o0.role == RaftState::Candidate && *granted && *term == o0.term && members.contains(&from.as_str()) { votes.insert(from.clone()); }
                if o1.role == RaftState::Leader && o0.role != RaftState::Leader {
                    chk("C01.leader.quorum", o0.role == RaftState::Candidate && o1.term == o0.term && 1 + votes.len() >= majority,
                        &|| format!("became leader with votes {votes:?} + self of {} (majority {majority})", pre.n));
                } else {
                    chk("C01.leader.quorum", true, &String::new);
                }
                chk("C01.leader.quorum", o1.log == o0.log && o1.commit == o0.commit, &|| "RequestVoteResponse changed log/commit".into());
                nontrivial.push(o1.role != o0.role || o1.term != o0.term);
            },
            Msg::Pv { .. } => { nontrivial.push(false); },
            Msg::Tn { .. } => { nontrivial.push(o1.term != o0.term); },
        }
        // every handler
        chk("C01.term.monotone", o1.term >= o0.term, &|| "current term decreased".into());
        if o1.term > o0.term && !matches!(m, Msg::Tn { .. }) {
            chk("C01.term.monotone", o1.role == RaftState::Follower && (!o1.vk || o1.voted.is_none() || (granted_to.is_some() && o1.voted.as_deref() == granted_to)),
                &|| "term grew but the node is not a follower with vote None / the just-granted candidate".into());
            chk("C01.term.monotone", o1.term == m.term(), &|| "term grew to something else than the message's term".into());
        }
        if o0.vk && o1.vk && o1.term == o0.term && o0.voted.is_some() { chk("C01.term.monotone", o1.voted == o0.voted, &|| "vote changed within a term".into()); }
        o0 = o1;
    }
    Ok((out, first, o0))
}

fn resp_img(r: &Option<Message>) -> String {
    match r {
        Some(Message::RequestVoteResponse(x)) => format!("RequestVoteResponse{{term {}, granted {}}}", x.term, x.vote_granted),
        Some(Message::AppendEntriesResponse(x)) => format!("AppendEntriesResponse{{term {}, success {}, match_index {}}}", x.term, x.success, x.match_index),
        Some(Message::PreVoteResponse(x)) => format!("PreVoteResponse{{term {}, granted {}}}", x.term, x.vote_granted),
        Some(_) => "other message".into(),
        None => "None".into(),
    }
}

/// all term-monotone sequences of length <= maxlen over terms 1..=maxterm
fn mono_seqs(maxlen: usize, maxterm: u64) -> Vec<Vec<u64>> {
    let mut all = vec![vec![]];
    let mut layer: Vec<Vec<u64>> = vec![vec![]];
    for _ in 0..maxlen {
        let mut nx = vec![];
        for s in &layer { for t in s.last().copied().unwrap_or(1)..=maxterm { let mut x = s.clone(); x.push(t); nx.push(x); } }
        all.extend(nx.iter().cloned());
        layer = nx;
    }
    all
}

struct Ctx { rep: Report, store: TensorStore, flags: Vec<bool>, skipped: u64, cache: Option<(Pre, Obs)> }

impl Ctx {
    /// `full` = observe the vote too (through the store) after a call; the initial observation of a pre-state is
    /// always full and is reused for the following cases with the same pre-state (building it is deterministic).
    fn case(&mut self, pre: &Pre, msgs: &[Msg], full: bool) { self.case_n(pre, msgs, if full { usize::MAX } else { 0 }); }

    /// the first `full_steps` calls are followed by a full observation, the later ones by a light one
    fn case_n(&mut self, pre: &Pre, msgs: &[Msg], full_steps: usize) {
        self.flags.clear();
        let start = match &self.cache { Some((p, o)) if p == pre => Some(o.clone()), _ => None };
        match run_case(pre, msgs, &self.store, &mut self.flags, full_steps, start.as_ref()) {
            Ok((results, first, _)) => {
                if start.is_none() { self.cache = Some((pre.clone(), first)); }
                for f in &self.flags { self.rep.eval(*f); }
                for (id, ok, detail) in results {
                    self.rep.check(id, ok, &|| json!({"pre": pre.json(), "msgs": msgs.iter().map(Msg::json).collect::<Vec<_>>()}), &|| detail.clone());
                }
            },
            Err(_) => self.skipped += 1,
        }
    }
}

// ---------------------------------------------------------------- cluster histories: real nodes, hand-delivered messages
// C01.history.delayed_ack: the first sentence of the property on whole histories in which the network DELAYS an
// AppendEntriesResponse across leadership changes ("whatever the network does to messages").  Five real RaftNodes, every
// message built from the nodes' own public state and delivered by hand; after every step no two nodes may report different
// entries committed at one position, and a committed position must be held by a majority of the logs.
struct Cluster { nodes: Vec<RaftNode>, held: Vec<(usize, usize, Message)>, trace: Vec<String> }

impl Cluster {
    fn new(n: usize) -> Self {
        let nodes = (0..n).map(|i| {
            let cfg = RaftConfig { enable_pre_vote: false, enable_fast_path: false, enable_geometric_tiebreak: false, auto_heartbeat: false, ..RaftConfig::default() };
            let peers: Vec<String> = (0..n).filter(|j| *j != i).map(name).collect();
            RaftNode::new(name(i), peers, Arc::new(MemoryTransport::new(name(i))), cfg)
        }).collect();
        Self { nodes, held: vec![], trace: vec![] }
    }
    fn log_of(&self, i: usize) -> Vec<(u64, u64)> { let (_, _, e, _) = self.nodes[i].get_entries_for_follower(&"zz".to_string()); e.iter().map(|x| (x.term, x.index)).collect() }
    /// candidate i asks the listed voters; true if it ends up leader
    fn elect(&mut self, i: usize, voters: &[usize]) -> bool {
        self.nodes[i].start_election();
        let rv = Message::RequestVote(RequestVote { term: self.nodes[i].current_term(), candidate_id: name(i), last_log_index: self.nodes[i].last_log_index(), last_log_term: self.nodes[i].last_log_term(), state_embedding: emb_vec(0) });
        for &j in voters {
            if let Some(resp) = self.nodes[j].handle_message(&name(i), &rv) { let _ = self.nodes[i].handle_message(&name(j), &resp); }
        }
        self.trace.push(format!("elect {} term {} voters {:?} -> leader {}", name(i), self.nodes[i].current_term(), voters, self.nodes[i].is_leader()));
        self.nodes[i].is_leader()
    }
    /// leader i sends follower j what get_entries_for_follower says (exactly as send_heartbeats builds it); the response is
    /// delivered at once, or kept in `held` (a delayed message)
    fn replicate(&mut self, i: usize, j: usize, hold: bool) {
        if !self.nodes[i].is_leader() { self.trace.push(format!("replicate {}->{}: not leader, nothing sent", name(i), name(j))); return; }
        let (prev_log_index, prev_log_term, entries, block_embedding) = self.nodes[i].get_entries_for_follower(&name(j));
        let ae = Message::AppendEntries(AppendEntries { term: self.nodes[i].current_term(), leader_id: name(i), prev_log_index, prev_log_term, entries, leader_commit: self.nodes[i].commit_index(), block_embedding });
        let resp = self.nodes[j].handle_message(&name(i), &ae);
        self.trace.push(format!("replicate {}->{} prev ({prev_log_index},{prev_log_term}) -> {}{}", name(i), name(j), resp_img(&resp), if hold { " [response DELAYED]" } else { "" }));
        if let Some(r) = resp { if hold { self.held.push((j, i, r)); } else { let _ = self.nodes[i].handle_message(&name(j), &r); } }
    }
    fn deliver_held(&mut self) {
        for (from, to, m) in std::mem::take(&mut self.held) {
            let _ = self.nodes[to].handle_message(&name(from), &m);
            self.trace.push(format!("delayed response of {} reaches {}: {}", name(from), name(to), resp_img(&Some(m))));
        }
    }
    fn propose(&mut self, i: usize, k: usize) -> bool {
        let mut ok = true;
        for _ in 0..k { ok &= self.nodes[i].propose(Block::default()).is_ok(); }
        self.trace.push(format!("propose x{k} at {} -> ok {ok}, log {:?}", name(i), self.log_of(i)));
        ok
    }
    /// state-machine safety + "committed means on a majority"
    fn safety(&self) -> Result<(), String> {
        let n = self.nodes.len();
        let logs: Vec<Vec<(u64, u64)>> = (0..n).map(|i| self.log_of(i)).collect();
        let commits: Vec<u64> = self.nodes.iter().map(RaftNode::commit_index).collect();
        for i in 0..n {
            if commits[i] as usize > logs[i].len() { return Err(format!("{} reports commit {} beyond its log {:?}", name(i), commits[i], logs[i])); }
            for c in 1..=commits[i] as usize {
                let e = logs[i][c - 1];
                let holders = (0..n).filter(|j| logs[*j].get(c - 1) == Some(&e)).count();
                if 2 * holders <= n { return Err(format!("{} reports position {c} committed with entry (term {}, index {}), held by only {holders} of {n} logs: {:?}", name(i), e.0, e.1, logs)); }
                for j in 0..n {
                    if j != i && commits[j] as usize >= c && logs[j][c - 1] != e { return Err(format!("{} and {} report different entries committed at position {c}: {:?} vs {:?}", name(i), name(j), e, logs[j][c - 1])); }
                }
            }
        }
        Ok(())
    }
}

/// One history: a (term 1) gets `stale_len` entries onto b only and b's acknowledgement is delayed; c (term 2) replaces them on
/// a and b by `mid_len` entries of its own; a (term 3, voted by d and e) proposes `new_len` entries and gets them onto d; the
/// delayed acknowledgement is delivered at step `deliver_at` (0 = at once, i.e. no delay .. 3 = after a's term-3 entries reached d).
fn delayed_ack_history(stale_len: usize, mid_len: usize, new_len: usize, deliver_at: u8) -> Result<(bool, String), String> {
    let mut cl = Cluster::new(5);
    let (a, b, c, d, e) = (0usize, 1usize, 2usize, 3usize, 4usize);
    let check = |cl: &Cluster, at: &str| cl.safety().map_err(|m| format!("after {at}: {m} | history: {}", cl.trace.join(" ; ")));
    if !cl.elect(a, &[b, c]) { return Err(format!("setup: a not elected | {}", cl.trace.join(" ; "))); }
    cl.replicate(a, b, false); cl.replicate(a, c, false);            // heartbeats: the leader learns that a quorum answers
    if !cl.propose(a, stale_len) { return Err(format!("setup: propose refused | {}", cl.trace.join(" ; "))); }
    cl.replicate(a, b, deliver_at != 0);                              // b holds a's term-1 entries; its acknowledgement is in flight
    check(&cl, "a replicated to b")?;
    if !cl.elect(c, &[d, e]) { return Err(format!("setup: c not elected | {}", cl.trace.join(" ; "))); }
    cl.replicate(c, d, false); cl.replicate(c, e, false);
    if !cl.propose(c, mid_len) { return Err(format!("setup: propose refused at c | {}", cl.trace.join(" ; "))); }
    cl.replicate(c, a, false); cl.replicate(c, b, false);            // a and b drop the term-1 entries for c's
    check(&cl, "c replicated to a and b")?;
    if deliver_at == 1 { cl.deliver_held(); check(&cl, "delayed ack delivered while a is a follower")?; }
    if !cl.elect(a, &[d, e]) { return Err(format!("setup: a not re-elected | {}", cl.trace.join(" ; "))); }
    cl.replicate(a, d, false); cl.replicate(a, e, false);
    if deliver_at == 2 { cl.deliver_held(); check(&cl, "delayed ack delivered right after a's re-election")?; }
    if !cl.propose(a, new_len) { return Err(format!("setup: propose refused at a (term 3) | {}", cl.trace.join(" ; "))); }
    cl.replicate(a, d, false);
    check(&cl, "a's term-3 entries reached d")?;
    if deliver_at == 3 { cl.deliver_held(); }
    check(&cl, "delayed ack delivered after a's term-3 entries reached d")?;
    let advanced = cl.nodes[a].commit_index() > 0;
    Ok((advanced, format!("final commits {:?}", cl.nodes.iter().map(RaftNode::commit_index).collect::<Vec<_>>())))
}

/// every entry some node has reported committed, by position (the ghost record the first sentence of the property quantifies over)
#[derive(Default)]
struct Reported { at: std::collections::BTreeMap<usize, (u64, u64)> }

impl Reported {
    /// record what the nodes `who` report committed now; Err if two reports disagree on a position
    fn note(&mut self, cl: &Cluster, who: &[usize]) -> Result<(), String> {
        for &i in who {
            let log = cl.log_of(i);
            for c in 1..=cl.nodes[i].commit_index() as usize {
                let Some(e) = log.get(c - 1).copied() else { return Err(format!("{} reports position {c} committed but its log has {} entries", name(i), log.len())); };
                match self.at.get(&c) {
                    Some(e0) if *e0 != e => return Err(format!("{} reports (term {}, index {}) committed at position {c}; (term {}, index {}) was reported committed there before", name(i), e.0, e.1, e0.0, e0.1)),
                    Some(_) => {},
                    None => { self.at.insert(c, e); },
                }
            }
        }
        Ok(())
    }
    /// "every later leader's log contains that entry"
    fn leaders_hold_all(&self, cl: &Cluster, who: &[usize]) -> Result<(), String> {
        for &i in who {
            if !cl.nodes[i].is_leader() { continue; }
            let log = cl.log_of(i);
            for (c, e) in &self.at {
                if log.get(c - 1) != Some(e) {
                    return Err(format!("{} leads term {} with log {:?}, which lacks the entry (term {}, index {}) reported committed at position {c}", name(i), cl.nodes[i].current_term(), log, e.0, e.1));
                }
            }
        }
        Ok(())
    }
}

/// One history on three nodes: a leads term 1, commits `first` entries with b, finalizes and compacts them into a snapshot; b asks for
/// the snapshot and the answer is DELAYED; a commits `more` further entries with b; the delayed snapshot reaches b at step `deliver_at`
/// (0 = at once); then a is gone and b stands for election with c's vote.
fn delayed_snapshot_history(first: usize, more: usize, deliver_at: u8) -> Result<(bool, String), String> {
    let mut cl = Cluster::new(3);
    let (a, b, c) = (0usize, 1usize, 2usize);
    let mut rep = Reported::default();
    let fail = |cl: &Cluster, at: &str, m: String| format!("after {at}: {m} | history: {}", cl.trace.join(" ; "));
    if !cl.elect(a, &[b, c]) { return Err(format!("setup: a not elected | {}", cl.trace.join(" ; "))); }
    cl.replicate(a, b, false); cl.replicate(a, c, false);
    if !cl.propose(a, first) { return Err(format!("setup: propose refused | {}", cl.trace.join(" ; "))); }
    cl.replicate(a, b, false); cl.replicate(a, b, false);            // b holds and (second message) learns the commit index
    rep.note(&cl, &[a, b, c]).map_err(|m| fail(&cl, "first entries committed", m))?;
    if cl.nodes[a].commit_index() != first as u64 { return Err(format!("setup: a commit {} instead of {first} | {}", cl.nodes[a].commit_index(), cl.trace.join(" ; "))); }
    // the leader finalizes and compacts: it now has a snapshot to hand out
    if cl.nodes[a].finalize_to(first as u64).is_err() { return Err("setup: finalize_to refused".into()); }
    let Ok((meta, _)) = cl.nodes[a].create_snapshot() else { return Err("setup: create_snapshot refused".into()); };
    if cl.nodes[a].truncate_log(&meta).is_err() { return Err("setup: truncate_log refused".into()); }
    cl.trace.push(format!("a finalizes {first}, snapshots and compacts (log now {:?})", cl.log_of(a)));
    if cl.log_of(a).len() != first { return Err(format!("setup: compaction cut the leader's log ({:?}); the history needs it whole | {}", cl.log_of(a), cl.trace.join(" ; "))); }
    // b asks for the snapshot; the answer travels slowly
    let req = Message::SnapshotRequest(tensor_chain::SnapshotRequest { requester_id: name(b), offset: 0, chunk_size: u64::MAX });
    let Some(answer) = cl.nodes[a].handle_message(&name(b), &req) else { return Err(format!("setup: leader did not answer the snapshot request | {}", cl.trace.join(" ; "))); };
    cl.trace.push(format!("b requests the snapshot; a answers with snapshot height {first}{}", if deliver_at == 0 { "" } else { " [answer DELAYED]" }));
    let mut pending = Some(answer);
    let mut deliver = |cl: &mut Cluster, pending: &mut Option<Message>| { if let Some(m) = pending.take() { let _ = cl.nodes[b].handle_message(&name(a), &m); cl.trace.push(format!("the snapshot answer reaches b: b now has commit {} and log {:?}", cl.nodes[b].commit_index(), cl.log_of(b))); } };
    if deliver_at == 0 { deliver(&mut cl, &mut pending); }
    if !cl.propose(a, more) { return Err(format!("setup: propose refused (2) | {}", cl.trace.join(" ; "))); }
    cl.replicate(a, b, false); cl.replicate(a, b, false);
    rep.note(&cl, &[a, b, c]).map_err(|m| fail(&cl, "further entries committed", m))?;
    if deliver_at == 1 { deliver(&mut cl, &mut pending); }
    rep.note(&cl, &[a, b, c]).map_err(|m| fail(&cl, "the delayed snapshot answer reached b", m))?;
    // a is gone; b stands for election with c's vote
    let led = cl.elect(b, &[c]);
    rep.leaders_hold_all(&cl, &[b, c]).map_err(|m| fail(&cl, "b was elected without a", m))?;
    Ok((led, format!("b leads: {led}; reported committed {:?}", rep.at)))
}

const OBS: [(&str, &str); 11] = [
    ("C01.history.delayed_snapshot", "RaftNode::handle_message on three nodes (SnapshotResponse delayed while the follower catches up)"),
    ("C01.history.delayed_ack", "RaftNode::handle_message on five nodes (AppendEntriesResponse delayed across two leadership changes)"),

    ("C01.vote.once", "RaftNode::handle_message(RequestVote)"), ("C01.vote.uptodate", "RaftNode::handle_message(RequestVote)"), ("C01.term.monotone", "RaftNode::handle_message (every handler)"),
    ("C01.ae.reject_stale", "RaftNode::handle_message(AppendEntries)"), ("C01.ae.consistency", "RaftNode::handle_message(AppendEntries)"), ("C01.ae.ack_bound", "RaftNode::handle_message(AppendEntries)"),
    ("C01.ae.commit_bound", "RaftNode::handle_message(AppendEntries)"), ("C01.commit.rule", "RaftNode::handle_message(AppendEntriesResponse) / try_advance_commit_index"),
    ("C01.leader.quorum", "RaftNode::handle_message(RequestVoteResponse) / become_leader"),
];

fn name(i: usize) -> String { NAMES[i].to_string() }

pub fn run(tier: Tier, seed: u64) -> Report {
    let thorough = tier == Tier::Thorough;
    let (maxlen, maxterm, fmax, n_rv) = if thorough { (4usize, 4u64, 5u64, 5usize) } else { (3, 3, 4, 3) };
    let rep = Report::new("c01_handlers",
        &format!("{n_rv}-node cluster (5-node for the quorum sequences), own term 0..={maxterm}, voted_for in {{None,b,c}}, own log = every term-monotone sequence of length <= {maxlen} over terms 1..={maxterm} with last term <= own term, commit0 in 0..=len, role follower/leader/candidate; RequestVote: term, last_log_index, last_log_term over 0..={fmax} x candidate {{b,c}} x 8 configs (pre-vote, fast-path, geometric tie-break on/off; state embeddings none/equal/opposite) + a second request of the other candidate with the best log; AppendEntries: term, prev_log_index, prev_log_term, leader_commit over 0..={fmax} x every term-monotone contiguous run of <= 2 entries over terms 1..={maxterm}, fast-path on/off, block embedding none/some; leader: every sequence of <= 2 AppendEntriesResponse (from b/c, term 0..={fmax}, success/failure, match_index 0..={fmax}) on 3 nodes and every sequence of <= 3 successful responses on 5 nodes; candidate: every sequence of <= 3 RequestVoteResponse on 3 and 5 nodes; PreVote/TimeoutNow for term monotonicity; cluster histories: delayed AppendEntriesResponse on 5 nodes (stale / overwriting / new entry counts in {{1,2,4}} (thorough 1..=5) x delivery at 4 points), delayed snapshot answer on 3 nodes (1..=2 (thorough 3) entries before and after the snapshot x 2 delivery points){}",
                 if thorough { "; plus 200000 seeded random single calls with u64 extremes (not exhaustive)" } else { "" }),
        true, &["tensor_chain::RaftNode::with_state", "handle_message", "become_leader", "start_election", "save_to_store", "load_from_store", "commit_index", "state"]);
    let mut cx = Ctx { rep, store: TensorStore::new(), flags: vec![], skipped: 0, cache: None };
    for (o, f) in OBS { cx.rep.declare(o, f); }

    let logs = mono_seqs(maxlen, maxterm);
    // reachable (log, own term) pairs: the own term is never behind the last log term
    let states: Vec<(Vec<u64>, u64)> = logs.iter().flat_map(|l| (0..=maxterm).filter(|t| *t >= l.last().copied().unwrap_or(0)).map(|t| (l.clone(), t)).collect::<Vec<_>>()).collect();
    let votes: [Option<String>; 3] = [None, Some(name(1)), Some(name(2))];

    // ---- RequestVote (+ second request in the resulting term)
    for cfg in 0u8..8 {
        let embs: &[(u8, u8)] = if cfg == 7 || cfg == 4 { &[(0, 0), (1, 1), (1, 2)] } else { &[(0, 0)] };
        for (pemb, memb) in embs {
            let roles: &[u8] = if cfg == 7 && *pemb == 0 { &[0, 1] } else { &[0] };
            for role in roles {
                for (log, term) in &states {
                    for v in &votes {
                        let pre = Pre { n: n_rv, term: *term, voted: v.clone(), log: log.clone(), commit: 0, role: *role, cfg, emb: *pemb };
                        for rt in 0..=fmax { for c in 1..=2usize { for lli in 0..=fmax { for llt in 0..=fmax {
                            let first = Msg::Rv { term: rt, cand: name(c), lli, llt, emb: *memb };
                            // the rival asks in whatever term the node is in afterwards, with the best possible log
                            let second = Msg::Rv { term: rt.max(*term), cand: name(3 - c), lli: fmax + 1, llt: fmax + 1, emb: if *memb == 2 { 1 } else { *memb } };
                            cx.case_n(&pre, &[first, second], 1);
                        } } } }
                    }
                }
            }
        }
    }
    cx.rep.sample(json!({"pre": {"n": 3, "term": 1, "voted": "b", "log": [1], "commit": 0, "role": 0, "cfg": 7, "emb": 0}, "msgs": [{"k": "rv", "term": 1, "cand": "c", "lli": 4, "llt": 4, "emb": 0}]}));

    // ---- AppendEntries
    let runs = mono_seqs(2, maxterm);
    for (cfg, emb, vote_variants) in [(7u8, false, 2usize), (7, true, 1), (5, false, 1)] {
        for (log, term) in &states {
            for v in votes.iter().take(vote_variants) {
                for commit in 0..=log.len() as u64 {
                    for role in if cfg == 7 && !emb && commit == 0 && v.is_none() { &[0u8, 1][..] } else { &[0u8][..] } {
                        let pre = Pre { n: n_rv, term: *term, voted: v.clone(), log: log.clone(), commit, role: *role, cfg, emb: 0 };
                        for at in 0..=fmax { for pi in 0..=fmax { for pt in 0..=fmax { for lc in 0..=fmax { for run in &runs {
                            cx.case(&pre, &[Msg::Ae { term: at, leader: name(1), prev_i: pi, prev_t: pt, entries: run.clone(), commit: lc, emb }], cfg == 7 && !emb && commit == 0);
                        } } } } }
                    }
                }
            }
        }
    }
    // the confirmed finding of the design phase, kept as an explicit case
    cx.case(&Pre { n: 3, term: 1, voted: None, log: vec![1, 1, 1], commit: 0, role: 0, cfg: 7, emb: 0 }, &[Msg::Ae { term: 2, leader: name(1), prev_i: 1, prev_t: 1, entries: vec![], commit: 0, emb: false }], true);
    cx.rep.sample(json!({"pre": {"n": 3, "term": 1, "voted": null, "log": [1, 1, 1], "commit": 0, "role": 0, "cfg": 7, "emb": 0}, "msgs": [{"k": "ae", "term": 2, "leader": "b", "prev_i": 1, "prev_t": 1, "entries": [], "commit": 0, "emb": false}]}));

    // ---- leader: AppendEntriesResponse sequences
    {
        let mut aers = vec![];
        for f in 1..=2usize { for t in 0..=fmax { for s in [true, false] { for mi in 0..=fmax { aers.push(Msg::Aer { from: name(f), term: t, success: s, mi }); } } } }
        for (log, term) in states.iter().filter(|(_, t)| *t >= 1) {
            let pre = Pre { n: 3, term: *term, voted: Some(name(0)), log: log.clone(), commit: 0, role: 1, cfg: 7, emb: 0 };
            for m1 in &aers { cx.case(&pre, &[m1.clone()], true); for m2 in &aers { cx.case(&pre, &[m1.clone(), m2.clone()], false); } }
        }
        // 5 nodes: every sequence of <= 3 successful current-term responses (incl. stale / reordered / duplicated ones)
        for (log, term) in states.iter().filter(|(l, t)| *t >= 1 && l.len() == maxlen) {
            let pre = Pre { n: 5, term: *term, voted: Some(name(0)), log: log.clone(), commit: 0, role: 1, cfg: 7, emb: 0 };
            let mut ok5 = vec![];
            for f in 1..=3usize { for mi in 0..=maxlen as u64 { ok5.push(Msg::Aer { from: name(f), term: *term, success: true, mi }); } }
            for m1 in &ok5 { for m2 in &ok5 { cx.case(&pre, &[m1.clone(), m2.clone()], false); for m3 in &ok5 { cx.case(&pre, &[m1.clone(), m2.clone(), m3.clone()], false); } } }
        }
    }
    // ---- candidate: RequestVoteResponse sequences
    for n in [3usize, 5] {
        for t0 in 0..=2u64 {
            for log in [vec![], vec![1]] {
                if log.last().copied().unwrap_or(0) > t0 { continue; }
                let pre = Pre { n, term: t0, voted: None, log, commit: 0, role: 2, cfg: 7, emb: 0 };
                let cur = t0 + 1;
                let mut rvrs = vec![];
                for f in 1..n.min(4) { for t in [cur - 1, cur, cur + 1] { for g in [true, false] { rvrs.push(Msg::Rvr { from: name(f), term: t, granted: g }); } } }
                for m1 in &rvrs { cx.case(&pre, &[m1.clone()], true); for m2 in &rvrs { cx.case(&pre, &[m1.clone(), m2.clone()], true); for m3 in &rvrs { cx.case(&pre, &[m1.clone(), m2.clone(), m3.clone()], true); } } }
            }
        }
    }
    // ---- cluster histories with a delayed AppendEntriesResponse (five real nodes)
    {
        let lens: &[usize] = if thorough { &[1, 2, 3, 4, 5] } else { &[1, 2, 4] };
        for &stale_len in lens { for &mid_len in lens { for &new_len in lens { for deliver_at in 0..=3u8 {
            let case = json!({"history": "delayed_ack", "stale_len": stale_len, "mid_len": mid_len, "new_len": new_len, "deliver_at": deliver_at});
            match delayed_ack_history(stale_len, mid_len, new_len, deliver_at) {
                Ok((advanced, _)) => { cx.rep.eval(advanced || deliver_at > 0); cx.rep.check("C01.history.delayed_ack", true, &|| case.clone(), &String::new); },
                Err(m) if m.starts_with("setup:") => cx.skipped += 1,
                Err(m) => cx.rep.check("C01.history.delayed_ack", false, &|| case.clone(), &|| m.clone()),
            }
        } } } }
    }
    // ---- cluster histories with a delayed snapshot answer (three real nodes)
    for first in 1..=(if thorough { 3usize } else { 2 }) { for more in 1..=(if thorough { 3usize } else { 2 }) { for deliver_at in 0..=1u8 {
        let case = json!({"history": "delayed_snapshot", "first": first, "more": more, "deliver_at": deliver_at});
        match delayed_snapshot_history(first, more, deliver_at) {
            Ok((led, _)) => { cx.rep.eval(led); cx.rep.check("C01.history.delayed_snapshot", true, &|| case.clone(), &String::new); },
            Err(m) if m.starts_with("setup:") => { cx.skipped += 1; cx.rep.sample(json!({"note": "delayed_snapshot history could not be set up", "why": m.chars().take(300).collect::<String>()})); },
            Err(m) => cx.rep.check("C01.history.delayed_snapshot", false, &|| case.clone(), &|| m.clone()),
        }
    } } }
    // ---- PreVote / TimeoutNow: term monotonicity and vote stability
    for (log, term) in &states {
        for v in &votes {
            for role in [0u8, 1] {
                let pre = Pre { n: 3, term: *term, voted: v.clone(), log: log.clone(), commit: 0, role, cfg: 7, emb: 0 };
                for t in 0..=fmax {
                    for ll in [0, fmax] { cx.case(&pre, &[Msg::Pv { term: t, cand: name(1), lli: ll, llt: ll }], true); }
                    cx.case(&pre, &[Msg::Ae { term: *term, leader: name(1), prev_i: 0, prev_t: 0, entries: vec![], commit: 0, emb: false }, Msg::Tn { from: name(1), term: t }], true);
                }
            }
        }
    }

    if thorough {
        let ext = [0u64, 1, 2, 3, 4, u64::MAX - 1, u64::MAX];
        let mut rng = Rng(seed ^ 0xC01);
        for _ in 0..200_000 {
            let (log, term) = states[rng.below(states.len() as u64) as usize].clone();
            let pick = |rng: &mut Rng| ext[rng.below(7) as usize];
            let commit = rng.below(log.len() as u64 + 1);
            let pre = Pre { n: 5, term, voted: votes[rng.below(3) as usize].clone(), log, commit, role: 0, cfg: rng.below(8) as u8, emb: 0 };
            let m = match rng.below(3) {
                0 => Msg::Rv { term: pick(&mut rng), cand: name(1 + rng.below(2) as usize), lli: pick(&mut rng), llt: pick(&mut rng), emb: 0 },
                1 => Msg::Ae { term: pick(&mut rng), leader: name(1), prev_i: pick(&mut rng), prev_t: pick(&mut rng), entries: vec![], commit: pick(&mut rng), emb: false },
                _ => Msg::Ae { term: pick(&mut rng), leader: name(1), prev_i: rng.below(5), prev_t: pick(&mut rng), entries: runs[rng.below(runs.len() as u64) as usize].clone(), commit: pick(&mut rng), emb: rng.below(2) == 0 },
            };
            cx.case(&pre, &[m], true);
        }
    }
    if cx.skipped > 0 { cx.rep.sample(json!({"note": "pre-states that could not be built through the public API (skipped)", "count": cx.skipped})); }
    cx.rep
}

pub fn replay(ob: &str, case: &Value) -> Result<String, String> {
    if case["history"].as_str() == Some("delayed_snapshot") {
        let u = |k: &str| case[k].as_u64().ok_or_else(|| format!("case.{k} missing"));
        return delayed_snapshot_history(u("first")? as usize, u("more")? as usize, u("deliver_at")? as u8).map(|(_, d)| format!("history is safe at every step; {d}"));
    }
    if case["history"].as_str() == Some("delayed_ack") {
        let u = |k: &str| case[k].as_u64().ok_or_else(|| format!("case.{k} missing"));
        return delayed_ack_history(u("stale_len")? as usize, u("mid_len")? as usize, u("new_len")? as usize, u("deliver_at")? as u8).map(|(_, d)| format!("history is safe at every step; {d}"));
    }
    let pre = Pre::from_json(&case["pre"]).ok_or("case.pre malformed")?;
    let msgs: Vec<Msg> = case["msgs"].as_array().ok_or("case.msgs missing")?.iter().map(Msg::from_json).collect::<Option<Vec<_>>>().ok_or("case.msgs malformed")?;
    let mut flags = vec![];
    let (results, _, last) = run_case(&pre, &msgs, &TensorStore::new(), &mut flags, usize::MAX, None)?;
    let mine: Vec<&(&str, bool, String)> = results.iter().filter(|(id, _, _)| *id == ob).collect();
    if mine.is_empty() { return Err(format!("obligation {ob} is not exercised by this case")); }
    match mine.iter().find(|(_, ok, _)| !ok) {
        Some((_, _, d)) => Err(d.clone()),
        None => Ok(format!("{} checks of {ob} hold on {} call(s); final state {last:?}", mine.len(), msgs.len())),
    }
}
