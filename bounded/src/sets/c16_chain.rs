//! C16 (bounded): the chain is tamper-evident; commits are atomic and deterministic.
//! Single thread; the concurrent-commit clause of C16 is out of scope of this set.
//!
//! Obligations
//!   C16.append.guard         Chain::append: Ok => height+1, prev_hash = old tip, tx_root = recomputed, signed (height>1),
//!                            every earlier record unchanged; Err => height, tip and the whole store view unchanged.
//!   C16.verify.sound         clause "accept": verify_chain is Ok on every chain built through the public API;
//!                            clause "detect": with validator keys registered it is Err after every mutation of the stored
//!                            block records (field flip/zero/max/swap-with-neighbour, transaction edits, validator-signature
//!                            list edit, removal, adjacent swap, forged block / forged suffix signed with another key),
//!                            observed on the live Chain instance and on a Chain re-opened over the mutated store.
//!   C16.commit.atomic        every step of a begin/ops/commit/rollback script over 1-3 workspaces: commit Ok => one new
//!                            block with exactly the workspace operations and all writes visible (or nothing at all for an
//!                            empty workspace); commit Err / rollback / begin / add_operation => whole store view, relational
//!                            table, embedding, height and tip unchanged.
//!   C16.replica.determinism  same block sequence through TensorStateMachine::apply_block on fresh stores => equal state roots
//!                            (and equal to the header roots); root independent of insertion order; root injective on views.
//!   C16.hash.binding         verify_tx_root <=> header root == root recomputed from the transaction list; every hashed header
//!                            field changes BlockHeader::hash / signing_bytes; distinct transaction lists have distinct roots;
//!                            distinct headers of a small product domain have distinct hashes.
//!
//! Stated preconditions / exclusions
//!   * store operations succeed (the in-memory TensorStore cannot be made to fail), so the partial-effect paths of
//!     Chain::append after store_block / add_chain_edge / save_height errors are not reachable here (assumption).
//!   * `signature` is documented as not hashed ("hash all fields except signature"); its binding is checked by verify.sound
//!     (signature mutations must make verify fail), not by hash.binding.
//!   * removal of the tip record is observed on the live instance only: an instance that re-reads its height from the store
//!     (Chain::initialize walks back to the last existing block) cannot tell tail truncation from a shorter chain.
//!   * replica.determinism keeps the chain records on their own store (restored from one common genesis snapshot) and the
//!     replicated state on a fresh empty store.  With ONE store for both (TensorChain, Cluster) the state root also covers
//!     the chain's graph link nodes, which carry a wall-clock `_created_at`; that dependence cannot be checked without
//!     wall-clock boundaries and is reported separately.
//!   * block timestamps are fixed to genesis.timestamp + height on the Chain::append route (the genesis timestamp itself is
//!     wall-clock; no checked outcome depends on its value).
//!
//! Needs the extra dependency `bitcode = { version = "0.6", features = ["serde"] }` (already in /repo/Cargo.lock) to
//! re-encode a mutated block into the stored record format.
use crate::fw::{no_panic, Report, Rng, Tier};
use graph_engine::GraphEngine;
use serde_json::{json, Value};
use std::collections::{BTreeMap, BTreeSet, HashMap};
use std::panic::AssertUnwindSafe;
use std::sync::Arc;
use tensor_chain::network::MemoryTransport;
use tensor_chain::signing::{Identity, ValidatorRegistry};
use tensor_chain::transaction::apply_transaction_to_store;
use tensor_chain::{
    compute_state_root, Block, BlockHeader, Chain, ChainConfig, RaftConfig, RaftNode, TensorChain, TensorStateMachine,
    Transaction, ValidatorSignature,
};
use tensor_store::{ScalarValue, SparseVector, TensorData, TensorStore, TensorValue};

const OB_APPEND: &str = "C16.append.guard";
const OB_VERIFY: &str = "C16.verify.sound";
const OB_COMMIT: &str = "C16.commit.atomic";
const OB_REPLICA: &str = "C16.replica.determinism";
const OB_HASH: &str = "C16.hash.binding";

type View = BTreeMap<String, TensorData>;

// ------------------------------------------------------------------------------------------------ helpers

fn ident(tag: u8) -> Identity { Identity::from_bytes(&[tag; 32]).expect("identity") }

fn view(store: &TensorStore) -> View {
    let mut v = View::new();
    for k in store.scan("") { if let Ok(d) = store.get(&k) { v.insert(k, d); } }
    v
}

fn diff_views(a: &View, b: &View) -> String {
    let mut out = vec![];
    for k in a.keys() { if !b.contains_key(k) { out.push(format!("-{k}")); } else if a[k] != b[k] { out.push(format!("~{k}")); } }
    for k in b.keys() { if !a.contains_key(k) { out.push(format!("+{k}")); } }
    if out.len() > 8 { let n = out.len(); out.truncate(8); out.push(format!("..({n} keys)")); }
    out.join(" ")
}

fn restore_view(store: &TensorStore, base: &View) {
    let cur = view(store);
    for k in cur.keys() { if !base.contains_key(k) { let _ = store.delete(k); } }
    for (k, v) in base { if cur.get(k) != Some(v) { store.put(k.clone(), v.clone()).expect("restore put"); } }
}

/// records the chain's GraphEngine keeps for the block-link edges (bookkeeping, not user state)
fn is_graph_key(k: &str) -> bool { k.starts_with("node:") || k.starts_with("edge:") || k.starts_with("_graph_idx:") }

fn block_key(h: u64) -> String { format!("chain:block:{h}") }

fn read_record(store: &TensorStore, h: u64) -> Option<(TensorData, Block)> {
    let d = store.get(&block_key(h)).ok()?;
    let Some(TensorValue::Scalar(ScalarValue::Bytes(bytes))) = d.get("_block") else { return None };
    let b: Block = bitcode::deserialize(bytes).ok()?;
    Some((d, b))
}

fn write_record(store: &TensorStore, h: u64, mut d: TensorData, b: &Block) {
    let bytes = bitcode::serialize(b).expect("serialize block");
    d.set("_block", TensorValue::Scalar(ScalarValue::Bytes(bytes)));
    store.put(block_key(h), d).expect("put record");
}

fn hex8(h: &[u8]) -> String { h.iter().take(6).map(|b| format!("{b:02x}")).collect() }

/// transaction `j` of block `h` of a built chain
fn chain_tx(h: u64, j: usize) -> Transaction {
    match j % 3 {
        0 => Transaction::Put { key: format!("u:k{h}"), data: vec![h as u8, j as u8, 7] },
        1 => Transaction::Embed { key: format!("e{h}"), vector: vec![1.0, 0.5 + h as f32] },
        _ => Transaction::Delete { key: format!("u:k{h}") },
    }
}

fn make_block(chain: &Chain, id: &Identity, txs: Vec<Transaction>, ts: u64, signed: bool) -> Block {
    let h = chain.height() + 1;
    let mut b = chain.new_block().add_transactions(txs)
        .with_dense_embedding(&[1.0, 0.0, 0.5 + h as f32])
        .with_codes(vec![h as u16 + 7])
        .with_state_root([h as u8 + 1; 32])
        .build();
    b.header.timestamp = ts;
    if signed { b.header.signature = id.sign(&b.header.signing_bytes()); }
    b
}

enum Handle { Chain(Chain), Tc(TensorChain) }

struct Built { store: TensorStore, handle: Handle, registry: Option<Arc<ValidatorRegistry>>, node: String }

impl Built {
    fn verify(&self) -> Result<(), String> {
        let r = no_panic(AssertUnwindSafe(|| match &self.handle { Handle::Chain(c) => c.verify_chain(), Handle::Tc(t) => t.verify() }));
        match r { Ok(Ok(())) => Ok(()), Ok(Err(e)) => Err(format!("{e:?}")), Err(p) => Err(format!("PANIC: {p}")) }
    }
    fn height(&self) -> u64 { match &self.handle { Handle::Chain(c) => c.height(), Handle::Tc(t) => t.height() } }
    /// a second Chain instance opened over the same (possibly mutated) store
    fn reopen_verify(&self) -> Result<(), String> {
        let graph = Arc::new(GraphEngine::with_store(self.store.clone()));
        let c = match &self.registry { Some(r) => Chain::with_registry(graph, self.node.clone(), r.clone()), None => Chain::new(graph, self.node.clone()) };
        let r = no_panic(AssertUnwindSafe(|| { c.initialize()?; c.verify_chain() }));
        match r { Ok(Ok(())) => Ok(()), Ok(Err(e)) => Err(format!("{e:?}")), Err(p) => Err(format!("PANIC: {p}")) }
    }
}

/// route "chain": Chain::{new,with_registry} + append of hand-built signed blocks (fixed timestamps genesis+h);
/// route "tensorchain": TensorChain::with_identity + begin/add_operation/commit.
fn build(route: &str, shape: &[usize], registry: bool, sign1: bool) -> Result<Built, String> {
    let id = ident(1);
    let node = id.node_id();
    let store = TensorStore::new();
    if route == "tensorchain" {
        let tc = TensorChain::with_identity(store.clone(), ChainConfig::new(node.clone()), ident(1));
        tc.initialize().map_err(|e| format!("initialize: {e:?}"))?;
        for (i, &n) in shape.iter().enumerate() {
            let ws = tc.begin().map_err(|e| format!("begin: {e:?}"))?;
            for j in 0..n { ws.add_operation(chain_tx(i as u64 + 1, j)).map_err(|e| format!("add_operation: {e:?}"))?; }
            tc.commit(&ws).map_err(|e| format!("commit of block {}: {e:?}", i + 1))?;
        }
        let reg = Arc::new(ValidatorRegistry::new());
        reg.register(&id);
        return Ok(Built { store, handle: Handle::Tc(tc), registry: Some(reg), node });
    }
    let graph = Arc::new(GraphEngine::with_store(store.clone()));
    let reg = if registry { let r = Arc::new(ValidatorRegistry::new()); r.register(&id); Some(r) } else { None };
    let chain = match &reg { Some(r) => Chain::with_registry(graph, node.clone(), r.clone()), None => Chain::new(graph, node.clone()) };
    chain.initialize().map_err(|e| format!("initialize: {e:?}"))?;
    let g = chain.get_genesis().map_err(|e| format!("{e:?}"))?.ok_or("no genesis")?;
    for (i, &n) in shape.iter().enumerate() {
        let h = i as u64 + 1;
        let txs = (0..n).map(|j| chain_tx(h, j)).collect();
        let b = make_block(&chain, &id, txs, g.header.timestamp + h, h > 1 || sign1);
        chain.append(b).map_err(|e| format!("append of block {h}: {e:?}"))?;
    }
    Ok(Built { store, handle: Handle::Chain(chain), registry: reg, node })
}

// ------------------------------------------------------------------------------------------------ mutations

const FIELDS: [&str; 9] = ["height", "prev_hash", "tx_root", "state_root", "delta_embedding", "quantized_codes", "timestamp", "proposer", "signature"];
const FIELD_OPS: [&str; 5] = ["flip", "flip_hi", "zero", "max", "swapn"];
const TX_OPS: [&str; 6] = ["alter", "drop_last", "add", "dup_last", "reorder", "vsig_add"];
const FORGE: [&str; 4] = ["unregistered_key", "unregistered_proposer", "unsigned", "suffix_unregistered_key"];

fn mut_u64(x: &mut u64, op: &str, nb: u64) -> bool {
    match op { "flip" => *x ^= 1, "flip_hi" => *x ^= 1 << 63, "zero" => *x = 0, "max" => *x = u64::MAX, "swapn" => *x = nb, _ => return false }
    true
}
fn mut_hash(x: &mut [u8; 32], op: &str, nb: &[u8; 32]) -> bool {
    match op { "flip" => x[0] ^= 1, "flip_hi" => x[31] ^= 0x80, "zero" => *x = [0; 32], "max" => *x = [0xff; 32], "swapn" => *x = *nb, _ => return false }
    true
}

/// one single-field mutation of a block; false = not applicable
fn mutate_field(b: &mut Block, field: &str, op: &str, nb: &Block) -> bool {
    let h = &mut b.header;
    match field {
        "height" => mut_u64(&mut h.height, op, nb.header.height),
        "timestamp" => mut_u64(&mut h.timestamp, op, nb.header.timestamp),
        "prev_hash" => mut_hash(&mut h.prev_hash, op, &nb.header.prev_hash),
        "tx_root" => mut_hash(&mut h.tx_root, op, &nb.header.tx_root),
        "state_root" => mut_hash(&mut h.state_root, op, &nb.header.state_root),
        "delta_embedding" => match op {
            "flip" => { let mut d = h.delta_embedding.to_dense(); if d.is_empty() { d.push(1.0) } else { d[0] += 1.0 }; h.delta_embedding = SparseVector::from_dense(&d); true },
            "zero" => { h.delta_embedding = SparseVector::new(0); true },
            "swapn" => { h.delta_embedding = nb.header.delta_embedding.clone(); true },
            _ => false,
        },
        "quantized_codes" => match op {
            "flip" => { if h.quantized_codes.is_empty() { h.quantized_codes.push(1) } else { h.quantized_codes[0] ^= 1 }; true },
            "flip_hi" => { if let Some(l) = h.quantized_codes.last_mut() { *l ^= 0x8000; true } else { false } },
            "zero" => { h.quantized_codes.clear(); true },
            "swapn" => { h.quantized_codes = nb.header.quantized_codes.clone(); true },
            _ => false,
        },
        "proposer" => match op {
            "flip" => { let c = h.proposer.pop(); h.proposer.push(if c == Some('x') { 'y' } else { 'x' }); true },
            "zero" => { h.proposer.clear(); true },
            "swapn" => { h.proposer = nb.header.proposer.clone(); true },
            _ => false,
        },
        "signature" => match op {
            "flip" => { if h.signature.is_empty() { h.signature.push(1) } else { h.signature[0] ^= 1 }; true },
            "flip_hi" => { if let Some(l) = h.signature.last_mut() { *l ^= 0x80; true } else { false } },
            "zero" => { h.signature.clear(); true },
            "max" => { let n = h.signature.len().max(64); h.signature = vec![0xff; n]; true },
            "swapn" => { h.signature = nb.header.signature.clone(); true },
            _ => false,
        },
        _ => false,
    }
}

fn mutate_txs(b: &mut Block, op: &str) -> bool {
    let t = &mut b.transactions;
    match op {
        "alter" => match t.first_mut() {
            Some(Transaction::Put { data, .. }) => { data.push(0xff); true },
            Some(Transaction::Embed { vector, .. }) => { vector.push(2.0); true },
            Some(Transaction::Delete { key }) => { key.push('x'); true },
            _ => false,
        },
        "drop_last" => t.pop().is_some(),
        "add" => { t.push(Transaction::Put { key: "u:evil".into(), data: vec![6, 6, 6] }); true },
        "dup_last" => { if let Some(l) = t.last().cloned() { t.push(l); true } else { false } },
        "reorder" => { if t.len() >= 2 { t.swap(0, 1); true } else { false } },
        "vsig_add" => { let bh = b.hash(); b.signatures.push(ValidatorSignature { validator: "mallory".into(), signature: vec![1; 64], block_hash: bh }); true },
        _ => false,
    }
}

/// Apply one mutation (JSON) to the stored records through TensorStore get/put/delete. Ok(false) = not applicable.
fn apply_mutation(store: &TensorStore, height: u64, m: &Value) -> Result<bool, String> {
    let kind = m["kind"].as_str().ok_or("mutation kind")?;
    let h = m["block"].as_u64().ok_or("mutation block")?;
    match kind {
        "field" | "tx" => {
            let Some((d, mut b)) = read_record(store, h) else { return Ok(false) };
            let nbh = if h < height { h + 1 } else if h > 0 { h - 1 } else { return Ok(false) };
            let ok = if kind == "field" {
                let Some((_, nb)) = read_record(store, nbh) else { return Ok(false) };
                mutate_field(&mut b, m["field"].as_str().unwrap_or(""), m["op"].as_str().unwrap_or(""), &nb)
            } else { mutate_txs(&mut b, m["op"].as_str().unwrap_or("")) };
            if ok { write_record(store, h, d, &b); }
            Ok(ok)
        },
        "remove" => { if store.exists(&block_key(h)) { store.delete(&block_key(h)).map_err(|e| format!("{e:?}"))?; Ok(true) } else { Ok(false) } },
        "swap" => {
            let (Ok(a), Ok(b)) = (store.get(&block_key(h)), store.get(&block_key(h + 1))) else { return Ok(false) };
            store.put(block_key(h), b).map_err(|e| format!("{e:?}"))?;
            store.put(block_key(h + 1), a).map_err(|e| format!("{e:?}"))?;
            Ok(true)
        },
        "forge" => {
            if h == 0 { return Ok(false); }
            let mallory = ident(99);
            let variant = m["variant"].as_str().unwrap_or("");
            let last = if variant == "suffix_unregistered_key" { height } else { h };
            let mut prev: Option<[u8; 32]> = None;
            for hh in h..=last {
                let Some((d, mut b)) = read_record(store, hh) else { return Ok(false) };
                if hh == h { b.transactions.push(Transaction::Put { key: "u:evil".into(), data: vec![6, 6, 6] }); }
                if let Some(p) = prev { b.header.prev_hash = p; }
                b.header.tx_root = b.compute_tx_root();
                if variant == "unregistered_proposer" { b.header.proposer = mallory.node_id(); }
                b.header.signature = if variant == "unsigned" { vec![] } else { mallory.sign(&b.header.signing_bytes()) };
                prev = Some(b.hash());
                write_record(store, hh, d, &b);
            }
            Ok(true)
        },
        _ => Err(format!("unknown mutation kind {kind}")),
    }
}

fn enumerate_mutations(height: u64) -> Vec<Value> {
    let mut v = vec![];
    for h in 0..=height {
        for f in FIELDS { for op in FIELD_OPS { v.push(json!({"kind": "field", "block": h, "field": f, "op": op})); } }
        for op in TX_OPS { v.push(json!({"kind": "tx", "block": h, "op": op})); }
        v.push(json!({"kind": "remove", "block": h}));
        if h < height { v.push(json!({"kind": "swap", "block": h})); }
        if h >= 1 { for f in FORGE { v.push(json!({"kind": "forge", "block": h, "variant": f})); } }
    }
    v
}

/// Evaluate the "detect" clause on a built (unmutated) chain whose baseline view is `base`; leaves the store restored.
/// Both observations are made: the live instance, and a Chain re-opened over the mutated store (skipped when the tip
/// record was removed: an instance that re-reads its height from the store cannot tell tail truncation from a shorter chain).
/// Returns None when the mutation set does not change any stored record.
fn detect(b: &Built, base: &View, muts: &[Value], require_all: bool) -> Result<Option<(bool, String)>, String> {
    let height = b.height();
    let mut tip_removed = false;
    let mut mutated = base.clone();
    for m in muts {
        apply_mutation(&b.store, height, m)?;
        if m["kind"] == "remove" && m["block"].as_u64() == Some(height) { tip_removed = true; }
        let now = view(&b.store);
        if require_all && now == mutated { restore_view(&b.store, base); return Ok(None); } // this mutation changed nothing
        mutated = now;
    }
    if mutated == *base { return Ok(None); }
    let live = b.verify();
    restore_view(&b.store, &mutated);
    let re = if tip_removed { Err("n/a".to_string()) } else { b.reopen_verify() };
    restore_view(&b.store, base);
    Ok(Some(match (&live, &re) {
        (Err(e), Err(_)) => (true, e.clone()),
        _ => (false, format!("verify on the mutated store: live instance = {live:?}, re-opened instance = {re:?} (Err expected)")),
    }))
}

fn verify_case(route: &str, shape: &[usize], registry: bool, sign1: bool, muts: &[Value]) -> Result<String, String> {
    let b = build(route, shape, registry, sign1).map_err(|e| format!("building the chain through the public API failed: {e}"))?;
    if muts.is_empty() {
        return match (b.verify(), b.reopen_verify()) {
            (Ok(()), Ok(())) => Ok(format!("verify Ok on API-built chain of height {}", b.height())),
            (l, r) => Err(format!("chain of height {} built through the public API (every append/commit returned Ok) but verify: live instance = {l:?}, re-opened instance = {r:?}", b.height())),
        };
    }
    b.verify().map_err(|e| format!("baseline chain does not verify: {e}"))?;
    let base = view(&b.store);
    match detect(&b, &base, muts, false)? {
        None => Ok("mutation not applicable / no record changed".into()),
        Some((true, e)) => Ok(format!("detected: {e}")),
        Some((false, e)) => Err(e),
    }
}

fn shapes(max_blocks: usize, max_tx: usize) -> Vec<Vec<usize>> {
    let mut out = vec![];
    fn rec(cur: &mut Vec<usize>, max_blocks: usize, max_tx: usize, out: &mut Vec<Vec<usize>>) {
        if !cur.is_empty() { out.push(cur.clone()); }
        if cur.len() == max_blocks { return; }
        for n in 0..=max_tx { cur.push(n); rec(cur, max_blocks, max_tx, out); cur.pop(); }
    }
    rec(&mut vec![], max_blocks, max_tx, &mut out);
    out.sort_by_key(|s| s.len());
    out
}

fn run_verify(rep: &mut Report, tier: Tier, seed: u64) {
    let thorough = tier == Tier::Thorough;
    let vcase = |clause: &str, route: &str, shape: &[usize], registry: bool, sign1: bool, muts: &[Value]|
        json!({"clause": clause, "route": route, "shape": shape, "registry": registry, "sign1": sign1, "mutations": muts});
    // accept clause: shape x route x registry x (block 1 signed or not: Chain::append does not demand a signature at height 1)
    let mut acc_shapes = shapes(if thorough { 5 } else { 4 }, 2);
    acc_shapes.extend([vec![3], vec![3, 1], vec![1, 3], vec![2, 3, 0]]);
    for shape in &acc_shapes {
        for (route, registry, sign1) in [("chain", true, true), ("chain", true, false), ("chain", false, true), ("chain", false, false), ("tensorchain", true, true)] {
            if route == "tensorchain" && (shape.len() > 3 || shape.contains(&0)) { continue; } // an empty workspace creates no block
            if !sign1 && !(shape.len() == 1 || *shape == [1, 1]) { continue; }
            rep.eval(true);
            let r = verify_case(route, shape, registry, sign1, &[]);
            rep.check(OB_VERIFY, r.is_ok(), &|| vcase("accept", route, shape, registry, sign1, &[]), &|| r.clone().unwrap_err());
        }
    }
    // detect clause (validator keys registered, every block signed); a chain with a 3-transaction block comes first
    let mut det: Vec<(&str, Vec<usize>)> = vec![("chain", vec![3]), ("tensorchain", vec![2, 1])];
    det.extend(shapes(if thorough { 4 } else { 3 }, 2).into_iter().map(|s| ("chain", s)));
    for s in [vec![3, 1], vec![1, 3]] { det.push(("chain", s)); }
    for s in shapes(4, 2).into_iter().filter(|s| s.len() == 4 && (s[0] + 3 * s[1] + 9 * s[2] + 27 * s[3]) % 9 == 4) { det.push(("chain", s)); }
    if thorough { for s in [vec![1, 0, 2, 1, 2], vec![2, 1, 0, 1, 2, 1], vec![1, 1, 1, 1, 1, 1]] { det.push(("chain", s)); } }
    for s in [vec![1], vec![1, 2, 3]] { det.push(("tensorchain", s)); }
    let mut sampled = false;
    for (route, shape) in &det {
        let b = match build(route, shape, true, true) { Ok(b) => b, Err(e) => { rep.check(OB_VERIFY, false, &|| vcase("accept", route, shape, true, true, &[]), &|| e.clone()); continue; } };
        if b.verify().is_err() { continue; } // reported by the accept clause
        let base = view(&b.store);
        // TensorChain::commit stamps wall-clock times: whether neighbouring timestamps differ is not deterministic, so the
        // timestamp swap-with-neighbour mutation is enumerated on the fixed-timestamp Chain::append route only
        let muts: Vec<Value> = enumerate_mutations(b.height()).into_iter()
            .filter(|m| !(*route == "tensorchain" && m["field"] == "timestamp" && m["op"] == "swapn")).collect();
        for m in &muts {
            let ms = [m.clone()];
            let Some((ok, detail)) = detect(&b, &base, &ms, false).expect("mutation") else { continue };
            rep.eval(true);
            if !sampled && m["kind"] == "forge" { rep.sample(vcase("detect", route, shape, true, true, &ms)); sampled = true; }
            rep.check(OB_VERIFY, ok, &|| vcase("detect", route, shape, true, true, &ms), &|| detail.clone());
        }
        if thorough {
            // two simultaneous mutations: seeded pairs beyond the exhaustive single-mutation core (both must change a record)
            let mut rng = Rng(seed ^ 0xC16 ^ (shape.len() as u64) << 8 ^ shape.iter().sum::<usize>() as u64);
            for _ in 0..300 {
                let ms = [muts[rng.below(muts.len() as u64) as usize].clone(), muts[rng.below(muts.len() as u64) as usize].clone()];
                let Some((ok, detail)) = detect(&b, &base, &ms, true).expect("mutation") else { continue };
                rep.eval(true);
                rep.check(OB_VERIFY, ok, &|| vcase("detect", route, shape, true, true, &ms), &|| detail.clone());
            }
        }
        assert!(view(&b.store) == base && b.verify().is_ok(), "harness: baseline not restored");
    }
}

fn replay_verify(case: &Value) -> Result<String, String> {
    let shape: Vec<usize> = case["shape"].as_array().ok_or("shape")?.iter().map(|v| v.as_u64().unwrap_or(0) as usize).collect();
    let muts: Vec<Value> = case["mutations"].as_array().cloned().unwrap_or_default();
    verify_case(case["route"].as_str().unwrap_or("chain"), &shape, case["registry"].as_bool().unwrap_or(true), case["sign1"].as_bool().unwrap_or(true), &muts)
}

// ------------------------------------------------------------------------------------------------ append.guard

const VARIANTS: [&str; 15] = ["ok", "height_same", "height_plus2", "height_zero", "height_max", "prev_flip", "prev_zero", "tx_root_flip", "tx_root_unset",
    "unsigned", "sig_flip", "sig_short", "wrong_key", "unknown_proposer", "other_validator"];

fn append_case(registry: bool, pre: u64, ntx: usize, variant: &str, count: &mut dyn FnMut(bool)) -> Result<String, String> {
    let shape: Vec<usize> = (0..pre).map(|i| (i as usize) % 3).collect();
    let b = build("chain", &shape, registry, true)?;
    let Handle::Chain(chain) = &b.handle else { return Err("handle".into()) };
    let id = ident(1);
    let other = ident(2);
    if let Some(r) = &b.registry { r.register(&other); }
    let g = chain.get_genesis().map_err(|e| format!("{e:?}"))?.ok_or("genesis")?;
    let h = pre + 1;
    let txs: Vec<Transaction> = (0..ntx).map(|j| chain_tx(h, j)).collect();
    let mut blk = make_block(chain, &id, txs, g.header.timestamp + h, false);
    let mut signer: Option<&Identity> = Some(&id);
    let mallory = ident(99);
    match variant {
        "ok" => {},
        "height_same" => blk.header.height = pre,
        "height_plus2" => blk.header.height = pre + 2,
        "height_zero" => blk.header.height = 0,
        "height_max" => blk.header.height = u64::MAX,
        "prev_flip" => blk.header.prev_hash[5] ^= 4,
        "prev_zero" => blk.header.prev_hash = [0; 32],
        "tx_root_flip" => blk.header.tx_root[0] ^= 1,
        "tx_root_unset" => blk.header.tx_root = [0; 32],
        "unsigned" => signer = None,
        "sig_flip" | "sig_short" => {},
        "wrong_key" => signer = Some(&mallory),
        "unknown_proposer" => { blk.header.proposer = mallory.node_id(); signer = Some(&mallory); },
        "other_validator" => { blk.header.proposer = other.node_id(); signer = Some(&other); },
        _ => return Err(format!("variant {variant}")),
    }
    if let Some(s) = signer { blk.header.signature = s.sign(&blk.header.signing_bytes()); }
    if variant == "sig_flip" { blk.header.signature[3] ^= 0x10; }
    if variant == "sig_short" { blk.header.signature.truncate(10); }

    let (h0, tip0, view0) = (chain.height(), chain.tip_hash(), view(&b.store));
    let given = blk.clone();
    let r = chain.append(blk);
    count(variant != "ok");
    let (h1, tip1, view1) = (chain.height(), chain.tip_hash(), view(&b.store));
    match r {
        Err(e) => {
            if h1 != h0 || tip1 != tip0 || view1 != view0 {
                return Err(format!("append = Err({e:?}) but height {h0}->{h1}, tip {}->{}, store diff [{}]", hex8(&tip0), hex8(&tip1), diff_views(&view0, &view1)));
            }
            Ok(format!("Err({e:?}), chain and store unchanged"))
        },
        Ok(hash) => {
            let mut bad = vec![];
            if h1 != h0 + 1 { bad.push(format!("height {h0}->{h1}")); }
            if given.header.height != h0 + 1 { bad.push(format!("accepted block height {} at chain height {h0}", given.header.height)); }
            if given.header.prev_hash != tip0 { bad.push("accepted block prev_hash != old tip".into()); }
            match chain.get_block_at(h0 + 1) {
                Ok(Some(st)) => {
                    if st.header.prev_hash != tip0 { bad.push("stored prev_hash != old tip".into()); }
                    let fresh = Block::new(BlockHeader::default(), st.transactions.clone()).compute_tx_root();
                    if st.header.tx_root != fresh || !st.verify_tx_root() { bad.push("stored tx_root != recomputed root".into()); }
                    if st.transactions != given.transactions { bad.push("stored transactions differ from the appended ones".into()); }
                    let mut exp = given.clone(); exp.header.tx_root = st.header.tx_root;
                    if st != exp { bad.push("stored block differs from the appended one".into()); }
                    if st.hash() != hash || tip1 != hash { bad.push("tip / returned hash != hash of stored block".into()); }
                    if h0 + 1 > 1 {
                        if st.header.signature.is_empty() { bad.push("unsigned block accepted at height > 1".into()); }
                        if let Some(reg) = &b.registry { if let Err(e) = st.header.verify_signature(reg) { bad.push(format!("accepted block fails signature verification: {e:?}")); } }
                    }
                },
                o => bad.push(format!("get_block_at(new height) = {o:?}")),
            }
            for (k, v) in &view0 { if k != "chain:meta" && !is_graph_key(k) && view1.get(k) != Some(v) { bad.push(format!("pre-existing record {k} changed")); } }
            if bad.is_empty() { Ok(format!("Ok, height {h0}->{h1}")) } else { Err(format!("append = Ok but {}", bad.join("; "))) }
        },
    }
}

fn run_append(rep: &mut Report, tier: Tier) {
    let maxpre = if tier == Tier::Thorough { 4 } else { 2 };
    for registry in [true, false] { for pre in 0..=maxpre { for ntx in 0..=3usize { for variant in VARIANTS {
        let mut ev = (0u64, 0u64);
        let r = append_case(registry, pre, ntx, variant, &mut |nt| { ev.0 += 1; if nt { ev.1 += 1; } });
        for i in 0..ev.0 { rep.eval(i < ev.1); }
        let case = || json!({"registry": registry, "pre": pre, "ntx": ntx, "variant": variant});
        if variant == "wrong_key" && pre == 1 && ntx == 1 && registry { rep.sample(case()); }
        rep.check(OB_APPEND, r.is_ok(), &case, &|| r.clone().unwrap_err());
    } } } }
}

// ------------------------------------------------------------------------------------------------ commit.atomic

fn ws_tx(code: u64) -> Transaction {
    match code {
        0 => Transaction::Put { key: "u:a".into(), data: vec![1, 2, 3] },
        1 => Transaction::Put { key: "u:b".into(), data: vec![4] },
        2 => Transaction::Delete { key: "u:pre1".into() },
        3 => Transaction::Embed { key: "v1".into(), vector: vec![0.5, 0.25, 1.0] },
        4 => Transaction::Put { key: "u:a".into(), data: vec![9, 9] },
        5 => Transaction::Put { key: "u:pre2".into(), data: vec![7] },
        _ => Transaction::Delete { key: "u:a".into() },
    }
}

#[derive(PartialEq, Clone)]
struct Obs { view: View, rows: String, emb: String, height: u64, tip: [u8; 32] }

fn observe(tc: &TensorChain) -> Obs {
    let store = tc.store();
    let rel = relational_engine::RelationalEngine::with_store(store.clone());
    let mut rows: Vec<String> = match rel.select("acct", relational_engine::Condition::True) { Ok(r) => r.iter().map(|r| format!("{r:?}")).collect(), Err(e) => vec![format!("ERR {e:?}")] };
    rows.sort();
    let vec = vector_engine::VectorEngine::with_store(store.clone());
    let emb = format!("{:?}", vec.get_embedding("pre_emb"));
    Obs { view: view(store), rows: rows.join("|"), emb, height: tc.height(), tip: tc.tip_hash() }
}

fn obs_diff(a: &Obs, b: &Obs) -> String {
    let mut v = vec![];
    if a.height != b.height { v.push(format!("height {}->{}", a.height, b.height)); }
    if a.tip != b.tip { v.push(format!("tip {}->{}", hex8(&a.tip), hex8(&b.tip))); }
    if a.rows != b.rows { v.push(format!("table rows [{}] -> [{}]", a.rows, b.rows)); }
    if a.emb != b.emb { v.push(format!("embedding {} -> {}", a.emb, b.emb)); }
    if a.view != b.view { v.push(format!("store keys [{}]", diff_views(&a.view, &b.view))); }
    v.join("; ")
}

/// Run a script; every step is checked against the state immediately before it. Err = first violated step.
fn commit_case(case: &Value, count: &mut dyn FnMut(bool)) -> Result<String, String> {
    let pre_blocks = case["pre_blocks"].as_u64().unwrap_or(0);
    let id = ident(1);
    let store = TensorStore::new();
    // pre-store: user keys, a relational table with two rows, an embedding
    for (k, d) in [("u:pre1", vec![1u8]), ("u:pre2", vec![2u8, 2])] {
        let mut t = TensorData::new(); t.set("data", TensorValue::Scalar(ScalarValue::Bytes(d))); store.put(k, t).map_err(|e| format!("{e:?}"))?;
    }
    {
        use relational_engine::{Column, ColumnType, RelationalEngine, Schema, Value as RV};
        let rel = RelationalEngine::with_store(store.clone());
        rel.create_table("acct", Schema::new(vec![Column::new("id", ColumnType::Int), Column::new("name", ColumnType::String)])).map_err(|e| format!("create_table: {e:?}"))?;
        for (i, n) in [(1i64, "ann"), (2, "bob")] {
            let mut r = HashMap::new(); r.insert("id".to_string(), RV::Int(i)); r.insert("name".to_string(), RV::String(n.into()));
            rel.insert("acct", r).map_err(|e| format!("insert: {e:?}"))?;
        }
        let vec = vector_engine::VectorEngine::with_store(store.clone());
        vec.store_embedding("pre_emb", vec![0.1, 0.2, 0.3]).map_err(|e| format!("store_embedding: {e:?}"))?;
    }
    let mut cfg = ChainConfig::new(id.node_id());
    if let Some(m) = case["max_txs"].as_u64() { cfg = cfg.with_max_txs(m as usize); }
    let tc = TensorChain::with_identity(store.clone(), cfg, ident(1));
    tc.initialize().map_err(|e| format!("initialize: {e:?}"))?;
    for i in 0..pre_blocks {
        let ws = tc.begin().map_err(|e| format!("{e:?}"))?;
        ws.add_operation(Transaction::Put { key: format!("u:blk{i}"), data: vec![i as u8] }).map_err(|e| format!("{e:?}"))?;
        tc.commit(&ws).map_err(|e| format!("pre commit: {e:?}"))?;
    }
    let ops: Vec<Vec<u64>> = case["ops"].as_array().ok_or("ops")?.iter().map(|a| a.as_array().map(|x| x.iter().filter_map(Value::as_u64).collect()).unwrap_or_default()).collect();
    let mut wss: BTreeMap<u64, Arc<tensor_chain::TransactionWorkspace>> = BTreeMap::new();
    let mut committed: BTreeSet<u64> = BTreeSet::new();
    let steps = case["script"].as_array().ok_or("script")?;
    for (si, st) in steps.iter().enumerate() {
        let verb = st[0].as_str().unwrap_or("");
        let w = st[1].as_u64().unwrap_or(0);
        let before = observe(&tc);
        let here = |msg: String| format!("step {si} {verb}({w}): {msg}");
        match verb {
            "begin" => {
                let ws = tc.begin().map_err(|e| here(format!("begin = Err({e:?})")))?;
                count(false);
                for c in ops.get(w as usize).cloned().unwrap_or_default() { ws.add_operation(ws_tx(c)).map_err(|e| here(format!("add_operation = Err({e:?})")))?; }
                wss.insert(w, ws);
                let after = observe(&tc);
                if after != before { return Err(here(format!("begin/add_operation changed the committed state: {}", obs_diff(&before, &after)))); }
            },
            "rollback" => {
                let ws = wss.get(&w).ok_or("rollback before begin")?;
                let r = tc.rollback(ws);
                count(true);
                let after = observe(&tc);
                if after != before { return Err(here(format!("rollback = {r:?} changed chain/store: {}", obs_diff(&before, &after)))); }
            },
            "commit" | "commit_unreg" => {
                let ws = wss.get(&w).ok_or("commit before begin")?.clone();
                let wops = ws.operations();
                let active = ws.is_active();
                if verb == "commit_unreg" { let _ = tc.validator_registry().remove(tc.node_id()); }
                let r = tc.commit(&ws);
                if verb == "commit_unreg" { tc.register_validator(tc.identity()); }
                count(true);
                let after = observe(&tc);
                match r {
                    Err(e) => if after != before { return Err(here(format!("commit = Err({e:?}) but chain/store changed: {}", obs_diff(&before, &after)))); },
                    Ok(hash) if wops.is_empty() || !active => {
                        if !active && !wops.is_empty() && committed.contains(&w) { return Err(here("second commit of a committed workspace returned Ok".into())); }
                        if after != before || hash != before.tip { return Err(here(format!("commit of an empty workspace = Ok but chain/store changed: {}", obs_diff(&before, &after)))); }
                    },
                    Ok(hash) => {
                        committed.insert(w);
                        let mut bad = vec![];
                        if after.height != before.height + 1 { bad.push(format!("height {}->{} (exactly one new block expected)", before.height, after.height)); }
                        if after.tip != hash { bad.push("tip != returned hash".into()); }
                        match tc.get_block(before.height + 1) {
                            Ok(Some(blk)) => {
                                if blk.transactions != wops { bad.push(format!("block holds {} transactions, workspace had {}; not equal", blk.transactions.len(), wops.len())); }
                                if blk.header.prev_hash != before.tip { bad.push("prev_hash != old tip".into()); }
                                if blk.hash() != hash { bad.push("hash(block) != returned hash".into()); }
                                if !blk.verify_tx_root() { bad.push("tx_root mismatch".into()); }
                                if blk.header.verify_signature(tc.validator_registry()).is_err() { bad.push("block signature invalid".into()); }
                            },
                            o => bad.push(format!("get_block(new height) = {o:?}")),
                        }
                        // writes visible: model of the operations over the pre-state
                        let mut model: BTreeMap<String, Option<TensorData>> = BTreeMap::new();
                        for op in &wops {
                            match op {
                                Transaction::Put { key, data } => { let mut t = TensorData::new(); t.set("data", TensorValue::Scalar(ScalarValue::Bytes(data.clone()))); model.insert(key.clone(), Some(t)); },
                                Transaction::Delete { key } => { model.insert(key.clone(), None); },
                                Transaction::Embed { key, vector } => { let mut t = TensorData::new(); t.set("vector", TensorValue::Vector(vector.clone())); model.insert(format!("emb:{key}"), Some(t)); },
                                _ => {},
                            }
                        }
                        for (k, v) in &model { if after.view.get(k) != v.as_ref() { bad.push(format!("write to {k} not visible as specified")); } }
                        // frame: every other pre-existing record is unchanged, the only new records are the block and graph links
                        for (k, v) in &before.view {
                            if model.contains_key(k) || k == "chain:meta" || is_graph_key(k) { continue; }
                            if after.view.get(k) != Some(v) { bad.push(format!("unrelated record {k} changed")); }
                        }
                        for k in after.view.keys() {
                            if before.view.contains_key(k) || model.contains_key(k) || *k == block_key(before.height + 1) || k == "chain:meta" || is_graph_key(k) { continue; }
                            bad.push(format!("unexpected new record {k}"));
                        }
                        if after.rows != before.rows { bad.push(format!("relational rows changed [{}] -> [{}]", before.rows, after.rows)); }
                        if after.emb != before.emb { bad.push("pre-existing embedding changed".into()); }
                        if !bad.is_empty() { return Err(here(format!("commit = Ok but {}", bad.join("; ")))); }
                    },
                }
            },
            _ => return Err(format!("unknown step {verb}")),
        }
        if let Err(e) = tc.verify() { return Err(here(format!("after the step TensorChain::verify = Err({e:?})"))); }
    }
    Ok(format!("{} steps hold, final height {}", steps.len(), tc.height()))
}

/// all interleavings of the per-workspace event lists
fn interleave(lists: &[Vec<Value>]) -> Vec<Vec<Value>> {
    fn rec(lists: &[Vec<Value>], pos: &mut Vec<usize>, cur: &mut Vec<Value>, out: &mut Vec<Vec<Value>>) {
        if pos.iter().zip(lists).all(|(p, l)| *p == l.len()) { out.push(cur.clone()); return; }
        for i in 0..lists.len() {
            if pos[i] < lists[i].len() { cur.push(lists[i][pos[i]].clone()); pos[i] += 1; rec(lists, pos, cur, out); pos[i] -= 1; cur.pop(); }
        }
    }
    let mut out = vec![];
    rec(lists, &mut vec![0; lists.len()], &mut vec![], &mut out);
    out
}

fn run_commit(rep: &mut Report, tier: Tier) {
    let thorough = tier == Tier::Thorough;
    let mut cases: Vec<Value> = vec![];
    let ends1: [&[&str]; 8] = [&["commit"], &["rollback"], &["commit_unreg"], &["commit", "commit"], &["commit", "rollback"], &["rollback", "commit"], &["rollback", "rollback"], &["commit_unreg", "commit"]];
    let ops0: [&[u64]; 5] = [&[], &[0], &[0, 2], &[0, 3, 5], &[0, 6]];
    let ops1: [&[u64]; 2] = [&[1], &[4]];
    for pre in 0..=(if thorough { 2u64 } else { 1 }) {
        for maxtx in [Value::Null, json!(1)] {
            for (oi, o0) in ops0.iter().enumerate() {
                for e in ends1 {
                    let mut s = vec![json!(["begin", 0])];
                    for x in e { s.push(json!([x, 0])); }
                    cases.push(json!({"pre_blocks": pre, "max_txs": maxtx, "ops": [o0], "script": s}));
                }
                if maxtx != Value::Null || (!thorough && oi != 2 && oi != 3) { continue; }
                for o1 in ops1 { for e0 in ["commit", "rollback", "commit_unreg"] { for e1 in ["commit", "rollback", "commit_unreg"] {
                    for s in interleave(&[vec![json!(["begin", 0]), json!([e0, 0])], vec![json!(["begin", 1]), json!([e1, 1])]]) {
                        cases.push(json!({"pre_blocks": pre, "max_txs": maxtx, "ops": [o0, o1], "script": s}));
                    }
                } } }
            }
        }
        if thorough {
            for e in 0..8u32 {
                let ev = |i: u32| if e >> i & 1 == 1 { "commit" } else { "rollback" };
                let lists: Vec<Vec<Value>> = (0..3u32).map(|w| vec![json!(["begin", w]), json!([ev(w), w])]).collect();
                for s in interleave(&lists) { cases.push(json!({"pre_blocks": pre, "max_txs": null, "ops": [[0, 2], [1], [3, 5]], "script": s})); }
            }
        }
    }
    for (i, case) in cases.iter().enumerate() {
        let mut ev = (0u64, 0u64);
        let r = commit_case(case, &mut |nt| { ev.0 += 1; if nt { ev.1 += 1; } });
        for k in 0..ev.0 { rep.eval(k < ev.1); }
        if i == 40 { rep.sample(case.clone()); }
        rep.check(OB_COMMIT, r.is_ok(), &|| case.clone(), &|| r.clone().unwrap_err());
    }
}

// ------------------------------------------------------------------------------------------------ replica.determinism

fn rep_tx(code: u64) -> Transaction {
    match code {
        0 => Transaction::Put { key: "a".into(), data: vec![1] },
        1 => Transaction::Put { key: "a".into(), data: vec![2] },
        2 => Transaction::Put { key: "b".into(), data: vec![3] },
        3 => Transaction::Delete { key: "a".into() },
        4 => Transaction::Embed { key: "e".into(), vector: vec![1.0, 0.5] },
        5 => Transaction::NodeCreate { key: "n".into(), label: "L".into() },
        6 => Transaction::EdgeCreate { from: "n".into(), to: "m".into(), edge_type: "t".into() },
        7 => Transaction::TableInsert { table: "t".into(), values: vec![1] },
        8 => Transaction::TableUpdate { table: "t".into(), row_id: 1, values: vec![2] },
        9 => Transaction::TableDelete { table: "t".into(), row_id: 1 },
        10 => Transaction::CompareAndSwap { key: "a".into(), expected_data: vec![1], new_data: vec![9] },
        11 => Transaction::NodeDelete { key: "n".into() },
        _ => Transaction::Delete { key: "zz".into() },
    }
}

const BLOCK_KINDS: [&[u64]; 8] = [&[], &[0], &[0, 3], &[1, 2], &[4, 5, 6], &[7, 8, 10], &[3, 11, 9], &[10, 12]];

struct Replica { sm: TensorStateMachine, chain: Arc<Chain>, state: TensorStore }

/// chain records on their own store restored from the common genesis snapshot; state on a fresh empty store
fn replica(genesis_snapshot: &[u8], node: &str, reg: &Arc<ValidatorRegistry>) -> Result<Replica, String> {
    let cstore = TensorStore::new();
    cstore.restore_from_bytes(genesis_snapshot).map_err(|e| format!("restore genesis: {e:?}"))?;
    let chain = Arc::new(Chain::with_registry(Arc::new(GraphEngine::with_store(cstore)), node.to_string(), reg.clone()));
    chain.initialize().map_err(|e| format!("{e:?}"))?;
    let raft = Arc::new(RaftNode::new(node.to_string(), vec![], Arc::new(MemoryTransport::new(node.to_string())), RaftConfig::default()));
    let state = TensorStore::new();
    Ok(Replica { sm: TensorStateMachine::new(chain.clone(), raft, state.clone()), chain, state })
}

fn replay_blocks_case(kinds: &[u64], replicas: usize, count: &mut dyn FnMut(bool)) -> Result<String, String> {
    let id = ident(1);
    let node = id.node_id();
    let reg = Arc::new(ValidatorRegistry::new());
    reg.register(&id);
    // genesis made once, shipped to every replica as a snapshot
    let g0 = TensorStore::new();
    let c0 = Chain::with_registry(Arc::new(GraphEngine::with_store(g0.clone())), node.clone(), reg.clone());
    c0.initialize().map_err(|e| format!("{e:?}"))?;
    let gts = c0.get_genesis().map_err(|e| format!("{e:?}"))?.ok_or("genesis")?.header.timestamp;
    let snap = g0.snapshot_bytes().map_err(|e| format!("{e:?}"))?;
    let leader = replica(&snap, &node, &reg)?;
    let model = TensorStore::new();
    let mut blocks = vec![];
    for (i, k) in kinds.iter().enumerate() {
        let txs: Vec<Transaction> = BLOCK_KINDS[*k as usize].iter().map(|c| rep_tx(*c)).collect();
        for t in &txs { apply_transaction_to_store(&model, t).map_err(|e| format!("model apply: {e:?}"))?; }
        let root = compute_state_root(&model).map_err(|e| format!("{e:?}"))?;
        let mut b = leader.chain.new_block().add_transactions(txs).with_state_root(root).build();
        b.header.timestamp = gts + 1 + i as u64;
        b.header.signature = id.sign(&b.header.signing_bytes());
        leader.sm.apply_block(&b).map_err(|e| format!("leader apply_block {} = Err({e:?})", i + 1))?;
        count(true);
        blocks.push(b);
    }
    let lroot = compute_state_root(&leader.state).map_err(|e| format!("{e:?}"))?;
    let mut roots = vec![lroot];
    for r in 0..replicas {
        let rp = replica(&snap, &node, &reg)?;
        for (i, b) in blocks.iter().enumerate() {
            rp.sm.apply_block(b).map_err(|e| format!("replica {r}: apply_block {} = Err({e:?}) although the leader applied it", i + 1))?;
            count(true);
            let root = compute_state_root(&rp.state).map_err(|e| format!("{e:?}"))?;
            if root != b.header.state_root { return Err(format!("replica {r}: root after block {} = {} != header state_root {}", i + 1, hex8(&root), hex8(&b.header.state_root))); }
        }
        if rp.chain.height() != blocks.len() as u64 || rp.chain.tip_hash() != leader.chain.tip_hash() { return Err(format!("replica {r}: height/tip differ from leader")); }
        if view(&rp.state) != view(&leader.state) { return Err(format!("replica {r}: state view differs: [{}]", diff_views(&view(&leader.state), &view(&rp.state)))); }
        rp.chain.verify_chain().map_err(|e| format!("replica {r}: verify_chain = Err({e:?})"))?;
        roots.push(compute_state_root(&rp.state).map_err(|e| format!("{e:?}"))?);
    }
    if roots.iter().any(|r| *r != roots[0]) { return Err(format!("state roots differ: {:?}", roots.iter().map(|r| hex8(r)).collect::<Vec<_>>())); }
    Ok(format!("leader and {replicas} replica(s) agree on root {}", hex8(&roots[0])))
}

fn kv(i: usize) -> (String, TensorData) {
    let mut t = TensorData::new();
    match i % 3 {
        0 => t.set("data", TensorValue::Scalar(ScalarValue::Bytes(vec![i as u8, 1]))),
        1 => { t.set("x", TensorValue::Scalar(ScalarValue::Int(i as i64))); t.set("y", TensorValue::Scalar(ScalarValue::String(format!("s{i}")))); },
        _ => t.set("vector", TensorValue::Vector(vec![i as f32, 0.5])),
    }
    (format!("key{}", ["", "a", "ab", "b", "zz", "0"][i % 6]), t)
}

fn permutations(n: usize) -> Vec<Vec<usize>> {
    if n == 0 { return vec![vec![]]; }
    let mut out = vec![];
    for p in permutations(n - 1) { for i in 0..=p.len() { let mut q = p.clone(); q.insert(i, n - 1); out.push(q); } }
    out
}

fn order_root(order: &[usize], via_tx: bool) -> Result<[u8; 32], String> {
    let s = TensorStore::new();
    for &i in order {
        if via_tx { apply_transaction_to_store(&s, &Transaction::Put { key: format!("k{i}"), data: vec![i as u8] }).map_err(|e| format!("{e:?}"))?; }
        else { let (k, v) = kv(i); s.put(k, v).map_err(|e| format!("{e:?}"))?; }
    }
    compute_state_root(&s).map_err(|e| format!("{e:?}"))
}

fn order_case(n: usize, perm: &[usize], via_tx: bool, ident_root: Option<[u8; 32]>) -> Result<String, String> {
    let ident_order: Vec<usize> = (0..n).collect();
    let a = match ident_root { Some(r) => r, None => order_root(&ident_order, via_tx)? };
    let b = order_root(perm, via_tx)?;
    if a == b { Ok(format!("root {} for both orders", hex8(&a))) } else { Err(format!("insertion order {perm:?} gives root {} but order {ident_order:?} gives {}", hex8(&b), hex8(&a))) }
}

/// state i of the injectivity domain: key j in {absent, value 1, value 2} (base-3 digits), 3 keys
fn inj_store(code: usize) -> TensorStore {
    let s = TensorStore::new();
    for j in 0..3 {
        let d = code / 3usize.pow(j as u32) % 3;
        if d > 0 { let mut t = TensorData::new(); t.set("data", TensorValue::Scalar(ScalarValue::Bytes(vec![d as u8]))); s.put(format!("k{j}"), t).expect("put"); }
    }
    s
}

/// (root of state `a`, root of a store restored from a snapshot of state `a`)
fn inj_roots(a: usize) -> Result<([u8; 32], [u8; 32]), String> {
    let src = inj_store(a);
    let ra = compute_state_root(&src).map_err(|e| format!("{e:?}"))?;
    let r = TensorStore::new();
    r.restore_from_bytes(&src.snapshot_bytes().map_err(|e| format!("{e:?}"))?).map_err(|e| format!("{e:?}"))?;
    Ok((ra, compute_state_root(&r).map_err(|e| format!("{e:?}"))?))
}

fn inj_check(a: usize, b: usize, ra: &([u8; 32], [u8; 32]), rb: &([u8; 32], [u8; 32])) -> Result<String, String> {
    // a store restored from a snapshot has the root of its source
    if ra.1 != ra.0 { return Err(format!("state {a}: root of restored snapshot {} != root of source {}", hex8(&ra.1), hex8(&ra.0))); }
    if (a == b) == (ra.0 == rb.0) { Ok("roots equal iff views equal".into()) } else { Err(format!("states {a},{b}: roots {} {}", hex8(&ra.0), hex8(&rb.0))) }
}

fn inj_case(a: usize, b: usize) -> Result<String, String> { inj_check(a, b, &inj_roots(a)?, &inj_roots(b)?) }

fn run_replica(rep: &mut Report, tier: Tier) {
    let thorough = tier == Tier::Thorough;
    // all sequences up to `full` blocks over the 8 block kinds, plus one block more over 4 of the kinds
    let full = if thorough { 3 } else { 2 };
    let mut seqs: Vec<Vec<u64>> = vec![];
    fn rec(cur: &mut Vec<u64>, maxlen: usize, kinds: &[u64], out: &mut Vec<Vec<u64>>) {
        if !cur.is_empty() { out.push(cur.clone()); }
        if cur.len() == maxlen { return; }
        for k in kinds { cur.push(*k); rec(cur, maxlen, kinds, out); cur.pop(); }
    }
    rec(&mut vec![], full, &[0, 1, 2, 3, 4, 5, 6, 7], &mut seqs);
    let mut longer = vec![];
    rec(&mut vec![], full + 1, if thorough { &[2, 4, 5, 6] } else { &[2, 5, 6] }, &mut longer);
    seqs.extend(longer.into_iter().filter(|s| s.len() == full + 1));
    let replicas = if thorough { 2 } else { 1 };
    for (i, s) in seqs.iter().enumerate() {
        let mut ev = 0u64;
        let r = replay_blocks_case(s, replicas, &mut |_| ev += 1);
        for _ in 0..ev { rep.eval(true); }
        if i == 30 { rep.sample(json!({"kind": "replay", "blocks": s, "replicas": replicas})); }
        rep.check(OB_REPLICA, r.is_ok(), &|| json!({"kind": "replay", "blocks": s, "replicas": replicas}), &|| r.clone().unwrap_err());
    }
    let maxn = if tier == Tier::Thorough { 6 } else { 5 };
    for n in 2..=maxn { for via_tx in [false, true] {
        let ident_root = order_root(&(0..n).collect::<Vec<_>>(), via_tx).ok();
        for p in permutations(n) {
        rep.eval(p.windows(2).any(|w| w[0] > w[1]));
        let r = order_case(n, &p, via_tx, ident_root);
        rep.check(OB_REPLICA, r.is_ok(), &|| json!({"kind": "order", "n": n, "perm": p, "via_tx": via_tx}), &|| r.clone().unwrap_err());
        }
    } }
    let roots: Vec<Result<([u8; 32], [u8; 32]), String>> = (0..27).map(|a| { rep.eval(true); rep.eval(true); inj_roots(a) }).collect();
    for a in 0..27 { for b in a..27 {
        let r = match (&roots[a], &roots[b]) { (Ok(x), Ok(y)) => inj_check(a, b, x, y), (Err(e), _) | (_, Err(e)) => Err(e.clone()) };
        rep.check(OB_REPLICA, r.is_ok(), &|| json!({"kind": "inj", "a": a, "b": b}), &|| r.clone().unwrap_err());
    } }
}

fn replay_replica(case: &Value) -> Result<String, String> {
    match case["kind"].as_str().unwrap_or("") {
        "replay" => replay_blocks_case(&case["blocks"].as_array().ok_or("blocks")?.iter().filter_map(Value::as_u64).collect::<Vec<_>>(), case["replicas"].as_u64().unwrap_or(2) as usize, &mut |_| {}),
        "order" => order_case(case["n"].as_u64().unwrap_or(0) as usize, &case["perm"].as_array().ok_or("perm")?.iter().filter_map(|v| v.as_u64().map(|x| x as usize)).collect::<Vec<_>>(), case["via_tx"].as_bool().unwrap_or(false), None),
        "inj" => inj_case(case["a"].as_u64().unwrap_or(0) as usize, case["b"].as_u64().unwrap_or(0) as usize),
        k => Err(format!("unknown kind {k}")),
    }
}

// ------------------------------------------------------------------------------------------------ hash.binding

fn hb_tx(c: u64) -> Transaction {
    match c { 0 => Transaction::Put { key: "a".into(), data: vec![1] }, 1 => Transaction::Delete { key: "a".into() }, _ => Transaction::Embed { key: "e".into(), vector: vec![1.0] } }
}

fn tx_lists(maxlen: usize) -> Vec<Vec<u64>> {
    let mut out = vec![];
    fn rec(cur: &mut Vec<u64>, maxlen: usize, out: &mut Vec<Vec<u64>>) {
        out.push(cur.clone());
        if cur.len() == maxlen { return; }
        for k in 0..3 { cur.push(k); rec(cur, maxlen, out); cur.pop(); }
    }
    rec(&mut vec![], maxlen, &mut out);
    out
}

fn root_of_list(l: &[u64]) -> [u8; 32] { Block::new(BlockHeader::default(), l.iter().map(|c| hb_tx(*c)).collect()).compute_tx_root() }

fn base_header() -> BlockHeader {
    BlockHeader { height: 3, prev_hash: [0x11; 32], tx_root: [0x22; 32], state_root: [0x33; 32], delta_embedding: SparseVector::from_dense(&[1.0, 0.0, 2.0]),
        quantized_codes: vec![5, 6], timestamp: 1_700_000_000_123, proposer: "node-a".into(), signature: vec![7; 64] }
}

fn hash_case(case: &Value) -> Result<String, String> {
    match case["kind"].as_str().unwrap_or("") {
        // verify_tx_root <=> header root == root recomputed from the same transaction list in a fresh block
        "txroot" => {
            let txs: Vec<u64> = case["txs"].as_array().ok_or("txs")?.iter().filter_map(Value::as_u64).collect();
            let fresh = root_of_list(&txs);
            let hdr = match case["root"].as_str().unwrap_or("") {
                "computed" => fresh, "zero" => [0; 32], "flip" => { let mut r = fresh; r[7] ^= 0x20; r }, "flip_last" => { let mut r = fresh; r[31] ^= 1; r },
                "other" => root_of_list(&[txs.clone(), vec![2]].concat()), o => return Err(format!("root kind {o}")),
            };
            let mut b = Block::new(base_header(), txs.iter().map(|c| hb_tx(*c)).collect());
            b.header.tx_root = hdr;
            let (got, want) = (b.verify_tx_root(), hdr == fresh);
            if got == want { Ok(format!("verify_tx_root = {got}")) } else { Err(format!("verify_tx_root = {got} but (header root == recomputed root) = {want}")) }
        },
        // distinct transaction lists have distinct roots
        "txinj" => {
            let l = |k: &str| -> Vec<u64> { case[k].as_array().map(|a| a.iter().filter_map(Value::as_u64).collect()).unwrap_or_default() };
            let (a, b) = (l("a"), l("b"));
            let (ra, rb) = (root_of_list(&a), root_of_list(&b));
            if (a == b) == (ra == rb) { Ok("roots equal iff lists equal".into()) } else { Err(format!("transaction lists {a:?} and {b:?} have the same tx_root {}: a header root does not bind the list", hex8(&ra))) }
        },
        // every transaction of a long list is covered by the root: altering one (same length) or cutting the tail changes it
        "txedit" => {
            let n = case["n"].as_u64().ok_or("n")? as usize;
            let i = case["i"].as_u64().ok_or("i")? as usize;
            let long_tx = |j: usize, alt: bool| Transaction::Put { key: format!("k{j}"), data: vec![j as u8, u8::from(alt)] };
            let base: Vec<Transaction> = (0..n).map(|j| long_tx(j, false)).collect();
            let edited: Vec<Transaction> = match case["op"].as_str().unwrap_or("") {
                "alter" => (0..n).map(|j| long_tx(j, j == i)).collect(),
                "cut" => base[..i].to_vec(),
                "swap" => { let mut v = base.clone(); v.swap(i, (i + 1) % n); v },
                o => return Err(format!("op {o}")),
            };
            if edited == base { return Ok("not applicable".into()); }
            let (ra, rb) = (Block::new(BlockHeader::default(), base).compute_tx_root(), Block::new(BlockHeader::default(), edited).compute_tx_root());
            if ra != rb { Ok("root changes".into()) } else { Err(format!("a block of {n} transactions and the same block with transaction {i} {} have the same tx_root {}: the root does not cover that transaction",
                match case["op"].as_str().unwrap_or("") { "alter" => "altered", "cut" => "and all later ones removed", _ => "swapped with its successor" }, hex8(&ra))) }
        },
        // every hashed header field enters hash() and signing_bytes()
        "field" => {
            let h0 = base_header();
            let mut nb = Block::new(base_header(), vec![]);
            nb.header = BlockHeader { height: 9, prev_hash: [0x44; 32], tx_root: [0x55; 32], state_root: [0x66; 32], delta_embedding: SparseVector::from_dense(&[0.0, 3.0]),
                quantized_codes: vec![9], timestamp: 42, proposer: "node-b".into(), signature: vec![8; 64] };
            let mut b = Block::new(h0.clone(), vec![]);
            let (f, op) = (case["field"].as_str().unwrap_or(""), case["op"].as_str().unwrap_or(""));
            if !mutate_field(&mut b, f, op, &nb) || b.header == h0 { return Ok("not applicable".into()); }
            let (hc, sc) = (b.header.hash() != h0.hash(), b.header.signing_bytes() != h0.signing_bytes());
            if hc && sc { Ok("hash and signing bytes change".into()) } else { Err(format!("{f}/{op}: hash changed = {hc}, signing_bytes changed = {sc}")) }
        },
        // distinct headers (signature aside) of the product domain have distinct hashes
        "hdrinj" => {
            let mk = |i: u64| -> BlockHeader {
                let t: u64 = 0x0000_0102_0304_0506; let c: u16 = 0x4142;
                let mut h = base_header();
                h.quantized_codes = if i & 1 == 1 { vec![c] } else { vec![] };
                h.timestamp = if i & 2 == 2 { t } else { u64::from(c) | t << 16 };
                h.proposer = if i & 4 == 4 { "p".into() } else { "\0\0p".into() };
                h
            };
            let (a, b) = (mk(case["a"].as_u64().unwrap_or(0)), mk(case["b"].as_u64().unwrap_or(0)));
            let same = a == b;
            if same == (a.hash() == b.hash()) { Ok("hash equal iff header equal".into()) }
            else { Err(format!("distinct headers (codes {:?}, ts {:#x}, proposer {:?}) and (codes {:?}, ts {:#x}, proposer {:?}) have the same hash {} (signing_bytes equal: {})",
                a.quantized_codes, a.timestamp, a.proposer, b.quantized_codes, b.timestamp, b.proposer, hex8(&a.hash()), a.signing_bytes() == b.signing_bytes())) }
        },
        k => Err(format!("unknown kind {k}")),
    }
}

fn run_hash(rep: &mut Report, tier: Tier) {
    let maxlen = if tier == Tier::Thorough { 5 } else { 4 };
    let lists = tx_lists(maxlen);
    let mut cases = vec![];
    for l in &lists { for r in ["computed", "zero", "flip", "flip_last", "other"] { cases.push((json!({"kind": "txroot", "txs": l, "root": r}), !l.is_empty())); } }
    for (i, a) in lists.iter().enumerate() { for b in &lists[i + 1..] { cases.push((json!({"kind": "txinj", "a": a, "b": b}), true)); } }
    for n in 1..=(if tier == Tier::Thorough { 40usize } else { 18 }) { for i in 0..n { for op in ["alter", "cut", "swap"] { cases.push((json!({"kind": "txedit", "n": n, "i": i, "op": op}), n > 4)); } } }
    for f in FIELDS { if f != "signature" { for op in FIELD_OPS { cases.push((json!({"kind": "field", "field": f, "op": op}), true)); } } }
    for a in 0..8u64 { for b in a + 1..8 { cases.push((json!({"kind": "hdrinj", "a": a, "b": b}), true)); } }
    for (c, nt) in &cases {
        let r = hash_case(c);
        if r.as_deref() == Ok("not applicable") { continue; }
        rep.eval(*nt);
        rep.check(OB_HASH, r.is_ok(), &|| c.clone(), &|| r.clone().unwrap_err());
    }
    rep.sample(json!({"kind": "txroot", "txs": [0, 1], "root": "flip"}));
}

// ------------------------------------------------------------------------------------------------ entry points

pub fn run(tier: Tier, seed: u64) -> Report {
    let t = tier == Tier::Thorough;
    let dir = crate::fw::tmpdir("c16_chain"); // no files are needed (in-memory stores); created and removed per the set protocol
    let mut rep = Report::new("c16_chain",
        &format!("append.guard: registry on/off x pre-height 0..{} x 0..3 txs x 15 block variants; \
verify.sound accept: every chain shape of 1..{} blocks with 0..2 txs (+4 shapes with a 3-tx block) x routes (Chain::append with registry on/off; TensorChain::commit for shapes <= 3 blocks without empty blocks), \
plus block 1 left unsigned on the 1-block shapes and [1,1]; each observed on the live instance and on a re-opened Chain; \
detect (keys registered, all blocks signed): chains [3], [3,1], [1,3], all shapes of 1..{} blocks x 0..2 txs, 9 four-block shapes{}, 3 TensorChain-built chains \
x every block incl. genesis x (9 header fields x flip/flip_hi/zero/max/swap-with-neighbour, 5 transaction edits, validator-signature list edit, removal, adjacent swap, 4 forgeries), live and re-opened instance{}; \
commit.atomic: pre-store with 2 keys + relational table (2 rows) + embedding, 0..{} committed blocks, scripts over 1 workspace (8 endings x 5 operation sets x max_txs default/1) \
and all interleavings of 2 workspaces (3x3 endings: commit, rollback, commit with own key unregistered; {} operation sets){}; \
replica.determinism: all sequences of 1..{} blocks over 8 block kinds (13 transactions of all 10 kinds) plus {}-block sequences over {} kinds on leader + {} replica(s), all insertion orders of 2..{} keys (direct put and Put transactions), 27x27 store states; \
hash.binding: all tx lists of length <= {} over 3 txs x 5 header roots, all pairs of those lists, blocks of 1..18 (thorough: 40) distinct transactions x every position altered / cut from / swapped, 8 hashed header fields x 5 ops, 8 headers pairwise",
            if t { 4 } else { 2 }, if t { 5 } else { 4 }, if t { 4 } else { 3 }, if t { ", 3 chains of 5-6 blocks" } else { "" },
            if t { "; plus 300 seeded pairs of simultaneous effective mutations per chain (not exhaustive)" } else { "" },
            if t { 2 } else { 1 }, if t { "5x2" } else { "2x2" },
            if t { "; all interleavings of 3 workspaces x 8 endings" } else { "" },
            if t { 3 } else { 2 }, if t { 4 } else { 3 }, if t { 4 } else { 3 }, if t { 2 } else { 1 }, if t { 6 } else { 5 }, if t { 5 } else { 4 }),
        true,
        &["tensor_chain::Chain::append", "Chain::verify_chain", "Chain::initialize", "TensorChain::{begin,commit,rollback,verify}", "TransactionWorkspace::add_operation",
          "TensorStateMachine::apply_block", "compute_state_root", "Block::{compute_tx_root,verify_tx_root,verify_chain}", "BlockHeader::{hash,signing_bytes,verify_signature}"]);
    rep.declare(OB_APPEND, "tensor_chain::Chain::append");
    rep.declare(OB_VERIFY, "tensor_chain::Chain::verify_chain");
    rep.declare(OB_COMMIT, "tensor_chain::TensorChain::{commit,rollback}");
    rep.declare(OB_REPLICA, "tensor_chain::TensorStateMachine::apply_block / compute_state_root");
    rep.declare(OB_HASH, "tensor_chain::BlockHeader::hash / Block::verify_tx_root");
    run_append(&mut rep, tier);
    run_hash(&mut rep, tier);
    run_replica(&mut rep, tier);
    run_commit(&mut rep, tier);
    run_verify(&mut rep, tier, seed);
    let _ = std::fs::remove_dir_all(dir);
    rep
}

pub fn replay(ob: &str, case: &Value) -> Result<String, String> {
    match ob {
        OB_APPEND => append_case(case["registry"].as_bool().unwrap_or(true), case["pre"].as_u64().unwrap_or(0), case["ntx"].as_u64().unwrap_or(0) as usize,
            case["variant"].as_str().unwrap_or("ok"), &mut |_| {}),
        OB_VERIFY => replay_verify(case),
        OB_COMMIT => commit_case(case, &mut |_| {}),
        OB_REPLICA => replay_replica(case),
        OB_HASH => hash_case(case),
        _ => Err(format!("unknown obligation {ob}")),
    }
}
