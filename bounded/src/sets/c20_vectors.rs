//! C20 (bounded): the snapshot VECTOR codecs.  Property: "Every lossless encoding used for persistence or
//! transport (identifier lists, run-length data, sparse vectors, ...) decodes back to exactly the value that was
//! encoded.  Every lossy encoding reconstructs within its documented error bound.  Every decoder, given
//! arbitrary or truncated bytes, returns an error or a valid value without panicking, over-allocating beyond
//! its declared limits, or reading past the input."
//!
//! Inventory (tensor_compress/src/format.rs + lib.rs re-exports, tensor_store/src/sparse_vector.rs):
//!   CompressedValue  = Scalar | VectorRaw | VectorTT | VectorSparse | IdList | RleInt | Pointer | Pointers
//!                      (no quantised / int8 / binary variant exists in this tree)
//!   encoders         compress_vector (-> VectorTT | IdList | VectorRaw), compress_sparse, compress_dense_as_sparse
//!                    (-> VectorSparse | None), compress_ints (-> RleInt | VectorRaw), CompressedSnapshot::serialize;
//!                    selectors should_use_sparse, should_use_sparse_threshold, sparse_storage_size
//!   decoders         decompress_vector, decompress_ints, CompressedSnapshot::deserialize (+ Header::validate)
//!   SparseVector     from_dense / try_from_dense / try_from_parts -> to_dense, serde (bitcode) both ways,
//!                    from_dense_with_threshold (lossy), TensorValue::from_embedding (lossy when it goes sparse)
//!
//! "Same value" (clause `same`): a component that is numerically zero (+0.0 or -0.0) must come back numerically
//! zero (either sign: the sparse encodings do not store zeros, and -0.0 == 0.0); every other component, NaN
//! payloads / subnormals / infinities included, must come back BIT-identical (`to_bits`).  Lengths must agree.
//!
//!   C20.vector.sparse.exact     lossless paths that yield VectorSparse or VectorRaw, and the SparseVector
//!                               conversions: decode(encode(v)) `same` as v.  Paths: compress_dense_as_sparse
//!                               (alone, and gated by should_use_sparse_threshold(v, t), t in {0, 0.5, 0.7, 1});
//!                               compress_sparse on the numerically non-zero components; VectorRaw; compress_vector
//!                               under every configuration x key/field hint of `AUTO_CFG` x `AUTO_KEYS` whenever
//!                               the chosen variant is VectorRaw / VectorSparse; each also through
//!                               CompressedSnapshot::serialize -> deserialize; SparseVector::try_from_dense,
//!                               try_from_parts, bitcode(SparseVector) -> to_dense
//!   C20.vector.idlist.exact     the same clause when compress_vector chose IdList by CONTENT (the sorted
//!                               non-negative integers heuristic; documented "Lossless compression for sorted ID
//!                               sequences")
//!   C20.vector.idlist.named     the same clause when compress_vector chose IdList by FIELD NAME (`ids`, `*_ids`)
//!   C20.vector.lossy.bound      SparseVector::try_from_dense_with_threshold(v, t) ("values below threshold become
//!                               zero") and TensorValue::from_embedding(v, t, s), vectors without NaN: every
//!                               component comes back bit-identical, or it was below the threshold (|x| < t) and
//!                               comes back zero.  Tensor-Train (compress_vector on emb:* / _embedding / vector
//!                               fields with a TensorMode; documented "<1% error", tensor_compress::TensorMode):
//!                               relative L2 error <= 0.01 for vectors WITHIN the configured rank budget (every
//!                               unfolding rank <= max_rank, so only the tolerance truncates): constant, ramp, sine,
//!                               rank-1 product, single spike, alternating sign at every dimension, and a
//!                               multiplicative-hash pseudo-random fill where the shape cannot exceed max_rank;
//!                               components of moderate magnitude (|x| < 1e3; the relative error of overflowing /
//!                               underflowing norms is not defined).  Pseudo-random fills beyond the rank budget
//!                               are the known finding C07.embedding.threshold and are not in this domain.
//!   C20.vector.lossy.tt_decodes for the same tensor-train cases: what compress_vector returns is accepted by
//!                               decompress_vector and has the encoded length
//!   C20.vector.lossy.nan        the threshold clause on vectors that contain a NaN (a NaN is not below any
//!                               threshold, so it must come back bit-identical)
//!   C20.vector.decode.total     decompress_vector / decompress_ints / CompressedSnapshot::deserialize /
//!                               SparseVector::try_from_parts on STRUCTURED garbage: returns Err, or Ok(value of
//!                               the declared dimension in which every listed in-range position holds one of the
//!                               values listed for it and every other component is +0.0) that re-encodes and
//!                               decodes to the `same` vector; never panics / aborts.  Families: VectorSparse with
//!                               hand-built delta+varint position bytes (sorted, unsorted, duplicates, running sum
//!                               wrapping u64 so that the positions are e.g. [500, 1, 2, 3] for dimension 10,
//!                               position == dimension-1 / dimension / dimension+1 / u32::MAX / 2^32 / u64::MAX,
//!                               malformed varints) x dimension {0, 1, 2, 10, 1000, 2^20} x value count {=, -1, +1,
//!                               0}; VectorTT with one structural field substituted at a time; RleInt; IdList;
//!                               snapshot headers (magic / version / entry count); every truncation and every
//!                               single-bit flip of the bitcode encoding of one short value per variant and of a
//!                               one-entry snapshot (a decoded value declaring more than 2^20 elements is outside
//!                               this family: see c20_garbage for huge dimensions)
//!   C20.vector.decode.snapshot_load  the consumer of those values, TensorStore::load_snapshot_compressed, on a
//!                               snapshot FILE holding the same VectorSparse families with as many values as
//!                               positions (try_from_parts debug-asserts equal lengths, release builds zip):
//!                               Err, or Ok(store whose field has the declared dimension); never panics
//!
//! Decoder cases run in CHILD processes (batches; `bounded replay c20_vectors <ob> {"batch": [...]}` under
//! `ulimit -v 3 GiB`, the cap of c20_garbage): a panic is caught per case, an abort / OOM kill fails the case
//! that was running and the batch continues in a new child.
use crate::fw::{no_panic, Report, Rng, Tier};
use serde_json::{json, Value};
use std::collections::BTreeMap;
use std::io::Write;
use std::panic::AssertUnwindSafe;
use tensor_compress::format::{compress_ints, compress_vector, decompress_ints, decompress_vector, should_use_sparse_threshold,
                              CompressedEntry, CompressedSnapshot, CompressedValue, Header};
use tensor_compress::{compress_dense_as_sparse, compress_sparse, decompress_ids, rle_decode, rle_encode, CompressionConfig, RleEncoded, TTConfig, TTCore, TensorMode};
use tensor_store::{SparseVector, TensorStore, TensorValue};

const O_EXACT: &str = "C20.vector.sparse.exact";
const O_IDL: &str = "C20.vector.idlist.exact";
const O_LOSSY: &str = "C20.vector.lossy.bound";
const O_IDN: &str = "C20.vector.idlist.named";
const O_NAN: &str = "C20.vector.lossy.nan";
const O_TTDEC: &str = "C20.vector.lossy.tt_decodes";
const O_TOTAL: &str = "C20.vector.decode.total";
const O_LOAD: &str = "C20.vector.decode.snapshot_load";

const CHILD_ENV: &str = "C20_VECTORS_CHILD";
const DIR_ENV: &str = "C20_VECTORS_DIR";
const MAX_DECL: u128 = 1 << 20;

// ---------------------------------------------------------------------------------------------------------
// component alphabet and vectors
// ---------------------------------------------------------------------------------------------------------
const NA: usize = 15;
fn alpha(i: usize) -> f32 {
    match i {
        0 => 0.0, 1 => -0.0, 2 => 1.0, 3 => -1.5, 4 => 5e-7, 5 => 1e-6, 6 => -1e-6, 7 => f32::MIN_POSITIVE,
        8 => f32::from_bits(1), 9 => f32::MAX, 10 => f32::MIN, 11 => f32::INFINITY, 12 => f32::NEG_INFINITY,
        13 => f32::from_bits(0x7fc0_1234), _ => 1e-30,
    }
}

/// `same` clause of the header comment
fn same(orig: f32, got: f32) -> bool { if orig == 0.0 { got == 0.0 } else { orig.to_bits() == got.to_bits() } }

fn same_vec(orig: &[f32], got: &[f32]) -> Result<(), String> {
    if orig.len() != got.len() { return Err(format!("length {} decoded as length {}", orig.len(), got.len())); }
    for (i, (a, b)) in orig.iter().zip(got).enumerate() {
        if !same(*a, *b) { return Err(format!("component {i}: {a:e} (0x{:08x}) decoded as {b:e} (0x{:08x})", a.to_bits(), b.to_bits())); }
    }
    Ok(())
}

/// {"n": len, "at": [[index, alphabet index], ...]}: +0.0 everywhere else
fn vec_of(case: &Value) -> Vec<f32> {
    let n = case["n"].as_u64().unwrap_or(0) as usize;
    let mut v = vec![0.0f32; n];
    if let Some(at) = case["at"].as_array() {
        for p in at {
            let i = p[0].as_u64().unwrap_or(0) as usize;
            if i < n { v[i] = alpha(p[1].as_u64().unwrap_or(0) as usize); }
        }
    }
    v
}

const AUTO_CFG: [&str; 7] = ["default", "delta", "rle", "delta_rle", "balanced", "high_accuracy", "high_compression"];
const AUTO_KEYS: [(&str, &str); 6] = [("k", "data"), ("k", "ids"), ("k", "row_ids"), ("emb:k", "data"), ("k", "_embedding"), ("k", "vector")];

fn cfg_of(name: &str, n: usize) -> Option<CompressionConfig> {
    Some(match name {
        "default" => CompressionConfig::default(),
        "delta" => CompressionConfig { delta_encoding: true, ..Default::default() },
        "rle" => CompressionConfig { rle_encoding: true, ..Default::default() },
        "delta_rle" => CompressionConfig { delta_encoding: true, rle_encoding: true, ..Default::default() },
        "balanced" => { if n == 0 { return None; } CompressionConfig::balanced(n) },
        "high_accuracy" => { if n == 0 { return None; } CompressionConfig::high_accuracy(n) },
        "high_compression" => CompressionConfig::high_compression(),
        "tt_high_compression" => { if n == 0 { return None; } CompressionConfig { tensor_mode: Some(TensorMode::high_compression(n)), ..Default::default() } },
        _ => return None,
    })
}

fn through_snapshot(c: CompressedValue) -> Result<CompressedValue, String> {
    let mut fields = BTreeMap::new();
    fields.insert("f".to_string(), c);
    let snap = CompressedSnapshot { header: Header::new(CompressionConfig::default(), 1), entries: vec![CompressedEntry { key: "k".to_string(), fields }] };
    let bytes = snap.serialize().map_err(|e| format!("CompressedSnapshot::serialize = Err({e})"))?;
    let mut back = CompressedSnapshot::deserialize(&bytes).map_err(|e| format!("CompressedSnapshot::deserialize of the serialized snapshot = Err({e})"))?;
    back.entries.pop().and_then(|mut e| e.fields.remove("f")).ok_or_else(|| "the serialized snapshot lost its entry".to_string())
}

fn variant(c: &CompressedValue) -> &'static str {
    match c {
        CompressedValue::Scalar(_) => "Scalar", CompressedValue::VectorRaw(_) => "VectorRaw", CompressedValue::VectorTT { .. } => "VectorTT",
        CompressedValue::VectorSparse { .. } => "VectorSparse", CompressedValue::IdList(_) => "IdList", CompressedValue::RleInt(_) => "RleInt",
        CompressedValue::Pointer(_) => "Pointer", CompressedValue::Pointers(_) => "Pointers",
    }
}

fn decode(c: &CompressedValue) -> Result<Vec<f32>, String> {
    match no_panic(AssertUnwindSafe(|| decompress_vector(c))) {
        Err(p) => Err(format!("decompress_vector panicked: {p}")),
        Ok(Err(e)) => Err(format!("decompress_vector = Err({e})")),
        Ok(Ok(v)) => Ok(v),
    }
}

fn nonzeros(v: &[f32]) -> (Vec<u32>, Vec<f32>) {
    let mut p = vec![];
    let mut x = vec![];
    for (i, &c) in v.iter().enumerate() { if c != 0.0 { p.push(i as u32); x.push(c); } }
    (p, x)
}

// ---------------------------------------------------------------------------------------------------------
// exact round trips
// ---------------------------------------------------------------------------------------------------------
/// None = the encoder declined / the precondition of the path does not hold (nothing to decode)
fn eval_exact(case: &Value) -> Option<(&'static str, bool, String)> {
    let v = vec_of(case);
    let path = case["path"].as_str().unwrap_or("");
    let ser = case["ser"].as_bool().unwrap_or(false);
    let enc: CompressedValue = match path {
        "dense_as_sparse" => {
            if let Some(t) = case["thr"].as_f64() { if !should_use_sparse_threshold(&v, t as f32) { return None; } }
            match no_panic(AssertUnwindSafe(|| compress_dense_as_sparse(&v))) {
                Err(p) => return Some((O_EXACT, false, format!("compress_dense_as_sparse panicked: {p}"))),
                Ok(None) => return None,
                Ok(Some(c)) => c,
            }
        },
        "sparse_direct" => { let (p, x) = nonzeros(&v); compress_sparse(v.len(), &p, &x) },
        "raw" => CompressedValue::VectorRaw(v.clone()),
        "auto" => {
            let cfg = cfg_of(case["cfg"].as_str().unwrap_or(""), v.len())?;
            match no_panic(AssertUnwindSafe(|| compress_vector(&v, case["key"].as_str().unwrap_or("k"), case["field"].as_str().unwrap_or("data"), &cfg))) {
                Err(p) => return Some((O_EXACT, false, format!("compress_vector panicked: {p}"))),
                Ok(Err(_)) => return None,
                Ok(Ok(c)) => c,
            }
        },
        "sv_dense" | "sv_parts" | "sv_bytes" => {
            let got: Result<Vec<f32>, String> = no_panic(AssertUnwindSafe(|| -> Result<Vec<f32>, String> {
                let sv = if path == "sv_parts" { let (p, x) = nonzeros(&v); SparseVector::try_from_parts(v.len(), p, x) } else { SparseVector::try_from_dense(&v) }.map_err(|e| format!("constructor = Err({e})"))?;
                let sv = if path == "sv_bytes" {
                    let b = bitcode::serialize(&sv).map_err(|e| format!("bitcode::serialize(SparseVector) = Err({e})"))?;
                    bitcode::deserialize::<SparseVector>(&b).map_err(|e| format!("bitcode::deserialize(SparseVector) = Err({e})"))?
                } else { sv };
                if sv.dimension() != v.len() { return Err(format!("dimension() = {} for a vector of length {}", sv.dimension(), v.len())); }
                Ok(sv.to_dense())
            })).unwrap_or_else(|p| Err(format!("panicked: {p}")));
            return Some(match got.and_then(|d| same_vec(&v, &d)) { Ok(()) => (O_EXACT, true, String::new()), Err(e) => (O_EXACT, false, format!("SparseVector {path}: {e}")) });
        },
        _ => return None,
    };
    let var0 = variant(&enc);
    let named = case["field"].as_str().is_some_and(|f| f == "ids" || f.ends_with("_ids"));
    let ob = match var0 { "IdList" if named => O_IDN, "IdList" => O_IDL, "VectorTT" => return None, _ => O_EXACT };
    let enc = if ser { match through_snapshot(enc) { Ok(c) => c, Err(e) => return Some((ob, false, e)) } } else { enc };
    if variant(&enc) != var0 { return Some((ob, false, format!("{var0} came back from the serialized snapshot as {}", variant(&enc)))); }
    Some(match decode(&enc).and_then(|d| same_vec(&v, &d)) {
        Ok(()) => (ob, true, String::new()),
        Err(e) => (ob, false, format!("{path} -> {var0}{}: {e}", if ser { " -> snapshot bytes" } else { "" })),
    })
}

fn push_exact_cases(out: &mut Vec<Value>, n: usize, at: &[(usize, usize)], auto_all: bool) {
    let at: Vec<Value> = at.iter().filter(|(_, a)| *a != 0).map(|(i, a)| json!([i, a])).collect();
    let base = |path: &str| json!({"n": n, "at": at, "path": path});
    for ser in [false, true] {
        for p in ["dense_as_sparse", "sparse_direct", "raw"] { let mut c = base(p); c["ser"] = json!(ser); out.push(c); }
    }
    if n >= 5 { for t in [0.0, 0.5, 0.7, 1.0] { let mut c = base("dense_as_sparse"); c["thr"] = json!(t); out.push(c); } }
    for p in ["sv_dense", "sv_parts", "sv_bytes"] { out.push(base(p)); }
    for (ci, cfg) in AUTO_CFG.iter().enumerate() {
        for (ki, (key, field)) in AUTO_KEYS.iter().enumerate() {
            // long vectors: the three distinct routes only (plain / named id field / embedding hint), every configuration
            if !auto_all && !matches!(ki, 0 | 1 | 5) { continue; }
            let mut c = base("auto");
            c["cfg"] = json!(cfg); c["key"] = json!(key); c["field"] = json!(field);
            c["ser"] = json!((ci + ki) % 2 == 1);
            out.push(c);
        }
    }
}

fn exact_vectors(tier: Tier) -> Vec<(usize, Vec<(usize, usize)>, bool)> {
    let mut vs: Vec<(usize, Vec<(usize, usize)>, bool)> = vec![];
    // every vector of length <= 3 (quick) / 4 (thorough) over the whole alphabet
    let full = if tier == Tier::Thorough { 4 } else { 3 };
    for n in 1..=full {
        let mut idx = vec![0usize; n];
        loop {
            vs.push((n, idx.iter().copied().enumerate().collect(), true));
            let mut k = 0;
            while k < n { idx[k] += 1; if idx[k] < NA { break; } idx[k] = 0; k += 1; }
            if k == n { break; }
        }
    }
    // lengths 4..=6 and long vectors: every subset of {first, middle, last} carrying every alphabet combination
    for n in [4usize, 5, 6, 64, 100, 1000] {
        if n <= full { continue; }
        let slots = [0, n / 2, n - 1];
        for mask in 0..8usize {
            let chosen: Vec<usize> = (0..3).filter(|b| mask >> b & 1 == 1).map(|b| slots[b]).collect();
            let mut idx = vec![1usize; chosen.len()]; // alphabet index 0 (+0.0) at a chosen slot is the smaller mask
            loop {
                vs.push((n, chosen.iter().copied().zip(idx.iter().copied()).collect(), n <= 6));
                let mut k = 0;
                while k < idx.len() { idx[k] += 1; if idx[k] < NA { break; } idx[k] = 1; k += 1; }
                if k == idx.len() { break; }
            }
        }
    }
    vs
}

// ---------------------------------------------------------------------------------------------------------
// lossy encodings
// ---------------------------------------------------------------------------------------------------------
const THRESHOLDS: [f32; 7] = [0.0, f32::MIN_POSITIVE, 1e-6, 0.01, 1.0, 1.5, f32::INFINITY];

fn thr_clause(v: &[f32], got: &[f32], t: f32) -> Result<(), String> {
    if v.len() != got.len() { return Err(format!("length {} came back as length {}", v.len(), got.len())); }
    for (i, (a, b)) in v.iter().zip(got).enumerate() {
        let kept = same(*a, *b);
        let dropped = a.abs() < t && *b == 0.0;
        if !(kept || dropped) { return Err(format!("component {i}: {a:e} (0x{:08x}) came back as {b:e} (0x{:08x}) with threshold {t:e}: neither kept exactly nor below the threshold and zeroed", a.to_bits(), b.to_bits())); }
    }
    Ok(())
}

fn tt_shape(dim: usize, preset: &str) -> Option<TTConfig> {
    match preset { "balanced" => TTConfig::for_dim(dim).ok(), "high_accuracy" => TTConfig::high_accuracy(dim).ok(), _ => TTConfig::high_compression(dim).ok() }
}

fn within_rank_budget(c: &TTConfig) -> bool {
    (1..c.shape.len()).all(|k| {
        let l: usize = c.shape[..k].iter().product();
        let r: usize = c.shape[k..].iter().product();
        l.min(r) <= c.max_rank
    })
}

fn tt_vector(class: &str, shape: &[usize]) -> Vec<f32> {
    let dim: usize = shape.iter().product();
    (0..dim).map(|i| match class {
        "const" => 0.5,
        "ramp" => 0.25 + i as f32 / dim as f32,
        "sine" => 2.0 + (i as f32 * 0.1).sin(),
        "rank1" => {
            let mut rem = i;
            let mut x = 1.0f32;
            for (k, &m) in shape.iter().enumerate().rev() { let j = rem % m; rem /= m; x *= 1.0 + 0.25 * j as f32 * if k % 2 == 0 { 1.0 } else { -0.5 }; }
            x
        },
        "spike" => if i == dim / 3 { 1.0 } else { 0.0 },
        "alt" => if i % 2 == 0 { 1.0 } else { -1.0 },
        _ => ((i as u32).wrapping_mul(2_654_435_761) >> 8) as f32 / 16_777_216.0 - 0.5,
    }).collect()
}

/// empty = the precondition of the case does not hold (nothing was encoded)
fn eval_lossy(case: &Value) -> Vec<(&'static str, bool, String)> {
    if case["fam"] == "ttenc" { return eval_tt(case).unwrap_or_default(); }
    eval_prune(case).into_iter().collect()
}

fn eval_prune(case: &Value) -> Option<(&'static str, bool, String)> {
    match case["fam"].as_str().unwrap_or("") {
        "thr" => {
            let v = vec_of(case);
            let t = THRESHOLDS[case["t"].as_u64()? as usize % THRESHOLDS.len()];
            let ob = if v.iter().any(|x| x.is_nan()) { O_NAN } else { O_LOSSY };
            let got = no_panic(AssertUnwindSafe(|| SparseVector::try_from_dense_with_threshold(&v, t).map(|s| s.to_dense())));
            Some(match got {
                Err(p) => (ob, false, format!("try_from_dense_with_threshold panicked: {p}")),
                Ok(Err(e)) => (ob, false, format!("try_from_dense_with_threshold = Err({e})")),
                Ok(Ok(d)) => match thr_clause(&v, &d, t) { Ok(()) => (ob, true, String::new()), Err(e) => (ob, false, format!("from_dense_with_threshold: {e}")) },
            })
        },
        "emb" => {
            let v = vec_of(case);
            let t = THRESHOLDS[case["t"].as_u64()? as usize % THRESHOLDS.len()];
            let s = case["s"].as_f64()? as f32;
            let ob = if v.iter().any(|x| x.is_nan()) { O_NAN } else { O_LOSSY };
            let got = no_panic(AssertUnwindSafe(|| { let tv = TensorValue::from_embedding(v.clone(), t, s); (matches!(tv, TensorValue::Sparse(_)), tv.to_dense()) }));
            Some(match got {
                Err(p) => (ob, false, format!("TensorValue::from_embedding panicked: {p}")),
                Ok((_, None)) => (ob, false, "from_embedding produced a value without a dense view".to_string()),
                Ok((sparse, Some(d))) => {
                    let r = if sparse { thr_clause(&v, &d, t) } else { same_vec(&v, &d) };
                    match r { Ok(()) => (ob, true, String::new()), Err(e) => (ob, false, format!("from_embedding (stored {}): {e}", if sparse { "Sparse" } else { "Vector" })) }
                },
            })
        },
        _ => None,
    }
}

fn eval_tt(case: &Value) -> Option<Vec<(&'static str, bool, String)>> {
    let dim = case["dim"].as_u64()? as usize;
    let preset = case["preset"].as_str()?;
    let ttc = tt_shape(dim, preset)?;
    let within = within_rank_budget(&ttc);
    let class = case["class"].as_str()?;
    // beyond the rank budget the truncation to max_rank dominates (known finding C07.embedding.threshold): not in this domain
    if !within && class == "hash" { return None; }
    let ob = O_LOSSY;
    let v = tt_vector(class, &ttc.shape);
    let cfg = match preset { "high_compression" if dim == 4096 => CompressionConfig::high_compression(), "high_compression" => cfg_of("tt_high_compression", dim)?, p => cfg_of(p, dim)? };
    let (key, field) = AUTO_KEYS[case["hint"].as_u64().unwrap_or(5) as usize % AUTO_KEYS.len()];
    let enc = match no_panic(AssertUnwindSafe(|| compress_vector(&v, key, field, &cfg))) {
        Err(p) => return Some(vec![(O_TTDEC, false, format!("compress_vector panicked: {p}"))]),
        Ok(Err(e)) => return Some(vec![(O_TTDEC, false, format!("compress_vector refused a {dim}-dimensional vector under its own preset: Err({e})"))]),
        Ok(Ok(c)) => c,
    };
    if variant(&enc) != "VectorTT" { return None; }
    let enc = if case["ser"].as_bool().unwrap_or(false) { match through_snapshot(enc) { Ok(c) => c, Err(e) => return Some(vec![(O_TTDEC, false, e)]) } } else { enc };
    let layout = if let CompressedValue::VectorTT { cores, shape, ranks, original_dim } = &enc { format!("shape {shape:?} ranks {ranks:?} original_dim {original_dim} cores {:?}", cores.iter().map(|c| (c.shape, c.data.len())).collect::<Vec<_>>()) } else { String::new() };
    Some(match decode(&enc) {
        Err(e) => vec![(O_TTDEC, false, format!("class {class}: the encoder's own output ({layout}) is refused: {e}"))],
        Ok(d) if d.len() != v.len() => vec![(O_TTDEC, false, format!("class {class}: a {}-dimensional vector ({layout}) came back with {} components", v.len(), d.len()))],
        Ok(d) => {
            let err: f64 = v.iter().zip(&d).map(|(a, b)| (f64::from(*a) - f64::from(*b)).powi(2)).sum::<f64>().sqrt();
            let norm: f64 = v.iter().map(|a| f64::from(*a).powi(2)).sum::<f64>().sqrt();
            let rel = err / norm;
            vec![(O_TTDEC, true, String::new()),
                 (ob, rel <= 0.01, format!("dimension {dim} shape {:?} max_rank {} tolerance {:e} class {class}: relative L2 reconstruction error {rel:.4} > documented 0.01", ttc.shape, ttc.max_rank, ttc.tolerance))]
        },
    })
}

fn lossy_cases(tier: Tier) -> Vec<Value> {
    let mut out = vec![];
    let full = if tier == Tier::Thorough { 3 } else { 2 };
    for n in 1..=full {
        let mut idx = vec![0usize; n];
        loop {
            let at: Vec<Value> = idx.iter().enumerate().filter(|(_, a)| **a != 0).map(|(i, a)| json!([i, a])).collect();
            for t in 0..THRESHOLDS.len() {
                out.push(json!({"fam": "thr", "n": n, "at": at, "t": t}));
                for s in [0.0, 0.5, 0.7, 1.0] { out.push(json!({"fam": "emb", "n": n, "at": at, "t": t, "s": s})); }
            }
            let mut k = 0;
            while k < n { idx[k] += 1; if idx[k] < NA { break; } idx[k] = 0; k += 1; }
            if k == n { break; }
        }
    }
    // long vectors: threshold pruning with few survivors
    for n in [10usize, 100] { for a in 1..NA { for t in 0..THRESHOLDS.len() {
        out.push(json!({"fam": "thr", "n": n, "at": [[0, a], [n - 1, 2]], "t": t}));
        out.push(json!({"fam": "emb", "n": n, "at": [[n / 2, a]], "t": t, "s": 0.7}));
    } } }
    let dims: &[usize] = if tier == Tier::Thorough { &[8, 64, 100, 256, 384, 1024, 4096] } else { &[8, 64, 256, 1024] };
    for &dim in dims { for preset in ["balanced", "high_accuracy", "high_compression"] {
        for (ci, class) in ["const", "ramp", "sine", "rank1", "spike", "alt", "hash"].iter().enumerate() {
            out.push(json!({"fam": "ttenc", "dim": dim, "preset": preset, "class": class, "hint": 3 + ci % 3, "ser": ci % 2 == 0}));
        }
    } }
    out.push(json!({"fam": "ttenc", "dim": 4096, "preset": "high_compression", "class": "sine", "hint": 5, "ser": true}));
    out
}

// ---------------------------------------------------------------------------------------------------------
// decoders on structured garbage (evaluated in the child)
// ---------------------------------------------------------------------------------------------------------
fn varint(vals: &[u64]) -> Vec<u8> {
    let mut out = vec![];
    for &v in vals { let mut v = v; loop { let b = (v & 0x7f) as u8; v >>= 7; if v == 0 { out.push(b); break; } out.push(b | 0x80); } }
    out
}

fn u64s(v: &Value) -> Vec<u64> {
    v.as_array().map(|a| a.iter().map(|x| x.as_str().and_then(|s| s.parse().ok()).or_else(|| x.as_u64()).unwrap_or(0)).collect()).unwrap_or_default()
}

fn bytes_of(v: &Value) -> Vec<u8> { v.as_array().map(|a| a.iter().map(|x| x.as_u64().unwrap_or(0) as u8).collect()).unwrap_or_default() }

/// position bytes of a sparse case: "deltas" (hand-encoded delta list, well-formed varints) or raw "pbytes"
fn sparse_value(case: &Value) -> CompressedValue {
    let positions = if case.get("pbytes").is_some() { bytes_of(&case["pbytes"]) } else { varint(&u64s(&case["deltas"])) };
    let k = case["nvals"].as_u64().unwrap_or(0) as usize;
    let values: Vec<f32> = (0..k).map(|j| if case["valpha"].as_bool().unwrap_or(false) { alpha((j + 1) % NA) } else { (j + 1) as f32 }).collect();
    CompressedValue::VectorSparse { dimension: case["dim"].as_u64().unwrap_or(0) as usize, positions, values }
}

fn tt_value(case: &Value) -> CompressedValue {
    let cores: Vec<TTCore> = case["cores"].as_array().map(|a| a.iter().map(|c| {
        let f = |i: usize| c[i].as_u64().unwrap_or(0) as usize;
        TTCore { data: (0..f(3)).map(|j| 0.5 + j as f32).collect(), shape: (f(0), f(1), f(2)) }
    }).collect()).unwrap_or_default();
    let us = |v: &Value| -> Vec<usize> { v.as_array().map(|a| a.iter().map(|x| x.as_u64().unwrap_or(0) as usize).collect()).unwrap_or_default() };
    CompressedValue::VectorTT { cores, original_dim: case["odim"].as_u64().unwrap_or(0) as usize, shape: us(&case["shape"]), ranks: us(&case["ranks"]) }
}

fn short_values() -> Vec<CompressedValue> {
    let tt = compress_vector(&[1.0, 2.0, 3.0, 5.0], "emb:k", "vector", &CompressionConfig { tensor_mode: Some(TensorMode::TensorTrain(TTConfig { shape: vec![2, 2], max_rank: 2, tolerance: 1e-4 })), ..Default::default() })
        .expect("harness: TT encoding of a 4-vector");
    vec![
        compress_sparse(8, &[1, 5], &[1.0, 2.0]),
        CompressedValue::VectorRaw(vec![1.0, -0.0, f32::from_bits(0x7fc0_1234)]),
        tt,
        CompressedValue::IdList(tensor_compress::compress_ids(&[1, 2, 300])),
        CompressedValue::RleInt(RleEncoded { values: vec![7, -9], run_lengths: vec![3, 2] }),
        compress_sparse(300, &[0, 128, 299], &[-1.5, 1e-30, f32::MAX]),
    ]
}

fn mutate(bytes: &[u8], m: &Value) -> Vec<u8> {
    let mut b = bytes.to_vec();
    if let Some(t) = m.get("trunc").and_then(Value::as_u64) { b.truncate(t as usize); }
    if let Some(f) = m.get("flip").and_then(Value::as_u64) { let i = (f / 8) as usize; if i < b.len() { b[i] ^= 1 << (f % 8); } }
    b
}

/// declared element count of a value (what a decoder may have to allocate); None = overflow
fn declared(c: &CompressedValue) -> Option<u128> {
    Some(match c {
        CompressedValue::VectorSparse { dimension, .. } => *dimension as u128,
        CompressedValue::VectorTT { shape, cores, .. } => {
            let mut p: u128 = 1;
            for &m in shape { p = p.checked_mul(m as u128)?; }
            for c in cores { p = p.max((c.shape.0 as u128).checked_mul(c.shape.2 as u128)?); }
            p
        },
        CompressedValue::RleInt(r) => r.run_lengths.iter().map(|&x| u128::from(x)).sum(),
        _ => 0,
    })
}

/// the clause of C20.vector.decode.total for one decoded-from-storage value
fn judge_value(c: &CompressedValue) -> Result<String, String> {
    let r = no_panic(AssertUnwindSafe(|| decompress_vector(c))).map_err(|p| format!("decompress_vector({}) panicked: {p}", variant(c)))?;
    let ints = no_panic(AssertUnwindSafe(|| decompress_ints(c))).map_err(|p| format!("decompress_ints({}) panicked: {p}", variant(c)))?;
    if let CompressedValue::RleInt(_) = c {
        let back = no_panic(AssertUnwindSafe(|| rle_decode(&rle_encode(&ints)))).map_err(|p| format!("re-encoding the decoded run-length data panicked: {p}"))?;
        if back != ints { return Err(format!("decoded run-length data ({} values) does not survive rle_encode / rle_decode", ints.len())); }
        let again = decompress_ints(&compress_ints(&ints, &CompressionConfig { rle_encoding: true, ..Default::default() }));
        if matches!(compress_ints(&ints, &CompressionConfig { rle_encoding: true, ..Default::default() }), CompressedValue::RleInt(_)) && again != ints {
            return Err("decoded run-length data does not survive compress_ints / decompress_ints".to_string());
        }
    }
    let dense = match r { Err(e) => return Ok(format!("Err({e})")), Ok(d) => d };
    match c {
        CompressedValue::VectorSparse { dimension, positions, values } => {
            if dense.len() != *dimension { return Err(format!("Ok with {} components for declared dimension {dimension}", dense.len())); }
            let pos = decompress_ids(positions);
            let mut listed: BTreeMap<u64, Vec<u32>> = BTreeMap::new();
            for (p, x) in pos.iter().zip(values) { if (*p as u128) < *dimension as u128 { listed.entry(*p).or_default().push(x.to_bits()); } }
            for (i, x) in dense.iter().enumerate() {
                match listed.get(&(i as u64)) {
                    None => if x.to_bits() != 0 { return Err(format!("component {i} is {x:e} (0x{:08x}) but no entry lists position {i} (positions {:?}, dimension {dimension})", x.to_bits(), &pos[..pos.len().min(8)])); },
                    Some(c) => if !c.contains(&x.to_bits()) { return Err(format!("component {i} is {x:e} (0x{:08x}), not one of the values listed for position {i} (positions {:?}, values {:?}, dimension {dimension})", x.to_bits(), &pos[..pos.len().min(8)], &values[..values.len().min(8)])); },
                }
            }
        },
        CompressedValue::VectorRaw(v) => { if v.len() != dense.len() || v.iter().zip(&dense).any(|(a, b)| a.to_bits() != b.to_bits()) { return Err("VectorRaw decoded to a different vector".to_string()); } },
        CompressedValue::IdList(b) => {
            let ids = decompress_ids(b);
            if dense.len() != ids.len() || dense.len() > b.len() { return Err(format!("IdList of {} bytes / {} ids decoded to {} components", b.len(), ids.len(), dense.len())); }
            #[allow(clippy::cast_precision_loss)]
            if ids.iter().zip(&dense).any(|(i, x)| (*i as f32).to_bits() != x.to_bits()) { return Err("IdList decoded to components that are not its ids".to_string()); }
        },
        CompressedValue::VectorTT { shape, .. } => {
            let p: u128 = shape.iter().map(|&m| m as u128).product();
            if dense.len() as u128 != p { return Err(format!("VectorTT of shape {shape:?} decoded to {} components", dense.len())); }
        },
        _ => { if !dense.is_empty() { return Err(format!("{} decoded to a vector of {} components", variant(c), dense.len())); } },
    }
    // an Ok result re-encodes / decodes consistently
    if !matches!(c, CompressedValue::VectorTT { .. }) {
        let (p, x) = nonzeros(&dense);
        let mut again = vec![compress_sparse(dense.len(), &p, &x), CompressedValue::VectorRaw(dense.clone())];
        if let Some(s) = no_panic(AssertUnwindSafe(|| compress_dense_as_sparse(&dense))).map_err(|p| format!("compress_dense_as_sparse of the decoded vector panicked: {p}"))? { again.push(s); }
        for a in again {
            let d2 = decode(&a).map_err(|e| format!("re-encoding the decoded vector as {}: {e}", variant(&a)))?;
            same_vec(&dense, &d2).map_err(|e| format!("re-encoding the decoded vector as {}: {e}", variant(&a)))?;
        }
    }
    Ok(format!("Ok({} components)", dense.len()))
}

fn snapshot_with(c: CompressedValue, header: Header) -> CompressedSnapshot {
    let mut fields = BTreeMap::new();
    fields.insert("f".to_string(), c);
    CompressedSnapshot { header, entries: vec![CompressedEntry { key: "k".to_string(), fields }] }
}

/// runs in the child: Ok(observation) = the clause holds, Err = it does not
fn judge_decode(case: &Value, idx: usize) -> Result<String, String> {
    match case["fam"].as_str().unwrap_or("") {
        "sparse" => judge_value(&sparse_value(case)),
        "tt" => judge_value(&tt_value(case)),
        "rle" => {
            let runs: Vec<u32> = u64s(&case["runs"]).into_iter().map(|r| r as u32).collect();
            let k = case["nvals"].as_u64().unwrap_or(0) as i64;
            judge_value(&CompressedValue::RleInt(RleEncoded { values: (0..k).map(|j| j * 3 - 4).collect(), run_lengths: runs }))
        },
        "idlist" => judge_value(&CompressedValue::IdList(bytes_of(&case["pbytes"]))),
        "parts" => {
            // SparseVector::try_from_parts is the decoder of (dimension, positions, values) triples read from a file
            let CompressedValue::VectorSparse { dimension, positions, values } = sparse_value(case) else { return Err("harness".to_string()); };
            let pos = decompress_ids(&positions);
            if pos.len() != values.len() { return Ok("precondition (equal lengths) does not hold".to_string()); }
            let p32: Vec<u32> = pos.iter().map(|&p| u32::try_from(p).unwrap_or(u32::MAX)).collect();
            match no_panic(AssertUnwindSafe(|| SparseVector::try_from_parts(dimension, p32.clone(), values.clone()).map(|s| (s.dimension(), s.to_dense())))).map_err(|p| format!("try_from_parts / to_dense panicked: {p}"))? {
                Err(e) => Ok(format!("Err({e})")),
                Ok((d, dense)) => {
                    if d != dimension || dense.len() != dimension { return Err(format!("Ok with dimension {d} / {} components for declared dimension {dimension}", dense.len())); }
                    for (i, x) in dense.iter().enumerate() {
                        let listed: Vec<u32> = p32.iter().zip(&values).filter(|(p, v)| **p as usize == i && **v != 0.0).map(|(_, v)| v.to_bits()).collect();
                        let zero_listed = p32.iter().zip(&values).any(|(p, v)| *p as usize == i && *v == 0.0);
                        let ok = if listed.is_empty() { *x == 0.0 } else { listed.contains(&x.to_bits()) || (zero_listed && *x == 0.0) };
                        if !ok { return Err(format!("component {i} is {x:e}, not a value listed for position {i} (positions {p32:?}, values {values:?})")); }
                    }
                    Ok(format!("Ok({} components)", dense.len()))
                },
            }
        },
        "bytes" => {
            let vals = short_values();
            let base = bitcode::serialize(&vals[case["enc"].as_u64().unwrap_or(0) as usize % vals.len()]).map_err(|e| format!("harness: {e}"))?;
            let b = mutate(&base, case);
            match no_panic(AssertUnwindSafe(|| bitcode::deserialize::<CompressedValue>(&b))).map_err(|p| format!("bitcode::deserialize::<CompressedValue> panicked: {p}"))? {
                Err(_) => Ok("deserialize -> Err".to_string()),
                Ok(c) => match declared(&c) {
                    Some(n) if n <= MAX_DECL => judge_value(&c).map(|s| format!("deserialize -> {} -> {s}", variant(&c))),
                    _ => Ok(format!("deserialize -> {} declaring more than 2^20 elements (outside this family)", variant(&c))),
                },
            }
        },
        "snap" => {
            let mut h = Header::new(CompressionConfig::default(), case["count"].as_str().and_then(|s| s.parse().ok()).unwrap_or(1));
            if case.get("magic").is_some() { let m = bytes_of(&case["magic"]); for i in 0..4 { h.magic[i] = *m.get(i).unwrap_or(&0); } }
            if let Some(v) = case["version"].as_u64() { h.version = v as u16; }
            let expect_valid = h.magic == tensor_compress::format::MAGIC && h.version <= tensor_compress::format::VERSION;
            let bytes = mutate(&snapshot_with(short_values().swap_remove(0), h).serialize().map_err(|e| format!("harness: {e}"))?, case);
            let untouched = case.get("trunc").is_none() && case.get("flip").is_none();
            match no_panic(AssertUnwindSafe(|| CompressedSnapshot::deserialize(&bytes))).map_err(|p| format!("CompressedSnapshot::deserialize panicked: {p}"))? {
                Err(e) => if untouched && expect_valid { Err(format!("a valid snapshot is refused: Err({e})")) } else { Ok(format!("Err({e})")) },
                Ok(s) => {
                    if s.header.validate().is_err() { return Err("deserialize returned a snapshot whose header does not validate".to_string()); }
                    if untouched && !expect_valid { return Err(format!("header magic {:?} version {} accepted", s.header.magic, s.header.version)); }
                    let mut n = 0;
                    for e in &s.entries { for v in e.fields.values() { if declared(v).is_some_and(|d| d <= MAX_DECL) { judge_value(v)?; n += 1; } } }
                    Ok(format!("Ok(snapshot, {n} values judged)"))
                },
            }
        },
        "load" => {
            let dir = std::env::var(DIR_ENV).map_err(|_| "harness: no directory".to_string())?;
            let path = std::path::Path::new(&dir).join(format!("load-{}-{idx}.bin", std::process::id()));
            let c = sparse_value(case);
            let dimension = case["dim"].as_u64().unwrap_or(0) as usize;
            let bytes = snapshot_with(c, Header::new(CompressionConfig::default(), 1)).serialize().map_err(|e| format!("harness: {e}"))?;
            std::fs::write(&path, &bytes).map_err(|e| format!("harness: write {e}"))?;
            let r = no_panic(AssertUnwindSafe(|| TensorStore::load_snapshot_compressed(&path).map(|s| s.get("k").ok().and_then(|t| t.get("f").and_then(TensorValue::to_dense)))));
            let _ = std::fs::remove_file(&path);
            match r.map_err(|p| format!("TensorStore::load_snapshot_compressed panicked: {p}"))? {
                Err(e) => Ok(format!("Err({e})")),
                Ok(None) => Ok("Ok(store without the entry)".to_string()),
                Ok(Some(d)) => if d.len() == dimension { Ok(format!("Ok({} components)", d.len())) } else { Err(format!("loaded field has {} components for declared dimension {dimension}", d.len())) },
            }
        },
        _ => Err("unknown case".to_string()),
    }
}

fn ob_of_decode(case: &Value) -> &'static str { if case["fam"] == "load" { O_LOAD } else { O_TOTAL } }

fn st(v: u64) -> Value { json!(v.to_string()) }

/// (decoded position list) -> delta list whose wrapping running sum yields it
fn deltas_of(pos: &[u64]) -> Vec<Value> {
    let mut out = vec![];
    let mut prev = 0u64;
    for (i, &p) in pos.iter().enumerate() { out.push(st(if i == 0 { p } else { p.wrapping_sub(prev) })); prev = p; }
    out
}

fn position_lists(d: u64) -> Vec<Vec<u64>> {
    let m32 = u64::from(u32::MAX);
    let mut v: Vec<Vec<u64>> = vec![
        vec![], vec![0], vec![d.saturating_sub(1)], vec![d], vec![d + 1], vec![m32], vec![m32 + 1], vec![m32 + 2], vec![u64::MAX],
        vec![0, 1, d.saturating_sub(1)], vec![0, d], vec![0, 1, d + 1], vec![1, m32], vec![1, u64::MAX],
        vec![3, 1, 2], vec![2, 1, 0], vec![1, 1], vec![1, 1, 1], vec![0, 1, 0],
        vec![500, 1, 2, 3], vec![d, 0], vec![d + 1, 1, 0], vec![u64::MAX, 0, 1], vec![m32 + 4, 3], vec![3, m32 + 4], vec![1 << 40, 1, 2, 3, 4, 5, 6, 7],
        vec![3, 1, d + 2, 2], vec![1, d, 1], vec![m32, 0, m32],
    ];
    v.push((0..d.min(6)).rev().collect());
    v.push((0..d.min(6)).collect());
    v.sort();
    v.dedup();
    v
}

fn decode_cases() -> Vec<Value> {
    let mut out = vec![];
    for d in [0u64, 1, 2, 10, 1000, 1 << 20] {
        for pos in position_lists(d) {
            let k = pos.len() as i64;
            let mut nvs: Vec<i64> = [k, k - 1, k + 1, 0].into_iter().filter(|x| *x >= 0).collect();
            nvs.sort_unstable();
            nvs.dedup();
            for nv in nvs {
                let c = json!({"fam": "sparse", "dim": d, "deltas": deltas_of(&pos), "nvals": nv});
                out.push(c.clone());
                if nv == k {
                    let mut a = c.clone(); a["valpha"] = json!(true); out.push(a);
                    let mut p = c.clone(); p["fam"] = json!("parts"); out.push(p);
                    let mut p = c.clone(); p["fam"] = json!("parts"); p["valpha"] = json!(true); out.push(p);
                }
                // (try_from_parts debug-asserts equal lengths; release builds zip: unequal lengths are not in the load family)
                if nv == k { let mut l = c.clone(); l["fam"] = json!("load"); out.push(l); }
            }
        }
        // malformed position bytes: unterminated varint, 11-byte varint, terminator after overflow, empty
        for pb in [vec![0x80u8], vec![0x01, 0x80], vec![0xff; 11], vec![0xff, 0xff, 0xff, 0xff, 0xff, 0xff, 0xff, 0xff, 0xff, 0xff, 0x01, 0x02], vec![0xff, 0xff, 0xff, 0xff, 0xff, 0xff, 0xff, 0xff, 0xff, 0x7f, 0x01]] {
            for nv in [0, 1, 2] {
                out.push(json!({"fam": "sparse", "dim": d, "pbytes": pb, "nvals": nv}));
                if decompress_ids(&pb).len() == nv { out.push(json!({"fam": "load", "dim": d, "pbytes": pb, "nvals": nv})); }
            }
        }
    }
    // tensor-train: a valid 2x2 train, then one field at a time replaced by boundary values
    let valid = json!({"fam": "tt", "cores": [[1, 2, 2, 4], [2, 2, 1, 4]], "shape": [2, 2], "ranks": [1, 2, 1], "odim": 4});
    out.push(valid.clone());
    for ci in 0..2usize { for fi in 0..4usize { for val in [0u64, 1, 2, 3, 5, 1 << 10, 1 << 20] {
        if valid["cores"][ci][fi].as_u64() == Some(val) { continue; }
        let mut c = valid.clone(); c["cores"][ci][fi] = json!(val); out.push(c);
    } } }
    for shape in [json!([]), json!([2]), json!([2, 2, 2]), json!([0, 2]), json!([2, 0]), json!([4, 1]), json!([1, 4]), json!([1024, 1024]), json!([2, 3])] { let mut c = valid.clone(); c["shape"] = shape; out.push(c); }
    for ranks in [json!([]), json!([1]), json!([1, 2]), json!([1, 0, 1]), json!([2, 2, 2]), json!([1, 1048576, 1])] { let mut c = valid.clone(); c["ranks"] = ranks; out.push(c); }
    for odim in [0u64, 1, 3, 5, 1 << 20] { let mut c = valid.clone(); c["odim"] = json!(odim); out.push(c); }
    for cores in [json!([]), json!([[1, 2, 2, 4]]), json!([[1, 2, 2, 4], [2, 2, 1, 4], [1, 2, 1, 2]]), json!([[1, 4, 1, 4]]), json!([[1, 1024, 1024, 4], [1024, 1024, 1, 4]])] { let mut c = valid.clone(); c["cores"] = cores; out.push(c); }
    { let mut c = valid.clone(); c["cores"] = json!([[1, 4, 1, 4]]); c["shape"] = json!([4]); c["ranks"] = json!([1, 1]); out.push(c); }
    // run-length data
    for (nvals, runs) in [(0, vec![]), (2, vec![3u64, 2]), (2, vec![0, 0]), (1, vec![1 << 16]), (1, vec![2, 2]), (3, vec![1]), (2, vec![1 << 19, 1 << 19]), (0, vec![5])] {
        out.push(json!({"fam": "rle", "nvals": nvals, "runs": runs}));
    }
    // identifier lists (as vectors)
    for pb in [vec![], vec![0u8], vec![0x80], vec![0xff; 11], vec![5, 0xfe, 0xff, 0xff, 0xff, 0xff, 0xff, 0xff, 0xff, 0xff, 0x01], vec![0xff, 0xff, 0xff, 0xff, 0xff, 0xff, 0xff, 0xff, 0xff, 0x01, 1, 1]] { out.push(json!({"fam": "idlist", "pbytes": pb})); }
    // snapshot headers
    for magic in [json!([78, 69, 85, 77]), json!([0, 0, 0, 0]), json!([66, 65, 65, 68]), json!([78, 69, 85, 109])] {
        for version in [0u64, 1, 3, 4, 999, 65535] { for count in ["0", "1", "2", "18446744073709551615"] {
            out.push(json!({"fam": "snap", "magic": magic, "version": version, "count": count}));
        } }
    }
    // every truncation and every single-bit flip of short valid encodings
    for (e, v) in short_values().iter().enumerate() {
        let n = bitcode::serialize(v).expect("harness: serialize").len();
        for t in 0..n { out.push(json!({"fam": "bytes", "enc": e, "trunc": t})); }
        for f in 0..n * 8 { out.push(json!({"fam": "bytes", "enc": e, "flip": f})); }
    }
    let n = snapshot_with(short_values().swap_remove(0), Header::new(CompressionConfig::default(), 1)).serialize().expect("harness: serialize").len();
    for t in 0..n { out.push(json!({"fam": "snap", "trunc": t})); }
    for f in 0..n * 8 { out.push(json!({"fam": "snap", "flip": f})); }
    out
}

// ---------------------------------------------------------------------------------------------------------
// child processes
// ---------------------------------------------------------------------------------------------------------
fn child_main(case: &Value) -> String {
    let single = [case.clone()];
    let batch: &[Value] = case["batch"].as_array().map_or(&single[..], |a| &a[..]);
    let out = std::io::stdout();
    for (i, c) in batch.iter().enumerate() {
        { let mut o = out.lock(); let _ = writeln!(o, "@S {i}"); let _ = o.flush(); }
        let r = no_panic(AssertUnwindSafe(|| judge_decode(c, i))).unwrap_or_else(|p| Err(format!("panicked outside a guarded call: {p}")));
        let line = match r { Ok(d) => json!({"ok": true, "d": d}), Err(d) => json!({"ok": false, "d": d}) };
        { let mut o = out.lock(); let _ = writeln!(o, "@R {i} {line}"); let _ = o.flush(); }
    }
    "batch done".to_string()
}

/// parent side: evaluate `cases` in child processes under the address-space cap; one result per case
fn run_batch(cases: &[Value], dir: &std::path::Path) -> Vec<(bool, String)> {
    let mut res: Vec<Option<(bool, String)>> = vec![None; cases.len()];
    let mut start = 0usize;
    let exe = match std::env::current_exe() { Ok(e) => e, Err(e) => return vec![(false, format!("harness: current_exe: {e}")); cases.len()] };
    while start < cases.len() {
        let out = std::process::Command::new("sh")
            .arg("-c").arg("ulimit -v 3145728; exec \"$0\" replay c20_vectors \"$1\" \"$2\"")
            .arg(&exe).arg(O_TOTAL).arg(json!({"batch": &cases[start..]}).to_string())
            .env(CHILD_ENV, "1").env(DIR_ENV, dir)
            .output();
        let o = match out { Ok(o) => o, Err(e) => { for r in res.iter_mut().skip(start) { *r = Some((false, format!("harness: cannot spawn child: {e}"))); } break; } };
        let text = String::from_utf8_lossy(&o.stdout);
        let mut started: Option<usize> = None;
        let mut done = 0usize;
        for line in text.lines() {
            if let Some(i) = line.strip_prefix("@S ").and_then(|x| x.parse::<usize>().ok()) { started = Some(i); }
            else if let Some(rest) = line.strip_prefix("@R ") {
                if let Some((i, j)) = rest.split_once(' ') {
                    if let (Ok(i), Ok(v)) = (i.parse::<usize>(), serde_json::from_str::<Value>(j)) {
                        if start + i < res.len() { res[start + i] = Some((v["ok"].as_bool().unwrap_or(false), v["d"].as_str().unwrap_or("").to_string())); done = i + 1; started = None; }
                    }
                }
            }
        }
        if done == cases.len() - start { break; }
        // the child died while running case `started` (or before its first case)
        let err = String::from_utf8_lossy(&o.stderr);
        let last = err.lines().rev().find(|l| !l.trim().is_empty()).unwrap_or("").chars().take(200).collect::<String>();
        let dead = start + started.unwrap_or(done);
        if dead >= res.len() { break; }
        res[dead] = Some((false, format!("decoder did not return: child status {:?}; {last}", o.status)));
        start = dead + 1;
    }
    res.into_iter().map(|r| r.unwrap_or((false, "harness: no result from the child".to_string()))).collect()
}

fn run_children(cases: &[Value], dir: &std::path::Path) -> Vec<(bool, String)> {
    if cases.is_empty() { return vec![]; }
    let per = 120usize;
    let chunks: Vec<&[Value]> = cases.chunks(per).collect();
    let workers = 12usize.min(chunks.len());
    let next = std::sync::atomic::AtomicUsize::new(0);
    let slots: Vec<std::sync::Mutex<Vec<(bool, String)>>> = chunks.iter().map(|_| std::sync::Mutex::new(vec![])).collect();
    std::thread::scope(|sc| {
        for _ in 0..workers {
            sc.spawn(|| loop {
                let i = next.fetch_add(1, std::sync::atomic::Ordering::SeqCst);
                if i >= chunks.len() { break; }
                let r = run_batch(chunks[i], dir);
                if let Ok(mut g) = slots[i].lock() { *g = r; }
            });
        }
    });
    slots.into_iter().flat_map(|m| m.into_inner().unwrap_or_default()).collect()
}

fn work_dir() -> std::path::PathBuf { crate::fw::tmpdir("c20_vectors") }

// ---------------------------------------------------------------------------------------------------------
pub fn run(tier: Tier, seed: u64) -> Report {
    let mut rep = Report::new("c20_vectors",
        &format!("exact: every f32 vector of length <= {} over the 15-value alphabet {{+0, -0, 1, -1.5, 5e-7, 1e-6, -1e-6, MIN_POSITIVE, smallest subnormal, MAX, MIN, +inf, -inf, NaN(payload), 1e-30}}, and lengths 4..=6 / 64 / 100 / 1000 with every subset of {{first, middle, last}} carrying every alphabet combination, x paths {{compress_dense_as_sparse (plain and gated by should_use_sparse_threshold 0/0.5/0.7/1), compress_sparse, VectorRaw, compress_vector under 7 configurations x 6 key/field hints, each also through snapshot bytes, SparseVector from_dense / from_parts / bitcode}}; lossy: threshold pruning over all vectors of length <= {} x 7 thresholds (+ from_embedding x 4 sparsity thresholds), tensor-train presets {{balanced, high_accuracy, high_compression}} x dims {{8, 64, 256, 1024 (+100, 384, 4096 thorough)}} x 7 vector classes within the rank budget; decoders: structured VectorSparse (29+ position lists x 6 dimensions x 4 value counts, also through SparseVector::try_from_parts and through a snapshot file + load_snapshot_compressed) / VectorTT / RleInt / IdList / header garbage and every truncation + single-bit flip of 6 short value encodings and a one-entry snapshot, in child processes under a 3 GiB address-space cap{}",
                 if tier == Tier::Thorough { 4 } else { 3 }, if tier == Tier::Thorough { 3 } else { 2 },
                 if tier == Tier::Thorough { "; plus seeded random vectors of length 4..=12 over the alphabet (not exhaustive)" } else { "" }),
        true, &["tensor_compress::format::compress_vector", "tensor_compress::format::decompress_vector", "tensor_compress::compress_dense_as_sparse", "tensor_compress::compress_sparse",
                "tensor_compress::should_use_sparse_threshold", "tensor_compress::format::compress_ints", "tensor_compress::format::decompress_ints", "CompressedSnapshot::serialize", "CompressedSnapshot::deserialize", "Header::validate",
                "SparseVector::try_from_dense", "SparseVector::try_from_parts", "SparseVector::to_dense", "SparseVector::try_from_dense_with_threshold", "TensorValue::from_embedding", "TensorStore::load_snapshot_compressed"]);
    rep.declare(O_EXACT, "compress_dense_as_sparse / compress_sparse / compress_vector -> decompress_vector; SparseVector::{try_from_dense, try_from_parts, to_dense}");
    rep.declare(O_IDL, "compress_vector (IdList) -> decompress_vector");
    rep.declare(O_LOSSY, "SparseVector::try_from_dense_with_threshold; TensorValue::from_embedding; compress_vector (VectorTT) -> decompress_vector");
    rep.declare(O_IDN, "compress_vector (IdList, selected by field name) -> decompress_vector");
    rep.declare(O_NAN, "SparseVector::try_from_dense_with_threshold; TensorValue::from_embedding");
    rep.declare(O_TTDEC, "compress_vector (VectorTT) -> decompress_vector");
    rep.declare(O_TOTAL, "decompress_vector / decompress_ints / CompressedSnapshot::deserialize / SparseVector::try_from_parts");
    rep.declare(O_LOAD, "TensorStore::load_snapshot_compressed");

    let mut exact: Vec<Value> = vec![];
    for (n, at, all) in exact_vectors(tier) { push_exact_cases(&mut exact, n, &at, all); }
    if tier == Tier::Thorough {
        let mut rng = Rng(seed ^ 0xC20_7EC);
        for _ in 0..20000 {
            let n = 4 + rng.below(9) as usize;
            let at: Vec<(usize, usize)> = (0..n).map(|i| (i, if rng.below(3) == 0 { rng.below(NA as u64) as usize } else { 0 })).collect();
            push_exact_cases(&mut exact, n, &at, true);
        }
    }
    for c in &exact {
        let r = eval_exact(c);
        rep.eval(r.is_some());
        if let Some((ob, ok, d)) = r { rep.check(ob, ok, &|| c.clone(), &|| d.clone()); }
    }
    for c in lossy_cases(tier) {
        let r = eval_lossy(&c);
        rep.eval(!r.is_empty());
        for (ob, ok, d) in r { rep.check(ob, ok, &|| c.clone(), &|| d.clone()); }
    }
    let dir = work_dir();
    let dc = decode_cases();
    let results = run_children(&dc, &dir);
    for (c, (ok, d)) in dc.iter().zip(results) {
        rep.eval(true);
        rep.check(ob_of_decode(c), ok, &|| c.clone(), &|| d.clone());
    }
    let _ = std::fs::remove_dir_all(&dir);
    rep.sample(json!({"n": 3, "at": [[0, 1], [2, 13]], "path": "sparse_direct", "ser": true}));
    rep.sample(json!({"n": 1000, "at": [[0, 4], [999, 8]], "path": "dense_as_sparse", "thr": 0.5}));
    rep.sample(json!({"n": 2, "at": [[1, 9]], "path": "auto", "cfg": "delta", "key": "k", "field": "data", "ser": false}));
    rep.sample(json!({"fam": "thr", "n": 2, "at": [[0, 5]], "t": 2}));
    rep.sample(json!({"fam": "sparse", "dim": 10, "deltas": ["500", "18446744073709551117", "1", "1"], "nvals": 4}));
    rep.sample(json!({"fam": "bytes", "enc": 0, "flip": 9}));
    rep
}

pub fn replay(ob: &str, case: &Value) -> Result<String, String> {
    if std::env::var(CHILD_ENV).is_ok() { return Ok(child_main(case)); }
    let lossy = matches!(case["fam"].as_str(), Some("thr" | "emb" | "ttenc"));
    if case.get("fam").is_some() && !lossy {
        let dir = work_dir();
        let r = run_batch(std::slice::from_ref(case), &dir).pop().unwrap_or((false, "harness: no result".to_string()));
        let _ = std::fs::remove_dir_all(&dir);
        return if r.0 { Ok(r.1) } else { Err(r.1) };
    }
    let r = if lossy { eval_lossy(case) } else { eval_exact(case).into_iter().collect() };
    if r.is_empty() { return Ok("the encoder declined this input (nothing to decode)".to_string()); }
    for (o, ok, d) in &r { if o == &ob && !ok { return Err(d.clone()); } }
    Ok(format!("holds ({})", r.iter().map(|x| x.0).collect::<Vec<_>>().join(", ")))
}
