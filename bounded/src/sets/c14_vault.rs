//! C14 (bounded): `tensor_vault::Vault` — no access without a live grant, no plaintext at rest.
//!
//! Every enumerated case is an operation sequence executed from scratch on a fresh `Vault` built over
//! a `TensorStore` shared with its `GraphEngine` (as the integration tests do); the LAST operation of
//! the sequence is the contract-checked call (every proper prefix is its own case).  The harness keeps
//! a ghost view: existing secrets with their current value, grants `(entity, secret, level, expired?)`,
//! MEMBER edges.  `spec_access(view, who, secret)` = max over all entities `e` reachable from `who`
//! through `d >= 0` MEMBER edges that hold a live (unrevoked, unexpired) grant on the secret, of the
//! grant level attenuated for `hops = d + 1` (the grant edge counts as one hop, attenuation.rs module
//! doc: "Direct (1 hop)"): `None` if `hops > horizon`; Admin stays Admin while `hops <= admin_limit`,
//! then Write while `hops <= write_limit`, then Read; Write stays Write while `hops <= write_limit`,
//! then Read; Read stays Read.  Root has Admin on everything.
//! Required levels (doc comments of `Permission`): get/list Read, set(overwrite)/rotate Write,
//! delete/grant/revoke Admin; creating a secret is root-only (no grant can exist on a missing secret).
//!
//! After the checked call the WHOLE observable view is compared with the ghost post-view:
//! `get_permission(w, s)` for w in {alice,bob,carol,team,org} x both secrets, and for both secrets
//! existence + current value (`current_version` / `get_version` as root: these two observers neither
//! write audit records nor trigger the opportunistic TTL cleanup, unlike `get`/`list`).
//!
//! Obligations
//!  * C14.decision            result == spec decision (Ok iff spec_access >= required; get returns the
//!                            ghost value; list returns exactly the readable matching names) and
//!                            post-view == ghost post-view (on denial: unchanged).  States in which a
//!                            TTL grant has expired are booked under the next three ids instead.
//!  * C14.decision.ttl_overlap  the same predicate in states where one (entity, secret) pair holds an
//!                            expired TTL grant AND another live grant (the live one must keep working,
//!                            the expired one must not).
//!                            Also receives the availability half of the F7 cases (see C14.decision.ttl_stack).
//!  * C14.revoke.immediate    (a) the op directly after a successful revoke / delete, by a requester
//!                            whose access dropped below the op's level because of it: Err, values
//!                            untouched, get_permission shows the reduced level; for list: the name is
//!                            not listed.  (b) every op in a state where an expired TTL grant is material
//!                            (some spec_access differs depending on whether expired grants count):
//!                            decision with expired grants dead + secret values as the ghost says.
//!  * C14.revoke.immediate.observer   in the states of (b): `get_permission` == spec_access for all
//!                            entities x secrets (expired grants dead).
//!  * C14.membership.alone    requester with >= 1 MEMBER edge and no grant at all on any entity it
//!                            can reach: Err / not listed, still no permission, values untouched.
//!  * C14.grant.requires_admin grant by non-root with spec_access < Admin: Err, the grantee's
//!                            permission does not increase, values untouched.
//!  * C14.at_rest.value / .name   after set/rotate: no value ever passed to set/rotate / no name of a
//!                            created secret (raw, hex, base64 std/url) is a byte substring of
//!                            `TensorStore::snapshot_bytes()` or of a key of `scan("")`.
//!  * C14.at_rest.audit_err   values never occur in `audit_recent`/`audit_log` entries (Debug form)
//!                            nor in the Display of a returned error.
//!    Substring clauses are only evaluated for needles of >= 6 bytes (a 1-byte needle occurs in any
//!    ciphertext image by chance, it is not an observation); 1-byte values/names still run through
//!    every other obligation.
//!  * C14.decision.group_ttl  BLIND sequences (see `run_blind`): a time-limited grant is given to a GROUP
//!                            (team / org, reached by the requester through MEMBER edges), the TTL has elapsed
//!                            (`Duration::ZERO`) or not (3600 s), and the member's FIRST vault call afterwards is the
//!                            checked op, each of rotate, set(overwrite), delete, current_version, list_versions,
//!                            get_version, grant / grant_with_ttl / delegate to a third party, revoke, get, list --
//!                            with NO `get` / `list` / `get_permission` / view call of the harness between the
//!                            grant and that op (the other families read the whole view before every checked op,
//!                            and every `get_permission` runs the crate's opportunistic expiry sweep).  Predicate:
//!                            result == spec decision with expired grants dead (C14: "only while it holds an
//!                            unexpired ... grant ..., directly or from a group it belongs to; ... expiring a grant
//!                            removes the ability at once"), then the whole view == ghost post-view (on denial:
//!                            values and every other entity's permission unchanged).
//!  * C14.revoke.all_edges    BLIND sequences: several grant-type operations on ONE (entity, secret) pair (Read later
//!                            upgraded to Write, Write then Read, the same level twice, three levels, permanent +
//!                            live-TTL grant, grant + `delegate`, grants by two different admins), then ONE `revoke`
//!                            by root / by another admin.  Checked: (a) the revoke itself: whole view == ghost view
//!                            (the entity and its members have nothing left on that secret; frame: the other admin,
//!                            the entity's grant on the OTHER secret and all values are unchanged); (b) every op by
//!                            that entity / by a member of it as the first call after the revoke: denied on the
//!                            revoked secret ("revoking ... removes the ability at once"), still allowed on the other
//!                            secret, whole view == ghost view.
//!  * C14.decision.ttl_stack  BLIND sequences (F7): TWO time-limited grants on ONE (entity, S0) pair, entity = alice or team
//!                            (requester alice through MEMBER), with different lifetimes and every pair of levels: expired
//!                            (0 s) then live (3600 s) and the reverse order -- both by `grant_with_ttl`, or the first / the
//!                            second one by `delegate(root, entity, [S0], level, ttl)` --, both live (3600 s / 7200 s in both
//!                            orders) and both expired; then as the FIRST call each of the 14 ops of `first_ops`.  The
//!                            predicate is the one of C14.decision.group_ttl (result == spec decision with expired grants
//!                            dead, whole view == ghost view) but booked by DIRECTION: under this id the SECURITY direction
//!                            (a call is allowed / a value or name is returned / `get_permission` shows a level that no live
//!                            grant covers: "expiring ... removes the ability at once" -- e.g. expired Admin + live Read:
//!                            rotate / set / delete / grant denied, get allowed).  The AVAILABILITY direction (what the live
//!                            grant covers is denied or missing from the view) is, in the states in which the pair holds an
//!                            expired AND a live grant, exactly the clause of C14.decision.ttl_overlap and is booked there
//!                            (case JSON marked `"runner": "blind_ttl_stack"`); in the other states (both live / both
//!                            expired) it stays under this id.  After a wrongly denied call the view is compared with the
//!                            ghost view before the call.
//!  * C14.delegate.per_secret BLIND sequences (F8), 3 secrets: ONE `delegate(parent, child, [list], level, ttl)` whose list
//!                            mixes secrets on which the parent (bob: direct grants; alice: through team) holds nothing / Read
//!                            / Write / Admin / an EXPIRED time-limited Admin: all 125 standing vectors over [S0,S1,S2] x 3
//!                            levels (permanent; ttl 3600 s and 0 s for the vectors over {nothing, Read, Admin}), the sub-list
//!                            [S1,S0] with S2 (parent: Admin) left out, root as the parent.  A secret is COVERED iff it exists
//!                            and the parent holds a live grant of >= level on it.  Contract: no secret covered => Err; all
//!                            covered at Admin / parent root => Ok; otherwise the call is either refused as a whole (nothing
//!                            changes) or delegates exactly the covered secrets -- the ghost follows the result, and the whole
//!                            view (5 entities x 3 secrets + 3 values) must equal it: never a grant on an uncovered secret,
//!                            nothing for a secret outside the list.  Then, each as the first call after the delegate, get and
//!                            rotate by the child on every secret (decision + whole view).
//!    `delegate(parent, child, [secret], level, None)` is treated as a grant-type op: it creates an access edge
//!    child -> secret of `level`.  Its outcome is only fixed by the text when the parent is root, holds Admin (every
//!    reading allows) or holds nothing (every reading denies); otherwise the decision is left unspecified.
//!  * C14.decision.many_expired  (`mod many`) MANY time-limited grants expiring together: n in {1, 15, 16, 17, 33, 64} Admin grants
//!                            `grant_with_ttl(root, identity, secret, Admin, ttl)` over 8 identities x 8 secrets (pair i = identity i mod 8,
//!                            secret (i div 8 + i mod 8) mod 8), ttl in {0 ms, 1 ms} (0 is the smallest TTL the API takes), plus one
//!                            permanent Read grant of a bystander.  ALL vaults with ttl 1 ms are built first, then the harness sleeps
//!                            ONCE (25 ms, far past every deadline; an expired grant stays expired, so there is no wall-clock boundary)
//!                            and only then probes; the vaults with ttl 0 ms (deadline = the grant instant) are built and probed one
//!                            after the other.  One fresh vault per (n, ttl, probing call, rotation): the FIRST vault call after the
//!                            deadline is the probing call -- one of get / list("*") / rotate / set (overwrite) / delete / grant (to a third
//!                            party) -- by grantee pair `start`, then the same call by every other grantee on each of its secrets in
//!                            rotation order (start in {0, n/2, n-1} for ttl 1 ms, {0, n/4, n/2, 3n/4, n-1} for ttl 0 ms: the first probed
//!                            pair is an early, a middle and the last granted one; keeping several hundred vaults alive at once is what
//!                            costs time, hence fewer rotations for the co-resident flavour).  No harness observer runs between the probes.  Clause ("expiring ... removes the ability at
//!                            once"): every probe is refused (list: names nothing); after the last probe every secret still exists with
//!                            its original value, no grantee and not the third party holds any permission, the bystander's permanent Read
//!                            still works.
//!  * C14.list.distance       (`mod dist`) group-membership chains requester -MEMBER-> g1 -> .. -> gL with the grant (R / W / A, permanent) on
//!                            gL, L in {h-2, h-1, h, h+1, h+2} for the configured horizon h of three policies (default (1,2,10), tight
//!                            (1,1,2), (1,2,3)); the requester also holds a direct Read on a second secret and nothing on a third.  For each
//!                            of the four pattern forms `list("*")`, `list("")`, `list("<prefix of S0>*")`, `list("<exact name of S0>")`:
//!                            the listed names are exactly the matching names the requester may read (S0 iff L + 1 <= h, the decoy whenever
//!                            it matches, never the third), and `get` / `get_permission` on S0 take the same decision (`get_permission` ==
//!                            the attenuated level of the policy) -- one decision for every way of asking.
//! TTL: only `Duration::ZERO` (expired at the next instant read, `expires_at <= now`, monotonic clock)
//! and 3600 s (never expires within a run).  No sleeps, no wall-clock boundary -- except the single shared sleep of
//! C14.decision.many_expired described above.
use crate::fw::{Report, Rng, Tier};
use graph_engine::{GraphEngine, PropertyValue};
use serde_json::{json, Value};
use std::collections::{HashMap, VecDeque};
use std::sync::Arc;
use std::time::Duration;
use tensor_store::TensorStore;
use tensor_vault::{AttenuationPolicy, Permission, Vault, VaultConfig, VaultError};

const ENT: [&str; 6] = [Vault::ROOT, "user:alice", "user:bob", "user:carol", "team:devs", "org:eng"];
const ENT_S: [&str; 6] = ["root", "alice", "bob", "carol", "team", "org"];
const ROOT: u8 = 0;
const ALICE: u8 = 1;
const BOB: u8 = 2;
const CAROL: u8 = 3;
const TEAM: u8 = 4;
const ORG: u8 = 5;
const VAL_S: [&str; 6] = ["v1", "v16a", "v16b", "vutf8", "vmax", "vover"];
const MIN_NEEDLE: usize = 6;

fn big(n: usize) -> String {
    let mut s = String::with_capacity(n);
    let mut x = 0x2545_F491_4F6C_DD1Du64;
    while s.len() < n { x ^= x << 13; x ^= x >> 7; x ^= x << 17; s.push((b'!' + (x % 90) as u8) as char); }
    s
}
fn value(i: u8) -> String {
    match i {
        0 => "x".into(),
        1 => "Tr0ub4dor&3-16by".into(),
        2 => "correct-horse-16".into(),
        3 => "пароль-密码-🔑".into(),
        4 => big(65_531),
        _ => big(65_532),
    }
}
/// number of secret slots of the ghost / view arrays; a configuration uses the first `Cfg::nsec` (2 or 3) of them
const NS: usize = 3;
fn names(class: u8) -> [String; NS] {
    match class {
        0 => ["k".into(), "j".into(), "i".into()],
        1 => ["prod/db-password".into(), "prod/api-key-016".into(), "prod/tls-key-0016".into()],
        _ => ["секрет/密钥-🔑".into(), "ключ/第二-🗝".into(), "тайна/第三-🔐".into()],
    }
}

#[derive(Clone, Copy, PartialEq, Debug)]
struct Cfg { chain: u8, policy: u8, names: u8, /** secrets in play (2; 3 in the delegate-list family): the view covers exactly these */ nsec: u8 }
impl Cfg {
    fn pol(&self) -> (usize, usize, usize) {
        match self.policy { 0 => (1, 2, 10), 1 => (usize::MAX, usize::MAX, usize::MAX), _ => (1, 1, 2) }
    }
    fn to_json(&self) -> Value {
        let (p, n) = (["default", "none", "tight(1,1,2)"][self.policy as usize], ["1B", "16B", "utf8"][self.names as usize]);
        let mut j = json!({"chain": self.chain, "policy": p, "names": n});
        if self.nsec != 2 { j["secrets"] = json!(self.nsec); }
        j
    }
    fn from_json(v: &Value) -> Cfg {
        let p = v["policy"].as_str().unwrap_or("default");
        let n = v["names"].as_str().unwrap_or("16B");
        Cfg { chain: v["chain"].as_u64().unwrap_or(0) as u8,
              policy: if p == "default" { 0 } else if p == "none" { 1 } else { 2 },
              names: if n == "1B" { 0 } else if n == "16B" { 1 } else { 2 },
              nsec: if v["secrets"].as_u64() == Some(3) { 3 } else { 2 } }
    }
}

#[derive(Clone, PartialEq, Debug)]
enum Op {
    Set { by: u8, s: u8, v: u8 },
    Get { by: u8, s: u8 },
    Rotate { by: u8, s: u8, v: u8 },
    Delete { by: u8, s: u8 },
    /// pat: 0 "*", 1 exact name of S0, 2 exact name of S1, 3 ""
    List { by: u8, pat: u8 },
    /// lvl 1 Read, 2 Write, 3 Admin; ttl in seconds (None = permanent: `grant` for Admin, `grant_with_permission` otherwise)
    Grant { by: u8, to: u8, s: u8, lvl: u8, ttl: Option<u64> },
    Revoke { by: u8, from: u8, s: u8 },
    /// harness operation: MEMBER edge created through the public graph handle
    Member { from: u8, to: u8 },
    /// version readers (need Read): kind 0 `current_version`, 1 `list_versions`, 2 `get_version(.., 1)`
    Ver { by: u8, s: u8, kind: u8 },
    /// `delegate(by, to, [s], lvl, None)`: grant-type op, `by` is the delegating parent
    Delegate { by: u8, to: u8, s: u8, lvl: u8 },
    /// `delegate(by, to, [ss...], lvl, ttl)`: ONE call over a LIST of secrets, optionally time-limited (ttl in seconds)
    DelegateMany { by: u8, to: u8, ss: Vec<u8>, lvl: u8, ttl: Option<u64> },
}
const VER_S: [&str; 3] = ["current_version", "list_versions", "get_version"];
const LVL_S: [&str; 4] = ["none", "R", "W", "A"];
const PAT_S: [&str; 4] = ["*", "S0", "S1", ""];
fn ent_idx(s: &str) -> u8 { ENT_S.iter().position(|e| *e == s).unwrap_or(0) as u8 }
impl Op {
    fn to_json(&self) -> Value {
        let e = |i: &u8| ENT_S[*i as usize];
        match self {
            Op::Set { by, s, v } => json!(["set", e(by), s, VAL_S[*v as usize]]),
            Op::Get { by, s } => json!(["get", e(by), s]),
            Op::Rotate { by, s, v } => json!(["rotate", e(by), s, VAL_S[*v as usize]]),
            Op::Delete { by, s } => json!(["delete", e(by), s]),
            Op::List { by, pat } => json!(["list", e(by), PAT_S[*pat as usize]]),
            Op::Grant { by, to, s, lvl, ttl } => json!(["grant", e(by), e(to), s, LVL_S[*lvl as usize], ttl]),
            Op::Revoke { by, from, s } => json!(["revoke", e(by), e(from), s]),
            Op::Member { from, to } => json!(["member", e(from), e(to)]),
            Op::Ver { by, s, kind } => if *kind == 2 { json!([VER_S[2], e(by), s, 1]) } else { json!([VER_S[*kind as usize], e(by), s]) },
            Op::Delegate { by, to, s, lvl } => json!(["delegate", e(by), e(to), s, LVL_S[*lvl as usize]]),
            Op::DelegateMany { by, to, ss, lvl, ttl } => json!(["delegate", e(by), e(to), ss, LVL_S[*lvl as usize], ttl]),
        }
    }
    fn from_json(v: &Value) -> Result<Op, String> {
        let a = v.as_array().ok_or("op must be an array")?;
        let st = |i: usize| a.get(i).and_then(Value::as_str).unwrap_or("");
        let nu = |i: usize| a.get(i).and_then(Value::as_u64).unwrap_or(0) as u8;
        let val = |i: usize| VAL_S.iter().position(|x| *x == st(i)).unwrap_or(1) as u8;
        Ok(match st(0) {
            "set" => Op::Set { by: ent_idx(st(1)), s: nu(2), v: val(3) },
            "get" => Op::Get { by: ent_idx(st(1)), s: nu(2) },
            "rotate" => Op::Rotate { by: ent_idx(st(1)), s: nu(2), v: val(3) },
            "delete" => Op::Delete { by: ent_idx(st(1)), s: nu(2) },
            "list" => Op::List { by: ent_idx(st(1)), pat: PAT_S.iter().position(|x| *x == st(2)).unwrap_or(0) as u8 },
            "grant" => Op::Grant { by: ent_idx(st(1)), to: ent_idx(st(2)), s: nu(3), lvl: LVL_S.iter().position(|x| *x == st(4)).unwrap_or(1) as u8,
                                   ttl: a.get(5).and_then(Value::as_u64) },
            "revoke" => Op::Revoke { by: ent_idx(st(1)), from: ent_idx(st(2)), s: nu(3) },
            "member" => Op::Member { from: ent_idx(st(1)), to: ent_idx(st(2)) },
            "current_version" => Op::Ver { by: ent_idx(st(1)), s: nu(2), kind: 0 },
            "list_versions" => Op::Ver { by: ent_idx(st(1)), s: nu(2), kind: 1 },
            "get_version" => Op::Ver { by: ent_idx(st(1)), s: nu(2), kind: 2 },
            "delegate" if a.get(3).map_or(false, Value::is_array) => Op::DelegateMany {
                by: ent_idx(st(1)), to: ent_idx(st(2)),
                ss: a[3].as_array().map(|l| l.iter().filter_map(Value::as_u64).filter(|s| (*s as usize) < NS).map(|s| s as u8).collect()).unwrap_or_default(),
                lvl: LVL_S.iter().position(|x| *x == st(4)).unwrap_or(1) as u8, ttl: a.get(5).and_then(Value::as_u64) },
            "delegate" => Op::Delegate { by: ent_idx(st(1)), to: ent_idx(st(2)), s: nu(3), lvl: LVL_S.iter().position(|x| *x == st(4)).unwrap_or(1) as u8 },
            o => return Err(format!("unknown op {o}")),
        })
    }
    /// (requester, secret, required level) of a vault op on one secret
    fn target(&self) -> Option<(u8, u8, u8)> {
        match *self {
            Op::Get { by, s } | Op::Ver { by, s, .. } => Some((by, s, 1)),
            Op::Delegate { by, s, lvl, .. } => Some((by, s, lvl)),
            Op::Set { by, s, .. } | Op::Rotate { by, s, .. } => Some((by, s, 2)),
            Op::Delete { by, s } | Op::Grant { by, s, .. } | Op::Revoke { by, s, .. } => Some((by, s, 3)),
            _ => None,
        }
    }
}

// ---------------------------------------------------------------- ghost view (specification side)
#[derive(Clone, PartialEq, Debug)]
struct Grant { ent: u8, s: u8, lvl: u8, expired: bool }
#[derive(Clone, PartialEq, Debug)]
struct Model { val: [Option<u8>; NS], grants: Vec<Grant>, members: Vec<(u8, u8)>, pol: (usize, usize, usize), /** secrets in play */ ns: u8 }

fn attenuate_spec(pol: (usize, usize, usize), lvl: u8, hops: usize) -> u8 {
    if hops > pol.2 { return 0; }
    match lvl {
        3 => if hops <= pol.0 { 3 } else if hops <= pol.1 { 2 } else { 1 },
        2 => if hops <= pol.1 { 2 } else { 1 },
        _ => 1,
    }
}
impl Model {
    /// MEMBER distance from `who` to every entity (None = unreachable)
    fn dist(&self, who: u8) -> [Option<usize>; 6] {
        let mut d = [None; 6];
        d[who as usize] = Some(0);
        let mut q = VecDeque::from([who]);
        while let Some(c) = q.pop_front() {
            for &(f, t) in &self.members {
                if f == c && d[t as usize].is_none() { d[t as usize] = Some(d[c as usize].unwrap() + 1); q.push_back(t); }
            }
        }
        d
    }
    fn access(&self, who: u8, s: u8, expired_live: bool) -> u8 {
        if who == ROOT { return 3; }
        if self.val[s as usize].is_none() { return 0; }
        let d = self.dist(who);
        let mut best = 0;
        for g in &self.grants {
            if g.s != s || (g.expired && !expired_live) { continue; }
            if let Some(dd) = d[g.ent as usize] { best = best.max(attenuate_spec(self.pol, g.lvl, dd + 1)); }
        }
        best
    }
    fn acc(&self, who: u8, s: u8) -> u8 { self.access(who, s, false) }
    /// the secret exists and `parent` holds a live grant of at least `lvl` on it (root: on every existing secret)
    fn covered(&self, parent: u8, s: u8, lvl: u8) -> bool { self.val[s as usize].is_some() && self.acc(parent, s) >= lvl }
    /// an expired grant makes a difference for somebody
    fn ttl_material(&self) -> bool {
        (1..6u8).any(|w| (0..self.ns).any(|s| self.access(w, s, true) != self.access(w, s, false)))
    }
    /// some (entity, secret) pair holds an expired TTL grant and another live grant
    fn ttl_overlap(&self) -> bool {
        self.grants.iter().any(|g| g.expired && self.grants.iter().any(|h| !h.expired && h.ent == g.ent && h.s == g.s))
    }
    /// membership only: >= 1 MEMBER edge out of `who`, secret exists, no grant (live or not) anywhere in reach
    fn alone(&self, who: u8, s: u8) -> bool {
        if who == ROOT || self.val[s as usize].is_none() { return false; }
        let d = self.dist(who);
        d.iter().filter(|x| x.is_some()).count() > 1 && !self.grants.iter().any(|g| g.s == s && d[g.ent as usize].is_some())
    }
    fn apply(&mut self, op: &Op) {
        match *op {
            Op::Set { s, v, .. } | Op::Rotate { s, v, .. } => self.val[s as usize] = Some(v),
            Op::Delete { s, .. } => { self.val[s as usize] = None; self.grants.retain(|g| g.s != s); },
            Op::Grant { to, s, lvl, ttl, .. } => self.grants.push(Grant { ent: to, s, lvl, expired: ttl == Some(0) }),
            Op::Revoke { from, s, .. } => self.grants.retain(|g| !(g.ent == from && g.s == s)),
            Op::Member { from, to } => if !self.members.contains(&(from, to)) { self.members.push((from, to)); },
            Op::Delegate { to, s, lvl, .. } => self.grants.push(Grant { ent: to, s, lvl, expired: false }),
            // only the COVERED secrets (the parent holds a live grant of >= lvl on them, judged in the state before the call)
            Op::DelegateMany { by, to, ref ss, lvl, ttl } => {
                let cov: Vec<u8> = ss.iter().copied().filter(|&s| self.covered(by, s, lvl)).collect();
                for s in cov { self.grants.push(Grant { ent: to, s, lvl, expired: ttl == Some(0) }); }
            },
            Op::Get { .. } | Op::List { .. } | Op::Ver { .. } => {},
        }
    }
    /// Some(true/false) = the contract fixes the outcome, None = unspecified (root revoking on a missing secret)
    fn allowed(&self, op: &Op) -> Option<bool> {
        let ex = |s: u8| self.val[s as usize].is_some();
        match *op {
            Op::Set { by, s, v } => Some(v != 5 && if ex(s) { self.acc(by, s) >= 2 } else { by == ROOT }),
            Op::Get { by, s } => Some(ex(s) && self.acc(by, s) >= 1),
            Op::Rotate { by, s, v } => Some(v != 5 && ex(s) && self.acc(by, s) >= 2),
            Op::Delete { by, s } | Op::Grant { by, s, .. } => Some(ex(s) && self.acc(by, s) >= 3),
            Op::Revoke { by, s, .. } => if !ex(s) && by == ROOT { None } else { Some(ex(s) && self.acc(by, s) >= 3) },
            Op::List { .. } | Op::Member { .. } => Some(true),
            Op::Ver { by, s, .. } => Some(ex(s) && self.acc(by, s) >= 1),
            // fixed by the text only when every reading of "sufficient level" agrees (see the module doc)
            Op::Delegate { by, to, s, lvl } => {
                if !ex(s) || by == to { if by == ROOT { None } else { Some(false) } }
                else if by == ROOT || self.acc(by, s) >= 3 { Some(true) }
                else if self.acc(by, s) < lvl { Some(false) } else { None }
            },
            // a LIST of secrets.  Fixed by the text: no secret covered => denied; every secret covered at Admin (or root
            // on existing secrets) => allowed.  Otherwise (some secrets not covered, or covered below Admin) None: the
            // call is either refused as a whole (nothing changes) or delegates exactly the covered secrets (`apply`);
            // the ghost follows the result and the view must equal that ghost -- never a grant on an uncovered secret.
            Op::DelegateMany { by, to, ref ss, lvl, .. } => {
                if ss.is_empty() { None }
                else if by == to { if by == ROOT { None } else { Some(false) } }
                else if by == ROOT && ss.iter().any(|s| !ex(*s)) { None }
                else if !ss.iter().any(|s| self.covered(by, *s, lvl)) { Some(false) }
                else if ss.iter().all(|s| self.covered(by, *s, 3)) { Some(true) }
                else { None }
            },
        }
    }
    fn listed(&self, by: u8, pat: u8, nm: &[String; NS]) -> Vec<String> {
        let mut r: Vec<String> = (0..self.ns).filter(|&s| self.val[s as usize].is_some() && self.acc(by, s) >= 1)
            .filter(|&s| pat == 0 || pat == 3 || (pat == 1 && s == 0) || (pat == 2 && s == 1))
            .map(|s| nm[s as usize].clone()).collect();
        r.sort();
        r
    }
    fn view(&self) -> View {
        let mut perm = [[0u8; NS]; 5];
        for w in 1..6u8 { for s in 0..self.ns { perm[(w - 1) as usize][s as usize] = self.acc(w, s); } }
        let mut vals: [Option<String>; NS] = Default::default();
        for s in 0..self.ns as usize { vals[s] = self.val[s].map(value); }
        View { perm, vals }
    }
}

#[derive(PartialEq, Debug)]
struct View { perm: [[u8; NS]; 5], vals: [Option<String>; NS] }
fn short(s: &str) -> String { if s.len() > 40 { format!("<{} bytes>", s.len()) } else { s.to_string() } }
impl View {
    /// `self` is the real view after the call; `spec` is the ghost view (lab = "spec") or the real view before the call (lab = "before")
    fn diff(&self, spec: &View, lab: &str) -> String {
        let mut d = vec![];
        for w in 0..5 { for s in 0..NS {
            if self.perm[w][s] != spec.perm[w][s] {
                d.push(format!("get_permission({},S{s}) real {} / {lab} {}", ENT_S[w + 1], LVL_S[self.perm[w][s] as usize], LVL_S[spec.perm[w][s] as usize]));
            }
        } }
        for s in 0..NS {
            if self.vals[s] != spec.vals[s] {
                d.push(format!("value(S{s}) real {:?} / {lab} {:?}", self.vals[s].as_deref().map(short), spec.vals[s].as_deref().map(short)));
            }
        }
        d.join("; ")
    }
}

// ---------------------------------------------------------------- real side
struct Sys { vault: Vault, store: TensorStore, nm: [String; NS], ns: usize }

fn build(cfg: &Cfg) -> Sys { build_pol(cfg.pol(), cfg.names, cfg.nsec) }
fn build_pol((a, w, h): (usize, usize, usize), name_class: u8, nsec: u8) -> Sys {
    let store = TensorStore::new();
    let graph = Arc::new(GraphEngine::with_store(store.clone()));
    let mut c = VaultConfig::default().with_salt([0x14; 16]).with_attenuation(AttenuationPolicy { admin_limit: a, write_limit: w, horizon: h });
    c.argon2_memory_cost = 8; // minimum cost: the KDF is not under contract here
    c.argon2_time_cost = 1;
    c.argon2_parallelism = 1;
    let vault = Vault::new(b"c14-master-key-0123456789abcdef!", graph, store.clone(), c).expect("Vault::new");
    Sys { vault, store, nm: names(name_class), ns: nsec as usize }
}
fn node_of(g: &GraphEngine, key: &str) -> u64 {
    if let Ok(ns) = g.find_nodes_by_property("entity_key", &PropertyValue::String(key.to_string())) {
        if let Some(n) = ns.first() { return n.id; }
    }
    let mut p = HashMap::new();
    p.insert("entity_key".to_string(), PropertyValue::String(key.to_string()));
    g.create_node("Entity", p).expect("create_node")
}
fn add_member(g: &GraphEngine, from: u8, to: u8) { add_member_key(g, ENT[from as usize], ENT[to as usize]); }
fn add_member_key(g: &GraphEngine, from: &str, to: &str) {
    let (f, t) = (node_of(g, from), node_of(g, to));
    g.create_edge(f, t, "MEMBER", HashMap::new(), true).expect("create_edge MEMBER");
}
fn lvl_of(p: Option<Permission>) -> u8 { match p { None => 0, Some(Permission::Read) => 1, Some(Permission::Write) => 2, Some(Permission::Admin) => 3 } }
fn perm_of(l: u8) -> Permission { match l { 1 => Permission::Read, 2 => Permission::Write, _ => Permission::Admin } }

enum Out { Unit(Result<(), VaultError>), Val(Result<String, VaultError>), Names(Result<Vec<String>, VaultError>), Harness }
impl Out {
    fn err(&self) -> Option<&VaultError> {
        match self { Out::Unit(Err(e)) | Out::Val(Err(e)) | Out::Names(Err(e)) => Some(e), _ => None }
    }
    fn is_ok(&self) -> bool { self.err().is_none() }
    fn show(&self) -> String {
        match self {
            Out::Unit(Ok(())) => "Ok(())".into(),
            Out::Val(Ok(v)) => format!("Ok({:?})", short(v)),
            Out::Names(Ok(v)) => format!("Ok({v:?})"),
            Out::Harness => "harness".into(),
            _ => format!("Err({:?})", short(&self.err().unwrap().to_string())),
        }
    }
}
impl Sys {
    fn exec(&self, op: &Op) -> Out {
        let v = &self.vault;
        let e = |i: u8| ENT[i as usize];
        let n = |s: u8| self.nm[s as usize].as_str();
        match *op {
            Op::Set { by, s, v: x } => Out::Unit(v.set(e(by), n(s), &value(x))),
            Op::Get { by, s } => Out::Val(v.get(e(by), n(s))),
            Op::Rotate { by, s, v: x } => Out::Unit(v.rotate(e(by), n(s), &value(x))),
            Op::Delete { by, s } => Out::Unit(v.delete(e(by), n(s))),
            Op::List { by, pat } => Out::Names(v.list(e(by), match pat { 0 => "*", 1 => n(0), 2 => n(1), _ => "" }).map(|mut l| { l.sort(); l })),
            Op::Grant { by, to, s, lvl, ttl } => Out::Unit(match ttl {
                Some(t) => v.grant_with_ttl(e(by), e(to), n(s), perm_of(lvl), Duration::from_secs(t)),
                None if lvl == 3 => v.grant(e(by), e(to), n(s)),
                None => v.grant_with_permission(e(by), e(to), n(s), perm_of(lvl)),
            }),
            Op::Revoke { by, from, s } => Out::Unit(v.revoke(e(by), e(from), n(s))),
            Op::Member { from, to } => { add_member(&v.graph, from, to); Out::Harness },
            Op::Ver { by, s, kind } => Out::Val(match kind {
                0 => v.current_version(e(by), n(s)).map(|c| format!("version {c}")),
                1 => v.list_versions(e(by), n(s)).map(|l| format!("{} version(s)", l.len())),
                _ => v.get_version(e(by), n(s), 1),
            }),
            Op::Delegate { by, to, s, lvl } => Out::Unit(v.delegate(e(by), e(to), &[n(s)], perm_of(lvl), None).map(|_| ())),
            Op::DelegateMany { by, to, ref ss, lvl, ttl } => {
                let l: Vec<&str> = ss.iter().map(|s| n(*s)).collect();
                Out::Unit(v.delegate(e(by), e(to), &l, perm_of(lvl), ttl.map(Duration::from_secs)).map(|_| ()))
            },
        }
    }
    fn view(&self) -> View {
        let mut perm = [[0u8; NS]; 5];
        for w in 1..6u8 { for s in 0..self.ns { perm[(w - 1) as usize][s] = lvl_of(self.vault.get_permission(ENT[w as usize], &self.nm[s])); } }
        let val = |s: usize| match self.vault.current_version(Vault::ROOT, &self.nm[s]) {
            Err(_) => None,
            Ok(n) => Some(self.vault.get_version(Vault::ROOT, &self.nm[s], n).unwrap_or_else(|e| format!("<get_version({n}) failed: {e}>"))),
        };
        let mut vals: [Option<String>; NS] = Default::default();
        for s in 0..self.ns { vals[s] = val(s); }
        View { perm, vals }
    }
}

// ---------------------------------------------------------------- substring observations
fn find_all(h: &[u8], n: &[u8], max: usize) -> Vec<usize> {
    let mut hits = vec![];
    if n.is_empty() || n.len() > h.len() { return hits; }
    let last = h.len() - n.len();
    let mut i = 0;
    while i <= last {
        match h[i..=last].iter().position(|&b| b == n[0]) {
            None => break,
            Some(p) => { i += p; if &h[i..i + n.len()] == n { hits.push(i); if hits.len() >= max { break; } } i += 1; },
        }
    }
    hits
}
fn hex(b: &[u8], upper: bool) -> String { b.iter().map(|x| if upper { format!("{x:02X}") } else { format!("{x:02x}") }).collect() }
fn b64(b: &[u8], url: bool) -> String {
    let t: &[u8; 64] = if url { b"ABCDEFGHIJKLMNOPQRSTUVWXYZabcdefghijklmnopqrstuvwxyz0123456789-_" } else { b"ABCDEFGHIJKLMNOPQRSTUVWXYZabcdefghijklmnopqrstuvwxyz0123456789+/" };
    let mut o = String::new();
    for c in b.chunks(3) {
        let n = (u32::from(c[0]) << 16) | (u32::from(*c.get(1).unwrap_or(&0)) << 8) | u32::from(*c.get(2).unwrap_or(&0));
        for k in 0..=c.len() { o.push(t[((n >> (18 - 6 * k)) & 63) as usize] as char); }
    }
    o // unpadded: also matches the padded form
}
/// (label, bytes) readable forms of a secret string
fn forms(label: &str, s: &str) -> Vec<(String, Vec<u8>)> {
    if s.len() < MIN_NEEDLE { return vec![]; }
    let b = s.as_bytes();
    vec![(format!("{label} raw"), b.to_vec()), (format!("{label} hex"), hex(b, false).into_bytes()), (format!("{label} HEX"), hex(b, true).into_bytes()),
         (format!("{label} base64"), b64(b, false).into_bytes()), (format!("{label} base64url"), b64(b, true).into_bytes())]
}
fn context(h: &[u8], pos: usize, len: usize) -> String {
    let a = pos.saturating_sub(40);
    let z = (pos + len.min(24) + 8).min(h.len());
    h[a..z].iter().map(|&c| if (0x20..0x7f).contains(&c) { c as char } else { '.' }).collect()
}
/// every occurrence description of any needle in the image / keys
fn leaks(needles: &[(String, Vec<u8>)], image: &[u8], keys: &[String]) -> Vec<String> {
    let mut out = vec![];
    for (lab, n) in needles {
        for p in find_all(image, n, 4) { out.push(format!("{lab} in snapshot_bytes at {p}: ..{}..", context(image, p, n.len()))); }
        for k in keys { if !find_all(k.as_bytes(), n, 1).is_empty() { out.push(format!("{lab} in store key {k:?}")); } }
    }
    out
}

// ---------------------------------------------------------------- one sequence
struct SeqRes { passed: bool, changed: bool, checked: u64, nontrivial: u64 }
type Sink<'a> = &'a mut dyn FnMut(&str, bool, usize, &dyn Fn() -> String);

/// Execute `ops` on a fresh system; ops with index >= check_from are contract-checked (sink gets
/// obligation id, verdict, op index, detail).  Stops at the first failed decision/view check or at a
/// prefix op whose outcome differs from the specification (that prefix is reported by its own case).
fn run_seq(cfg: &Cfg, ops: &[Op], check_from: usize, sink: Sink) -> SeqRes {
    let sys = build(cfg);
    let mut m = Model { val: [None; NS], grants: vec![], members: vec![], pol: cfg.pol(), ns: cfg.nsec };
    let chain = [Op::Member { from: ALICE, to: TEAM }, Op::Member { from: TEAM, to: ORG }];
    for c in chain.iter().take(cfg.chain as usize) { sys.exec(c); m.apply(c); }
    let mut vals_seen: Vec<u8> = vec![];
    let mut created = [false; NS];
    let mut res = SeqRes { passed: true, changed: false, checked: 0, nontrivial: 0 };
    let mut before_prev: Option<Model> = None; // ghost view before the previous op
    let mut prev_ok: Option<Op> = None; // previous op if it really succeeded
    for (i, op) in ops.iter().enumerate() {
        let pre = m.clone();
        let allowed = pre.allowed(op);
        if let Op::Set { v, .. } | Op::Rotate { v, .. } = op { if !vals_seen.contains(v) { vals_seen.push(*v); } }
        let real_pre = if i >= check_from { Some(sys.view()) } else { None };
        let out = sys.exec(op);
        let real_ok = out.is_ok();
        let mut post = pre.clone();
        if allowed == Some(true) { post.apply(op); }
        if let (Op::Set { s, .. }, true) = (op, real_ok) { created[*s as usize] = true; }
        res.changed = post != pre;
        if i < check_from {
            if allowed.is_some() && allowed != Some(real_ok) { res.passed = false; return res; }
        } else {
            res.checked += 1;
            let by = match *op { Op::List { by, .. } | Op::DelegateMany { by, .. } => by, _ => op.target().map_or(ROOT, |t| t.0) };
            if by != ROOT && !matches!(op, Op::Member { .. }) { res.nontrivial += 1; }
            // ---- decision
            let mut why = vec![];
            match (allowed, real_ok) {
                (Some(true), false) => why.push("wrongly DENIED (availability direction): spec allows".to_string()),
                (Some(false), true) => why.push("wrongly ALLOWED (security direction): spec denies".to_string()),
                _ => {},
            }
            if let (Op::Get { s, .. }, Out::Val(Ok(v))) = (op, &out) {
                if pre.val[*s as usize].map(value).as_deref() != Some(v.as_str()) { why.push("get returned a value different from the ghost value".to_string()); }
            }
            if let (Op::List { by, pat }, Out::Names(Ok(l))) = (op, &out) {
                let want = pre.listed(*by, *pat, &sys.nm);
                if *l != want { why.push(format!("list returned {l:?}, spec {want:?}")); }
            }
            // ---- frame / effect
            let rv = sys.view();
            let sv = post.view();
            let decision_ok = why.is_empty();
            if rv != sv { why.push(format!("post-view differs: {}", rv.diff(&sv, "spec"))); }
            let ok = why.is_empty();
            let overlap = pre.ttl_overlap() || post.ttl_overlap();
            let ttl_case = pre.ttl_material() || post.ttl_material();
            let detail = || format!("op#{i} {} -> {}; spec decision {:?}; {}", op.to_json(), out.show(), allowed, why.join(" | "));
            if overlap {
                // some (entity, secret) pair holds an expired TTL grant AND another live grant: same predicate as C14.decision
                sink("C14.decision.ttl_overlap", ok, i, &detail);
            } else if ttl_case {
                // an expired grant matters here: (b) of C14.revoke.immediate = the access decision and the secret values,
                // the `get_permission` observer is booked separately
                sink("C14.revoke.immediate", decision_ok && rv.vals == sv.vals, i, &detail);
                sink("C14.revoke.immediate.observer", rv.perm == sv.perm, i, &detail);
            } else if !matches!(op, Op::Member { .. }) || !ok {
                sink("C14.decision", ok, i, &detail);
            }
            // The focused clauses below look at the real observers before/after the call (the whole-view frame is part of
            // the main obligation above): values untouched + the one permission cell the clause is about.
            let rp = real_pre.unwrap();
            let vals_same = rv.vals == rp.vals;
            let cell = |v: &View, w: u8, s: u8| if w == ROOT { 3 } else { v.perm[(w - 1) as usize][s as usize] };
            // ---- grant requires admin: Err, grantee gains nothing, values untouched
            if let Op::Grant { by, to, s, .. } = *op {
                if by != ROOT && pre.acc(by, s) < 3 {
                    let good = !real_ok && vals_same && cell(&rv, to, s) <= cell(&rp, to, s);
                    sink("C14.grant.requires_admin", good, i, &|| format!("grant by {} holding {} on S{s}: {} -> {}; get_permission({},S{s}) before {} / after {}; values unchanged: {vals_same}",
                        ENT_S[by as usize], LVL_S[pre.acc(by, s) as usize], op.to_json(), out.show(), ENT_S[to as usize], LVL_S[cell(&rp, to, s) as usize], LVL_S[cell(&rv, to, s) as usize]));
                }
            }
            // ---- membership alone: denied, requester still has no permission, values untouched
            if let Some((by, s, _)) = op.target() {
                if pre.alone(by, s) {
                    let good = !real_ok && vals_same && cell(&rv, by, s) == 0;
                    sink("C14.membership.alone", good, i, &|| format!("{} has only MEMBER edges towards S{s}: {} -> {}; get_permission after: {}; values unchanged: {vals_same}",
                        ENT_S[by as usize], op.to_json(), out.show(), LVL_S[cell(&rv, by, s) as usize]));
                }
            }
            if let (Op::List { by, .. }, Out::Names(r)) = (op, &out) {
                let hidden: Vec<u8> = (0..pre.ns).filter(|&s| pre.alone(*by, s)).collect();
                if !hidden.is_empty() {
                    let good = r.as_ref().map_or(true, |l| hidden.iter().all(|&s| !l.contains(&sys.nm[s as usize]))) && vals_same && hidden.iter().all(|&s| cell(&rv, *by, s) == 0);
                    sink("C14.membership.alone", good, i, &|| format!("{} has only MEMBER edges: {} -> {}", ENT_S[*by as usize], op.to_json(), out.show()));
                }
            }
            // ---- access removed by the directly preceding revoke / delete
            if let (Some(bp), Some(Op::Revoke { s: ps, .. } | Op::Delete { s: ps, .. })) = (&before_prev, &prev_ok) {
                if let Some((by, s, req)) = op.target() {
                    if s == *ps && by != ROOT && bp.acc(by, s) >= req && pre.acc(by, s) < req {
                        let good = !real_ok && vals_same && cell(&rv, by, s) == pre.acc(by, s);
                        sink("C14.revoke.immediate", good, i, &|| format!("after {}: {} (needs {}, had {}, spec now {}) -> {}; get_permission after: {}; values unchanged: {vals_same}",
                            prev_ok.as_ref().unwrap().to_json(), op.to_json(), LVL_S[req as usize], LVL_S[bp.acc(by, s) as usize], LVL_S[pre.acc(by, s) as usize], out.show(), LVL_S[cell(&rv, by, s) as usize]));
                    }
                }
                if let (Op::List { by, .. }, Out::Names(r)) = (op, &out) {
                    if *by != ROOT && bp.acc(*by, *ps) >= 1 && pre.acc(*by, *ps) < 1 {
                        let good = r.as_ref().map_or(true, |l| !l.contains(&sys.nm[*ps as usize]));
                        sink("C14.revoke.immediate", good, i, &|| format!("after {}: {} -> {}", prev_ok.as_ref().unwrap().to_json(), op.to_json(), out.show()));
                    }
                }
            }
            // ---- at rest / audit / error text
            let mut vneedles = vec![];
            for v in &vals_seen { vneedles.extend(forms(&format!("value {}", VAL_S[*v as usize]), &value(*v))); }
            if let Some(e) = out.err() {
                let text = e.to_string();
                let hit: Vec<&String> = vneedles.iter().filter(|(_, n)| !find_all(text.as_bytes(), n, 1).is_empty()).map(|(l, _)| l).collect();
                sink("C14.at_rest.audit_err", hit.is_empty(), i, &|| format!("{} -> error Display contains {hit:?}: {:?}", op.to_json(), short(&text)));
            }
            if matches!(op, Op::Set { .. } | Op::Rotate { .. }) {
                let image = sys.store.snapshot_bytes().expect("snapshot_bytes");
                let keys = sys.store.scan("");
                let lv = leaks(&vneedles, &image, &keys);
                sink("C14.at_rest.value", lv.is_empty(), i, &|| format!("after {} ({}): {}", op.to_json(), out.show(), lv.join(" ; ")));
                let mut nneedles = vec![];
                for s in 0..sys.ns { if created[s] { nneedles.extend(forms(&format!("name S{s}"), &sys.nm[s])); } }
                let ln = leaks(&nneedles, &image, &keys);
                sink("C14.at_rest.name", ln.is_empty(), i, &|| format!("after {} ({}): {}", op.to_json(), out.show(), ln.join(" ; ")));
                let mut entries: Vec<String> = sys.vault.audit_recent(100_000).map(|v| v.iter().map(|e| format!("{e:?}")).collect()).unwrap_or_default();
                for s in 0..sys.ns { if let Ok(v) = sys.vault.audit_log(&sys.nm[s]) { entries.extend(v.iter().map(|e| format!("{e:?}"))); } }
                let la: Vec<String> = entries.iter().flat_map(|t| vneedles.iter().filter(|(_, n)| !find_all(t.as_bytes(), n, 1).is_empty()).map(move |(l, _)| format!("{l} in audit entry {t}"))).collect();
                sink("C14.at_rest.audit_err", la.is_empty(), i, &|| format!("after {}: {}", op.to_json(), la.join(" ; ")));
            }
            if !ok { res.passed = false; return res; }
        }
        before_prev = Some(pre);
        prev_ok = if real_ok && !matches!(op, Op::Member { .. }) { Some(op.clone()) } else { None };
        m = post;
    }
    res
}

// ---------------------------------------------------------------- blind sequences (C14.decision.group_ttl, C14.revoke.all_edges)
const BLIND: [&str; 4] = ["C14.decision.group_ttl", "C14.revoke.all_edges", "C14.decision.ttl_stack", "C14.delegate.per_secret"];
const O_STACK: &str = "C14.decision.ttl_stack";
const O_OVERLAP: &str = "C14.decision.ttl_overlap";
const O_DELEG: &str = "C14.delegate.per_secret";
/// `runner` marker of the case JSON of the F7 family (its availability half is booked under C14.decision.ttl_overlap,
/// whose other cases are NOT blind: the marker tells `replay` which runner produced the case)
const RUNNER_STACK: &str = "blind_ttl_stack";

/// Execute `ops` on a fresh system with NO observer call of the harness between the ops: no `view()` /
/// `get_permission` / `get` / `list` other than the ops of the sequence themselves.  The LAST op is the checked call:
/// its result is compared with the spec decision (expired grants dead) and only AFTER it the whole view is read and
/// compared with the ghost post-view.  A prefix op whose outcome differs from the specification ends the run
/// unreported (the sequence ending at that op is its own case).
fn run_blind(cfg: &Cfg, ops: &[Op], ob: &str, sink: Sink) -> SeqRes {
    let sys = build(cfg);
    let mut m = Model { val: [None; NS], grants: vec![], members: vec![], pol: cfg.pol(), ns: cfg.nsec };
    let chain = [Op::Member { from: ALICE, to: TEAM }, Op::Member { from: TEAM, to: ORG }];
    for c in chain.iter().take(cfg.chain as usize) { sys.exec(c); m.apply(c); }
    let mut res = SeqRes { passed: true, changed: false, checked: 0, nontrivial: 0 };
    // value of version 1 of each secret (max_versions is 5, the blind scripts write a secret at most 3 times)
    let mut first_val: [Option<u8>; NS] = [None; NS];
    let mut writes = [0usize; NS];
    let last = ops.len() - 1;
    for (i, op) in ops.iter().enumerate() {
        let pre = m.clone();
        let allowed = pre.allowed(op);
        let out = sys.exec(op);
        let real_ok = out.is_ok();
        let mut post = pre.clone();
        // unspecified decision (None): the ghost follows the real outcome
        if allowed == Some(true) || (allowed.is_none() && real_ok) { post.apply(op); }
        if real_ok {
            match *op {
                Op::Set { s, v, .. } => { if pre.val[s as usize].is_none() { first_val[s as usize] = Some(v); writes[s as usize] = 0; } writes[s as usize] += 1; },
                Op::Rotate { s, .. } => writes[s as usize] += 1,
                Op::Delete { s, .. } => { first_val[s as usize] = None; writes[s as usize] = 0; },
                _ => {},
            }
        }
        if i < last {
            if allowed.is_some() && allowed != Some(real_ok) { res.passed = false; return res; }
            m = post;
            continue;
        }
        res.checked = 1;
        res.changed = post != pre;
        let by = match *op { Op::List { by, .. } | Op::DelegateMany { by, .. } => by, _ => op.target().map_or(ROOT, |t| t.0) };
        if by != ROOT { res.nontrivial = 1; }
        let mut why = vec![];
        match (allowed, real_ok) {
            (Some(true), false) => why.push("wrongly DENIED (availability direction): spec allows".to_string()),
            (Some(false), true) => why.push("wrongly ALLOWED (security direction): spec denies".to_string()),
            _ => {},
        }
        if let (Op::Get { s, .. }, Out::Val(Ok(v))) = (op, &out) {
            if pre.val[*s as usize].map(value).as_deref() != Some(v.as_str()) { why.push("get returned a value different from the ghost value".to_string()); }
        }
        if let (Op::Ver { s, kind: 2, .. }, Out::Val(Ok(v))) = (op, &out) {
            if writes[*s as usize] <= 5 && first_val[*s as usize].map(value).as_deref() != Some(v.as_str()) { why.push("get_version(1) returned a value different from the first value written".to_string()); }
        }
        if let (Op::List { by, pat }, Out::Names(Ok(l))) = (op, &out) {
            let want = pre.listed(*by, *pat, &sys.nm);
            if *l != want { why.push(format!("list returned {l:?}, spec {want:?}")); }
        }
        // only now the observers are read
        let rv = sys.view();
        let sv = post.view();
        if ob == O_STACK {
            // F7: the predicate is the same (result == spec decision with expired grants dead, view == ghost view) but it is
            // booked by DIRECTION.  Security half (C14.decision.ttl_stack): nothing is allowed / returned / held that no live
            // grant covers.  Availability half: what the live grants cover keeps working; in a state in which one (entity,
            // secret) pair holds an expired TTL grant AND a live grant this half is the clause of C14.decision.ttl_overlap
            // ("the live one must keep working") and is booked there, otherwise it stays with C14.decision.ttl_stack.
            let (mut sec, mut avail): (Vec<String>, Vec<String>) = (vec![], vec![]);
            for w in why.drain(..) {
                if w.starts_with("wrongly DENIED") { avail.push(w); }
                else if w.starts_with("list returned") {
                    if let (Op::List { by, pat }, Out::Names(Ok(l))) = (op, &out) {
                        let want = pre.listed(*by, *pat, &sys.nm);
                        if l.iter().any(|n| !want.contains(n)) { sec.push(w.clone()); }
                        if want.iter().any(|n| !l.contains(n)) { avail.push(w); }
                    }
                } else { sec.push(w); }
            }
            // A wrongly DENIED call is an availability finding by itself; its effect then has to be "nothing changed", so the
            // view is compared with the ghost view BEFORE the call (otherwise with the ghost post-view).
            let wrongly_denied = allowed == Some(true) && !real_ok;
            let (refv, lab) = (if wrongly_denied { pre.view() } else { sv }, "spec");
            let note = if wrongly_denied { " [spec = the view before the call: it was denied]" } else { "" };
            let (mut more, mut less) = (vec![], vec![]);
            for w in 0..5 { for s in 0..NS {
                let (r, e) = (rv.perm[w][s], refv.perm[w][s]);
                let cell = format!("get_permission({},S{s}) real {} / {lab} {}", ENT_S[w + 1], LVL_S[r as usize], LVL_S[e as usize]);
                if r > e { more.push(cell); } else if r < e { less.push(cell); }
            } }
            // (same wording as the whole-view difference of the other obligations: "post-view differs: <cell> real x / spec y")
            if !more.is_empty() { sec.push(format!("post-view differs: {} (MORE than the live grants give){note}", more.join("; "))); }
            if !less.is_empty() { avail.push(format!("post-view differs: {} (LESS than the live grants give){note}", less.join("; "))); }
            if rv.vals != refv.vals {
                sec.push(format!("post-view differs: {}{note}", View { perm: refv.perm, vals: rv.vals.clone() }.diff(&refv, lab)));
            }
            let overlap = pre.ttl_overlap() || post.ttl_overlap();
            let head = format!("op#{i} {} -> {} (no observer call since the start of the sequence); spec decision {:?}", op.to_json(), out.show(), allowed);
            if overlap {
                sink(O_STACK, sec.is_empty(), i, &|| format!("{head}; security direction (something works / is held that no live grant covers): {}", sec.join(" | ")));
                sink(O_OVERLAP, avail.is_empty(), i, &|| format!("{head}; availability direction (the live grant of a pair that also holds an expired TTL grant must keep working): {}", avail.join(" | ")));
            } else {
                sec.extend(avail.drain(..));
                sink(O_STACK, sec.is_empty(), i, &|| format!("{head}; {}", sec.join(" | ")));
            }
            res.passed = sec.is_empty() && avail.is_empty();
            return res;
        }
        if rv != sv { why.push(format!("post-view differs: {}", rv.diff(&sv, "spec"))); }
        let ok = why.is_empty();
        sink(ob, ok, i, &|| format!("op#{i} {} -> {} (no observer call since the start of the sequence); spec decision {:?}; {}", op.to_json(), out.show(), allowed, why.join(" | ")));
        res.passed = ok;
    }
    res
}
fn blind(rep: &mut Report, cfg: &Cfg, ops: &[Op], ob: &str) -> SeqRes {
    let r = run_blind(cfg, ops, ob, &mut |oid, ok, at, detail| rep.check(oid, ok, &|| case_json(cfg, &ops[..=at], at), detail));
    for k in 0..r.checked { rep.eval(k < r.nontrivial); }
    r
}

/// every kind of op as the requester's first call: `other` = an entity the requester may try to revoke, `third` = grantee
fn first_ops(by: u8, s: u8, third: u8, other: u8) -> Vec<Op> {
    vec![Op::Rotate { by, s, v: 3 }, Op::Set { by, s, v: 2 }, Op::Delete { by, s },
         Op::Ver { by, s, kind: 0 }, Op::Ver { by, s, kind: 1 }, Op::Ver { by, s, kind: 2 },
         Op::Grant { by, to: third, s, lvl: 1, ttl: None }, Op::Grant { by, to: third, s, lvl: 3, ttl: None }, Op::Grant { by, to: third, s, lvl: 2, ttl: Some(3600) },
         Op::Delegate { by, to: third, s, lvl: 1 }, Op::Revoke { by, from: other, s },
         Op::Get { by, s }, Op::List { by, pat: 0 }, Op::List { by, pat: 1 + s }]
}

/// C14.decision.group_ttl: see the module doc
fn family_group_ttl(rep: &mut Report) {
    let base = [Op::Set { by: ROOT, s: 0, v: 1 }, Op::Grant { by: ROOT, to: BOB, s: 0, lvl: 2, ttl: None }];
    // (chain, policy, extended): extended = also the variants in which the member holds a grant of its own
    for (chain, policy, extended) in [(2u8, 0u8, true), (2, 1, false), (1, 0, false), (2, 2, false)] {
        let cfg = Cfg { chain, policy, names: 1, nsec: 2 };
        for group in [TEAM, ORG] {
            if group == ORG && chain < 2 { continue; }
            // own: nothing / a permanent Read of alice's own / a live 3600 s TTL Read of alice's own (its TTL entry is NOT expired)
            for own in 0..(if extended { 3 } else { 1 }) {
                for lvl in 1..=3u8 { for ttl in [0u64, 3600] {
                    let mut pre = base.to_vec();
                    match own { 1 => pre.push(Op::Grant { by: ROOT, to: ALICE, s: 0, lvl: 1, ttl: None }), 2 => pre.push(Op::Grant { by: ROOT, to: ALICE, s: 0, lvl: 1, ttl: Some(3600) }), _ => {} }
                    pre.push(Op::Grant { by: ROOT, to: group, s: 0, lvl, ttl: Some(ttl) });
                    let mut requesters = vec![ALICE];
                    if own == 0 { if group == ORG { requesters.push(TEAM); } requesters.push(group); }
                    for by in requesters { for op in first_ops(by, 0, CAROL, BOB) {
                        let mut ops = pre.clone();
                        ops.push(op);
                        blind(rep, &cfg, &ops, BLIND[0]);
                    } }
                } }
            }
        }
    }
}

/// C14.revoke.all_edges: see the module doc
fn family_revoke_all(rep: &mut Report) {
    let cfg = Cfg { chain: 2, policy: 0, names: 1, nsec: 2 };
    let g = |by: u8, to: u8, lvl: u8, ttl: Option<u64>| Op::Grant { by, to, s: 0, lvl, ttl };
    // (holder of the grants, requesters that draw on them)
    for (x, requesters) in [(BOB, vec![BOB]), (TEAM, vec![ALICE, TEAM])] {
        let combos: Vec<Vec<Op>> = vec![
            vec![g(ROOT, x, 2, None)],
            vec![g(ROOT, x, 1, None), g(ROOT, x, 2, None)],
            vec![g(ROOT, x, 2, None), g(ROOT, x, 1, None)],
            vec![g(ROOT, x, 3, None), g(ROOT, x, 3, None)],
            vec![g(ROOT, x, 1, None), g(ROOT, x, 2, None), g(ROOT, x, 3, None)],
            vec![g(ROOT, x, 1, None), g(ROOT, x, 2, Some(3600))],
            vec![g(ROOT, x, 3, Some(3600)), g(ROOT, x, 1, None)],
            vec![g(ROOT, x, 2, None), Op::Delegate { by: ROOT, to: x, s: 0, lvl: 2 }],
            vec![Op::Delegate { by: ROOT, to: x, s: 0, lvl: 3 }, g(ROOT, x, 1, None)],
            vec![g(ROOT, x, 1, None), g(CAROL, x, 2, None)],
            vec![g(CAROL, x, 3, None), Op::Delegate { by: CAROL, to: x, s: 0, lvl: 3 }, g(ROOT, x, 2, None)],
        ];
        for combo in &combos { for revoker in [ROOT, CAROL] {
            // frame: carol is another Admin of S0, x holds Write on the other secret S1
            let mut pre = vec![Op::Set { by: ROOT, s: 0, v: 1 }, Op::Set { by: ROOT, s: 1, v: 2 },
                               Op::Grant { by: ROOT, to: CAROL, s: 0, lvl: 3, ttl: None }, Op::Grant { by: ROOT, to: x, s: 1, lvl: 2, ttl: None }];
            pre.extend(combo.iter().cloned());
            pre.push(Op::Revoke { by: revoker, from: x, s: 0 });
            blind(rep, &cfg, &pre, BLIND[1]);
            for &by in &requesters {
                let third = if by == BOB { ALICE } else { BOB };
                let mut after = first_ops(by, 0, third, CAROL);
                after.extend([Op::Get { by, s: 1 }, Op::Rotate { by, s: 1, v: 3 }, Op::Get { by: CAROL, s: 0 }, Op::Rotate { by: CAROL, s: 0, v: 3 }]);
                for op in after { let mut ops = pre.clone(); ops.push(op); blind(rep, &cfg, &ops, BLIND[1]); }
            }
        } }
    }
}

/// C14.decision.ttl_stack (F7): TWO time-limited grants on ONE (entity, S0) pair, then the entity's / its member's first call.
fn family_ttl_stack(rep: &mut Report) {
    let cfg = Cfg { chain: 2, policy: 0, names: 1, nsec: 2 };
    let run = |rep: &mut Report, ops: &[Op]| {
        let r = run_blind(&cfg, ops, O_STACK, &mut |oid, ok, at, detail| rep.check(oid, ok, &|| {
            let mut j = case_json(&cfg, &ops[..=at], at);
            j["runner"] = json!(RUNNER_STACK);
            j
        }, detail));
        for k in 0..r.checked { rep.eval(k < r.nontrivial); }
    };
    // frame: bob holds a permanent Write on S0
    let base = [Op::Set { by: ROOT, s: 0, v: 1 }, Op::Grant { by: ROOT, to: BOB, s: 0, lvl: 2, ttl: None }];
    // via 0: both by grant_with_ttl; 1: the FIRST-lifetime grant by delegate(root, x, [S0], lvl, ttl); 2: the SECOND one by delegate
    let tl = |x: u8, lvl: u8, ttl: u64, deleg: bool| if deleg { Op::DelegateMany { by: ROOT, to: x, ss: vec![0], lvl, ttl: Some(ttl) } }
                                                      else { Op::Grant { by: ROOT, to: x, s: 0, lvl, ttl: Some(ttl) } };
    for (x, requesters) in [(ALICE, vec![ALICE]), (TEAM, vec![ALICE])] {
        // (lifetime of the first grant, of the second grant): expired + live in both orders; both live (different lifetimes); both expired
        for (t1, t2) in [(0u64, 3600u64), (3600, 0), (3600, 7200), (7200, 3600), (0, 0)] {
            let mixed = (t1 == 0) != (t2 == 0);
            if !mixed && x != ALICE { continue; }
            for l1 in 1..=3u8 { for l2 in 1..=3u8 { for via in 0..(if mixed { 3 } else { 1 }) {
                let mut pre = base.to_vec();
                pre.push(tl(x, l1, t1, via == 1));
                pre.push(tl(x, l2, t2, via == 2));
                for &by in &requesters { for op in first_ops(by, 0, CAROL, BOB) {
                    let mut ops = pre.clone();
                    ops.push(op);
                    run(rep, &ops);
                } }
            } } }
        }
    }
}

/// C14.delegate.per_secret (F8): ONE `delegate` over a LIST of secrets on which the parent's standing differs.
fn family_delegate_list(rep: &mut Report) {
    let cfg = Cfg { chain: 2, policy: 0, names: 1, nsec: 3 };
    let sets = [Op::Set { by: ROOT, s: 0, v: 1 }, Op::Set { by: ROOT, s: 1, v: 2 }, Op::Set { by: ROOT, s: 2, v: 3 }];
    // standing of the holder on a secret: 0 nothing, 1 Read, 2 Write, 3 Admin (permanent grants), 4 an EXPIRED time-limited Admin grant
    let standing = |holder: u8, s: u8, st: u8| match st {
        0 => None,
        4 => Some(Op::Grant { by: ROOT, to: holder, s, lvl: 3, ttl: Some(0) }),
        l => Some(Op::Grant { by: ROOT, to: holder, s, lvl: l, ttl: None }),
    };
    // the delegate call itself, then (each as the first call after it) get / rotate by the child on every secret
    let go = |rep: &mut Report, pre: &[Op], d: Op, child: u8, follow: bool| {
        let mut ops = pre.to_vec();
        ops.push(d);
        blind(rep, &cfg, &ops, O_DELEG);
        if !follow { return; }
        for s in 0..3u8 { for f in [Op::Get { by: child, s }, Op::Rotate { by: child, s, v: 0 }] {
            let mut o = ops.clone();
            o.push(f);
            blind(rep, &cfg, &o, O_DELEG);
        } }
    };
    // (a) parent bob, child carol, list [S0,S1,S2]: every standing vector x every requested level, permanent delegation
    for v in 0..125u32 {
        let st = [(v / 25) as u8, (v / 5 % 5) as u8, (v % 5) as u8];
        let mut pre = sets.to_vec();
        for s in 0..3u8 { pre.extend(standing(BOB, s, st[s as usize])); }
        for lvl in 1..=3u8 {
            let n_cov = st.iter().filter(|x| **x != 4 && **x >= lvl).count();
            // follow-up calls where something is (or could be) delegated, and for a sample of the all-uncovered vectors
            go(rep, &pre, Op::DelegateMany { by: BOB, to: CAROL, ss: vec![0, 1, 2], lvl, ttl: None }, CAROL, n_cov > 0 || v % 7 == 0);
            // time-limited delegations (live / already expired) for the vectors over {nothing, Read, Admin}
            if st.iter().all(|x| matches!(x, 0 | 1 | 3)) && lvl != 2 {
                for ttl in [3600u64, 0] { go(rep, &pre, Op::DelegateMany { by: BOB, to: CAROL, ss: vec![0, 1, 2], lvl, ttl: Some(ttl) }, CAROL, n_cov > 0 && ttl == 3600); }
            }
        }
    }
    // (b) sub-lists in other orders; S2 (bob: Admin) is NOT in the list and must stay out of the child's reach
    for v in 0..25u32 {
        let st = [(v / 5) as u8, (v % 5) as u8];
        let mut pre = sets.to_vec();
        for s in 0..2u8 { pre.extend(standing(BOB, s, st[s as usize])); }
        pre.extend(standing(BOB, 2, 3));
        for lvl in 1..=3u8 { go(rep, &pre, Op::DelegateMany { by: BOB, to: CAROL, ss: vec![1, 0], lvl, ttl: None }, CAROL, true); }
    }
    // (c) the parent's standing comes from a GROUP (alice -MEMBER-> team, 2 hops: Admin of team = Write for alice under the default policy)
    for st in [[3u8, 2, 0], [3, 3, 1], [2, 0, 3], [1, 3, 3], [3, 4, 3]] {
        let mut pre = sets.to_vec();
        for s in 0..3u8 { pre.extend(standing(TEAM, s, st[s as usize])); }
        for lvl in 1..=3u8 { go(rep, &pre, Op::DelegateMany { by: ALICE, to: CAROL, ss: vec![0, 1, 2], lvl, ttl: None }, CAROL, true); }
    }
    // (d) root as the parent (covers every existing secret): must succeed; and a parent with Admin everywhere
    for lvl in 1..=3u8 { for ttl in [None, Some(3600u64), Some(0)] {
        go(rep, &sets, Op::DelegateMany { by: ROOT, to: CAROL, ss: vec![0, 1, 2], lvl, ttl }, CAROL, true);
        go(rep, &sets, Op::DelegateMany { by: ROOT, to: TEAM, ss: vec![2, 0], lvl, ttl }, ALICE, true);
    } }
}


// ---------------------------------------------------------------- C14.decision.many_expired
mod many {
    use super::{build_pol, lvl_of, short, Sys};
    use serde_json::{json, Value};
    use std::time::Duration;
    use tensor_vault::{Permission, Vault};

    pub const OB: &str = "C14.decision.many_expired";
    pub const NS: [usize; 6] = [1, 15, 16, 17, 33, 64];
    pub const TTL_MS: [u64; 2] = [1, 0];
    pub const CALLS: [&str; 6] = ["get", "list", "rotate", "set", "delete", "grant"];
    /// one sleep for the whole family: far past every deadline (the longest TTL is 1 ms)
    pub const WAIT: Duration = Duration::from_millis(25);
    const IDS: usize = 8;
    const THIRD: &str = "user:zed";
    const KEEPER: &str = "user:keeper";

    fn ident(i: usize) -> String { format!("user:m{i}") }
    fn secret(s: usize) -> String { format!("many/secret-{s:02}") }
    fn val(s: usize) -> String { format!("original-value-{s:02}") }
    /// the i-th (identity, secret) pair: all 64 are distinct, every identity and every secret occurs from n = 8 on
    fn pair(i: usize) -> (usize, usize) { (i % IDS, (i / IDS + i % IDS) % IDS) }

    /// rotation starts: ttl 0 ms (no co-resident vaults needed) gets five, ttl 1 ms three (these vaults all stay alive across the sleep)
    pub fn starts(n: usize, ttl_ms: u64) -> Vec<usize> {
        let mut v = if ttl_ms == 0 { vec![0, n / 4, n / 2, 3 * n / 4, n - 1] } else { vec![0, n / 2, n - 1] };
        v.sort_unstable();
        v.dedup();
        v
    }

    #[derive(Clone, Copy, Debug)]
    pub struct Case { pub n: usize, pub ttl_ms: u64, pub call: usize, pub start: usize }
    impl Case {
        pub fn json(&self, at: &Value) -> Value { json!({"family": "many_expired", "n": self.n, "ttl_ms": self.ttl_ms, "call": CALLS[self.call], "start": self.start, "at": at}) }
        pub fn parse(v: &Value) -> Result<Case, String> {
            let n = v["n"].as_u64().ok_or("n")? as usize;
            if n == 0 || n > IDS * IDS { return Err("n must be 1..=64".into()); }
            let call = CALLS.iter().position(|c| Some(*c) == v["call"].as_str()).ok_or("call")?;
            let start = v["start"].as_u64().ok_or("start")? as usize;
            if start >= n { return Err("start must be < n".into()); }
            Ok(Case { n, ttl_ms: v["ttl_ms"].as_u64().ok_or("ttl_ms")?, call, start })
        }
    }

    /// 8 secrets by root, n time-limited Admin grants by root (root's calls never sweep), one permanent Read of a bystander
    pub fn setup(c: &Case) -> Sys {
        let sys = build_pol((1, 2, 10), 1, 2);
        let v = &sys.vault;
        for s in 0..IDS { v.set(Vault::ROOT, &secret(s), &val(s)).expect("root creates the secret"); }
        for i in 0..c.n {
            let (id, s) = pair(i);
            v.grant_with_ttl(Vault::ROOT, &ident(id), &secret(s), Permission::Admin, Duration::from_millis(c.ttl_ms)).expect("root grants with a TTL");
        }
        v.grant_with_permission(Vault::ROOT, KEEPER, &secret(0), Permission::Read).expect("root grants the bystander");
        sys
    }

    /// (verdict, detail) per probe in rotation order, then one entry for the view after the last probe.  Call only after the deadline.
    pub fn probe(c: &Case, sys: &Sys) -> Vec<(bool, String)> {
        let v = &sys.vault;
        let mut out = vec![];
        for j in 0..c.n {
            let i = (c.start + j) % c.n;
            let (id, s) = pair(i);
            let (who, name) = (ident(id), secret(s));
            let (refused, shown) = match CALLS[c.call] {
                "get" => { let r = v.get(&who, &name); (r.is_err(), format!("{:?}", r.map(|x| short(&x)).map_err(|e| short(&e.to_string())))) },
                "list" => { let r = v.list(&who, "*"); (r.as_ref().map_or(true, Vec::is_empty), format!("{:?}", r.map_err(|e| short(&e.to_string())))) },
                "rotate" => { let r = v.rotate(&who, &name, "rotated-by-an-expired-grantee"); (r.is_err(), format!("{:?}", r.map_err(|e| short(&e.to_string())))) },
                "set" => { let r = v.set(&who, &name, "overwritten-by-an-expired-grantee"); (r.is_err(), format!("{:?}", r.map_err(|e| short(&e.to_string())))) },
                "delete" => { let r = v.delete(&who, &name); (r.is_err(), format!("{:?}", r.map_err(|e| short(&e.to_string())))) },
                _ => { let r = v.grant(&who, THIRD, &name); (r.is_err(), format!("{:?}", r.map_err(|e| short(&e.to_string())))) },
            };
            out.push((refused, format!("{} grants with ttl {} ms all expired; probe #{j} (the {}): {}({who}, {name}{}) on grant pair #{i} -> {shown}; expected: refused",
                                       c.n, c.ttl_ms, if j == 0 { "FIRST vault call after the deadline".to_string() } else { format!("{}th call", j + 1) },
                                       CALLS[c.call], if CALLS[c.call] == "grant" { format!(" to {THIRD}") } else if CALLS[c.call] == "list" { " pattern *".to_string() } else { String::new() })));
        }
        // only now the observers
        let mut bad = vec![];
        for s in 0..IDS {
            let name = secret(s);
            match v.current_version(Vault::ROOT, &name).and_then(|n| v.get_version(Vault::ROOT, &name, n)) {
                Ok(x) if x == val(s) => {},
                o => bad.push(format!("value({name}) = {:?}, original {:?}", o.map(|x| short(&x)).map_err(|e| short(&e.to_string())), val(s))),
            }
            if let Some(p) = v.get_permission(THIRD, &name) { bad.push(format!("get_permission({THIRD}, {name}) = {p:?}")); }
        }
        for i in 0..c.n {
            let (id, s) = pair(i);
            if let Some(p) = v.get_permission(&ident(id), &secret(s)) { bad.push(format!("get_permission({}, {}) = {p:?} after expiry", ident(id), secret(s))); }
        }
        if lvl_of(v.get_permission(KEEPER, &secret(0))) != 1 { bad.push(format!("the bystander's permanent Read became {:?}", v.get_permission(KEEPER, &secret(0)))); }
        if v.get(KEEPER, &secret(0)).ok() != Some(val(0)) { bad.push("the bystander cannot read through its permanent grant any more".to_string()); }
        out.push((bad.is_empty(), format!("{} grants with ttl {} ms all expired, {} x {} probed from pair #{}; view after the probes: {}", c.n, c.ttl_ms, c.n, CALLS[c.call], c.start, bad.join("; "))));
        out
    }

    pub fn all_cases() -> Vec<Case> {
        let mut v = vec![];
        for ttl_ms in TTL_MS { for n in NS { for call in 0..CALLS.len() { for start in starts(n, ttl_ms) { v.push(Case { n, ttl_ms, call, start }); } } } }
        v
    }
}

// ---------------------------------------------------------------- C14.list.distance
mod dist {
    use super::{add_member_key, attenuate_spec, build_pol, lvl_of, perm_of, short, LVL_S};
    use serde_json::{json, Value};
    use tensor_vault::Vault;

    pub const OB: &str = "C14.list.distance";
    pub const POLICIES: [(&str, (usize, usize, usize)); 3] = [("default", (1, 2, 10)), ("tight(1,1,2)", (1, 1, 2)), ("h3(1,2,3)", (1, 2, 3))];
    pub const PATS: [&str; 4] = ["*", "", "prefix*", "exact"];
    const REQ: &str = "user:req";

    #[derive(Clone, Copy, Debug)]
    pub struct Case { pub policy: usize, pub chain: usize, pub lvl: u8, pub pat: usize, pub names: u8 }
    impl Case {
        pub fn json(&self) -> Value {
            let names = ["1B", "16B", "utf8"][self.names as usize];
            json!({"family": "list_distance", "policy": POLICIES[self.policy].0, "chain": self.chain, "lvl": LVL_S[self.lvl as usize], "pat": PATS[self.pat], "names": names})
        }
        pub fn parse(v: &Value) -> Result<Case, String> {
            Ok(Case { policy: POLICIES.iter().position(|p| Some(p.0) == v["policy"].as_str()).ok_or("policy")?,
                      chain: v["chain"].as_u64().filter(|c| *c <= 40).ok_or("chain (0..=40)")? as usize,
                      lvl: LVL_S.iter().position(|l| Some(*l) == v["lvl"].as_str()).filter(|l| *l >= 1).ok_or("lvl")? as u8,
                      pat: PATS.iter().position(|p| Some(*p) == v["pat"].as_str()).ok_or("pat")?,
                      names: ["1B", "16B", "utf8"].iter().position(|n| Some(*n) == v["names"].as_str()).ok_or("names")? as u8 })
        }
    }

    /// Err = the obligation fails for this case
    pub fn eval(c: &Case) -> Result<String, String> {
        let pol = POLICIES[c.policy].1;
        let sys = build_pol(pol, c.names, 3);
        let v = &sys.vault;
        let nm = &sys.nm;
        for (s, name) in nm.iter().enumerate() { v.set(Vault::ROOT, name, &format!("value-of-secret-{s}")).map_err(|e| format!("setup set: {e}"))?; }
        // requester -> g1 -> .. -> gL; the grant sits on gL (on the requester itself for L = 0)
        let mut holder = REQ.to_string();
        for i in 1..=c.chain {
            let g = format!("group:g{i}");
            add_member_key(&v.graph, &holder, &g);
            holder = g;
        }
        v.grant_with_permission(Vault::ROOT, &holder, &nm[0], perm_of(c.lvl)).map_err(|e| format!("setup grant: {e}"))?;
        // decoy: a direct Read on S1 (unless the requester is the holder: then its standing on S1 is the direct Read as well), nothing on S2
        v.grant_with_permission(Vault::ROOT, REQ, &nm[1], perm_of(1)).map_err(|e| format!("setup grant: {e}"))?;
        let hops = c.chain + 1;
        let spec = attenuate_spec(pol, c.lvl, hops);
        let pattern: String = match c.pat {
            0 => "*".into(),
            1 => String::new(),
            2 => { let n = nm[0].chars().count(); format!("{}*", nm[0].chars().take(n - 1).collect::<String>()) },
            _ => nm[0].clone(),
        };
        let matches = |name: &str| match c.pat { 0 | 1 => true, 2 => name.starts_with(pattern.trim_end_matches('*')), _ => name == pattern };
        let mut want: Vec<String> = vec![];
        if spec >= 1 && matches(&nm[0]) { want.push(nm[0].clone()); }
        if matches(&nm[1]) { want.push(nm[1].clone()); }
        want.sort();
        // the list call first (nothing else has run on this vault), then the single-secret observers
        let listed = v.list(REQ, &pattern).map(|mut l| { l.sort(); l });
        let got = v.get(REQ, &nm[0]);
        let perm = lvl_of(v.get_permission(REQ, &nm[0]));
        let mut why = vec![];
        match &listed {
            Ok(l) if *l == want => {},
            Ok(l) => why.push(format!("list({pattern:?}) = {l:?}, expected {want:?}")),
            Err(e) => why.push(format!("list({pattern:?}) failed: {e}")),
        }
        if got.is_ok() != (spec >= 1) { why.push(format!("get = {:?}, spec {}", got.as_ref().map(|x| short(x)).map_err(|e| short(&e.to_string())), if spec >= 1 { "allowed" } else { "denied" })); }
        if perm != spec { why.push(format!("get_permission = {}, spec {}", LVL_S[perm as usize], LVL_S[spec as usize])); }
        if let Ok(l) = &listed { if matches(&nm[0]) && l.contains(&nm[0]) != got.is_ok() { why.push("list and get DISAGREE on the same (requester, secret)".to_string()); } }
        let head = format!("policy {} (horizon {}), chain of {} MEMBER edges + the grant edge = {hops} hops, grant {} on the last group; requester list({pattern:?})",
                           POLICIES[c.policy].0, pol.2, c.chain, LVL_S[c.lvl as usize]);
        if why.is_empty() { Ok(format!("{head} = {want:?}, get / get_permission agree ({})", LVL_S[spec as usize])) } else { Err(format!("{head}: {}", why.join(" | "))) }
    }

    pub fn all_cases() -> Vec<Case> {
        let mut v = vec![];
        for (policy, (_, (_, _, h))) in POLICIES.iter().enumerate() {
            for chain in h.saturating_sub(2)..=h + 2 {
                for lvl in 1..=3u8 { for names in [1u8, 2] { for pat in 0..PATS.len() { v.push(Case { policy, chain, lvl, pat, names }); } } }
            }
        }
        v
    }
}

// ---------------------------------------------------------------- enumeration
fn case_json(cfg: &Cfg, ops: &[Op], at: usize) -> Value {
    json!({"cfg": cfg.to_json(), "ops": ops.iter().map(Op::to_json).collect::<Vec<_>>(), "at": at})
}
fn node(rep: &mut Report, cfg: &Cfg, ops: &[Op], check_from: usize) -> SeqRes {
    let r = run_seq(cfg, ops, check_from, &mut |oid, ok, at, detail| rep.check(oid, ok, &|| case_json(cfg, &ops[..=at], at), detail));
    for k in 0..r.checked { rep.eval(k < r.nontrivial); }
    r
}
/// Enumerates every sequence over `alpha` of length <= full, plus every sequence of length <= max in
/// which every op except possibly the last one changes the ghost view (a non-changing op is checked to
/// leave the whole view unchanged by its own case).  Every sequence runs after the fixed prefix `pre`.
fn dfs(rep: &mut Report, cfg: &Cfg, pre: &[Op], seq: &mut Vec<Op>, alpha: &[Op], full: usize, max: usize, all_changed: bool) {
    let mut all = pre.to_vec();
    all.extend(seq.iter().cloned());
    let r = node(rep, cfg, &all, if seq.is_empty() { 0 } else { all.len() - 1 });
    let all_changed = all_changed && (seq.is_empty() || r.changed);
    if !r.passed { return; }
    if seq.len() < full || (all_changed && seq.len() < max) {
        for op in alpha { seq.push(op.clone()); dfs(rep, cfg, pre, seq, alpha, full, max, all_changed); seq.pop(); }
    }
}

fn alpha_core() -> Vec<Op> {
    let mut a = vec![];
    for to in [ALICE, BOB, TEAM, ORG] { for lvl in 1..=3 { a.push(Op::Grant { by: ROOT, to, s: 0, lvl, ttl: None }); } }
    a.push(Op::Grant { by: ALICE, to: BOB, s: 0, lvl: 1, ttl: None });
    a.push(Op::Grant { by: ALICE, to: BOB, s: 0, lvl: 3, ttl: None });
    a.push(Op::Grant { by: ALICE, to: ALICE, s: 0, lvl: 3, ttl: None });
    a.push(Op::Grant { by: BOB, to: CAROL, s: 0, lvl: 2, ttl: None });
    for from in [ALICE, TEAM, ORG] { a.push(Op::Revoke { by: ROOT, from, s: 0 }); }
    a.push(Op::Revoke { by: ALICE, from: BOB, s: 0 });
    a.push(Op::Revoke { by: ALICE, from: ALICE, s: 0 });
    a.push(Op::Revoke { by: BOB, from: ALICE, s: 0 });
    for by in [ROOT, ALICE, BOB, CAROL] {
        a.push(Op::Set { by, s: 0, v: 2 });
        a.push(Op::Get { by, s: 0 });
        a.push(Op::Rotate { by, s: 0, v: 3 });
        a.push(Op::Delete { by, s: 0 });
        a.push(Op::List { by, pat: 0 });
    }
    a.push(Op::List { by: ALICE, pat: 1 });
    a.push(Op::Set { by: ROOT, s: 1, v: 1 });
    a.push(Op::Set { by: ALICE, s: 1, v: 1 });
    a.push(Op::Get { by: ALICE, s: 1 });
    a.push(Op::Grant { by: ROOT, to: ALICE, s: 1, lvl: 2, ttl: None });
    a
}
fn alpha_ttl() -> Vec<Op> {
    let mut a = vec![];
    for to in [ALICE, TEAM] { for lvl in [1, 3] { for ttl in [0, 3600] { a.push(Op::Grant { by: ROOT, to, s: 0, lvl, ttl: Some(ttl) }); } } }
    a.push(Op::Grant { by: ALICE, to: BOB, s: 0, lvl: 2, ttl: Some(0) });
    a
}
fn alpha_extra() -> Vec<Op> {
    vec![Op::Member { from: ALICE, to: TEAM }, Op::Member { from: TEAM, to: ORG }, Op::Member { from: BOB, to: ORG },
         Op::Grant { by: ALICE, to: TEAM, s: 0, lvl: 3, ttl: None }, Op::Revoke { by: ROOT, from: BOB, s: 0 },
         Op::List { by: BOB, pat: 1 }, Op::List { by: ALICE, pat: 2 }, Op::List { by: CAROL, pat: 3 },
         Op::Rotate { by: ALICE, s: 1, v: 0 }, Op::Delete { by: ALICE, s: 1 }, Op::Delete { by: ROOT, s: 1 },
         Op::Grant { by: ROOT, to: TEAM, s: 1, lvl: 3, ttl: None }, Op::Revoke { by: ROOT, from: ALICE, s: 1 }]
}

/// policy / chain sensitive ops (F2)
fn alpha_pol() -> Vec<Op> {
    let mut a = vec![];
    for to in [ALICE, TEAM, ORG] { for lvl in 1..=3 { a.push(Op::Grant { by: ROOT, to, s: 0, lvl, ttl: None }); } }
    a.extend([Op::Get { by: ALICE, s: 0 }, Op::Set { by: ALICE, s: 0, v: 2 }, Op::Rotate { by: ALICE, s: 0, v: 3 }, Op::Delete { by: ALICE, s: 0 },
              Op::Grant { by: ALICE, to: BOB, s: 0, lvl: 1, ttl: None }, Op::Revoke { by: ALICE, from: BOB, s: 0 }, Op::List { by: ALICE, pat: 0 },
              Op::Get { by: BOB, s: 0 }, Op::Revoke { by: ROOT, from: TEAM, s: 0 }]);
    a
}

const OBLIGATIONS: [(&str, &str); 15] = [
    ("C14.decision.many_expired", "Vault::{get,list,rotate,set,delete,grant} as the first calls after n = 1..64 grant_with_ttl grants expired together (GrantTTLTracker::get_expired / Vault::cleanup_expired_grants)"),
    ("C14.list.distance", "Vault::list (wildcard / empty / prefix / exact pattern) vs Vault::{get,get_permission} at MEMBER distance horizon-2 .. horizon+2"),
    ("C14.decision.ttl_stack", "Vault::{rotate,set,delete,grant*,delegate,revoke,get,list,*_version} as the first call after TWO grant_with_ttl / delegate(ttl) on one (entity, secret) with different lifetimes (security direction)"),
    ("C14.delegate.per_secret", "Vault::delegate(parent, child, [list of secrets], level, ttl) + the child's next call"),
    ("C14.decision.group_ttl", "Vault::{rotate,set,delete,current_version,list_versions,get_version,grant_with_permission,grant_with_ttl,delegate,revoke,get,list} as the first call after grant_with_ttl to a group"),
    ("C14.revoke.all_edges", "Vault::revoke after several grant-type ops (grant, grant_with_permission, grant_with_ttl, delegate) on one (entity, secret) + the next op"),
    ("C14.decision", "Vault::{get,list,set,rotate,delete,grant,grant_with_permission,grant_with_ttl,revoke,get_permission}"),
    ("C14.decision.ttl_overlap", "Vault::{grant_with_ttl,cleanup via get/list} with a second grant on the same (entity, secret)"),
    ("C14.revoke.immediate", "Vault::{revoke,delete,grant_with_ttl} + next access"),
    ("C14.revoke.immediate.observer", "Vault::get_permission after TTL expiry"),
    ("C14.membership.alone", "AccessController::get_permission_level_verified via Vault ops"),
    ("C14.grant.requires_admin", "Vault::{grant,grant_with_permission,grant_with_ttl}"),
    ("C14.at_rest.value", "Vault::{set,rotate} + TensorStore::{snapshot_bytes,scan}"),
    ("C14.at_rest.name", "Vault::{set,rotate} + TensorStore::{snapshot_bytes,scan}"),
    ("C14.at_rest.audit_err", "Vault::{audit_recent,audit_log}, VaultError Display"),
];

pub fn run(tier: Tier, seed: u64) -> Report {
    let thorough = tier == Tier::Thorough;
    let core = alpha_core();
    let pola = alpha_pol();
    let mut wide = core.clone();
    wide.extend(alpha_ttl());
    wide.extend(alpha_extra());
    let f1_max = if thorough { 4 } else { 3 };
    let domain = format!(
        "fresh Vault per sequence (TensorStore shared with its GraphEngine); identities root, alice, bob, carol + groups team, org; 2 secrets (S0 pre-created by root, S1 created by an op); \
         the last op of every sequence is the checked call. \
         F1: chain alice-MEMBER->team-MEMBER->org, default attenuation (1,2,10), 16-byte names/values, {}-op alphabet (grant R/W/A by root to alice/bob/team/org, grants by alice/bob, \
         revokes by root/alice/bob, set/get/rotate/delete/list by root/alice/bob/carol, S1 create/get/grant): ALL sequences of length <= 2, plus all sequences of length <= {f1_max} in which \
         every op but the last changes the ghost view{}. \
         F2: chain in {{0,1,2}} x policy in {{default, none, tight(1,1,2)}}: {}. \
         F3: name class {{1 byte,16 bytes,UTF-8}} x value class {{1 byte,16 bytes,UTF-8}}: a fixed 17-op script, every op checked; size limit: values of 65531 and 65532 bytes. \
         F4 (TTL): grant_with_ttl(ttl in {{0 s, 3600 s}}) by root to alice/team/org at R/W/A, followed by every op of the F1 alphabet; \
         F4b: permanent W grant + grant_with_ttl(R, 0 s) to the same entity (alice / team), followed by every op of the F1 alphabet. \
         F5 (blind: no observer call between the ops, the view is read only after the checked op): grant_with_ttl(R/W/A, ttl in {{0 s, 3600 s}}) by root to a GROUP (team / org; \
         chain alice->team->org, policies default / none / tight and chain 1) while bob holds a permanent W and alice nothing / a permanent R / a live-TTL R of her own, then as the FIRST \
         call each of 14 ops (rotate, set, delete, current_version, list_versions, get_version, grant R / A / W+ttl to carol, delegate to carol, revoke bob, get, list *, list S0) by \
         alice (member), by team (member of org) and by the group itself. \
         F6 (blind): 11 combinations of 1..3 grant-type ops on one (entity, S0) pair, entity in {{bob, team}} (R then W, W then R, A twice, R+W+A, R + W/3600 s, A/3600 s + R, W + delegate W, \
         delegate A + R, R by root + W by carol, A by carol + delegate by carol + W by root), then ONE revoke by root / by carol (another Admin), then the revoke itself and each of the \
         14 ops on S0 by bob / alice (member of team) / team, plus get/rotate on S1 by the same requester and get/rotate on S0 by carol (frame). \
         F7 (blind): two time-limited grants on one (entity, S0) pair, entity alice / team (requester alice), levels {{R,W,A}}^2, lifetimes (0 s, 3600 s) and (3600 s, 0 s) with both by \
         grant_with_ttl or the first / the second by delegate(root, entity, [S0], level, ttl), and for alice also (3600 s, 7200 s), (7200 s, 3600 s), (0 s, 0 s); then each of the 14 ops by alice. \
         F8 (blind, 3 secrets): delegate(bob, carol, [S0,S1,S2], level in {{R,W,A}}, permanent) for all 5^3 standings of bob on the three secrets (nothing, R, W, A, expired-TTL A), with ttl \
         3600 s / 0 s for the 3^3 standings over {{nothing, R, A}} and levels R / A; delegate(bob, carol, [S1,S0], ..) for the 5^2 standings with bob Admin on S2; delegate(alice, carol, [S0,S1,S2], ..) \
         with alice's standing coming from team (5 vectors); delegate(root, carol / team, ..) with ttl none / 3600 s / 0 s; after each delegate also get and rotate by the child on every secret.{}",
        core.len(),
        if thorough { format!("; F1w: the same over the wide {}-op alphabet (adds TTL grants, MEMBER insertions, more S1 ops) with length <= 2 / <= 3", wide.len()) } else { String::new() },
        if thorough { format!("all sequences of length <= 2 over the F1 alphabet, plus length <= 2 / <= 3 (same rule) over a {}-op policy alphabet", pola.len()) }
        else { format!("all sequences of length <= 2 over a {}-op policy alphabet (root grants to alice/team/org at R/W/A, every op kind by alice, get by bob, revoke team)", pola.len()) },
        if thorough { " Beyond the exhaustive core: 6000 seeded random sequences of length 6 over the wide alphabet, random chain/policy/name class (not exhaustive)." } else { "" });
    let domain = format!("{domain} F9 (own identities/secrets, one shared 25 ms sleep after all vaults are built): n in {{1,15,16,17,33,64}} grant_with_ttl(Admin, ttl in {{0 ms, 1 ms}}) grants over 8 identities x 8 secrets + a bystander's permanent Read; \
         one fresh vault per (n, ttl, probing call in {{get, list *, rotate, set, delete, grant to a third party}}, rotation start in {{0, n/2, n-1}} (ttl 1 ms; all these vaults are alive across the sleep) or {{0, n/4, n/2, 3n/4, n-1}} (ttl 0 ms)): the probing call by every grantee on each of its secrets, the first of them being the \
         first vault call after the deadline, then the whole view. \
         F10: requester -MEMBER-> g1 .. -> gL with a permanent R / W / A grant on gL, L in {{h-2..h+2}} for horizon h of the policies default (1,2,10), tight (1,1,2), (1,2,3); decoy secrets (direct Read, no grant); 16-byte and UTF-8 names; \
         list with the pattern forms *, empty, prefix*, exact name vs get / get_permission.");
    let mut rep = Report::new("c14_vault", &domain, true,
        &["tensor_vault::Vault::{new,set,get,rotate,delete,list,grant,grant_with_permission,grant_with_ttl,revoke,delegate,get_permission,current_version,list_versions,get_version,audit_recent,audit_log}",
          "tensor_vault::AccessController::get_permission_level_verified", "tensor_vault::AttenuationPolicy::attenuate", "tensor_vault::GrantTTLTracker",
          "tensor_store::TensorStore::{snapshot_bytes,scan}"]);
    for (o, f) in OBLIGATIONS { rep.declare(o, f); }
    let pre = vec![Op::Set { by: ROOT, s: 0, v: 1 }];

    // F1
    let c1 = Cfg { chain: 2, policy: 0, names: 1, nsec: 2 };
    dfs(&mut rep, &c1, &pre, &mut vec![], &core, 2, f1_max, true);
    if thorough { dfs(&mut rep, &c1, &pre, &mut vec![], &wide, 2, 3, true); }
    rep.sample(case_json(&c1, &[pre[0].clone(), Op::Grant { by: ROOT, to: TEAM, s: 0, lvl: 3, ttl: None }, Op::Rotate { by: ALICE, s: 0, v: 3 }], 2));
    // F2
    for chain in 0..3 { for policy in 0..3 {
        if chain == 2 && policy == 0 { continue; }
        let c = Cfg { chain, policy, names: 1, nsec: 2 };
        if thorough { dfs(&mut rep, &c, &pre, &mut vec![], &core, 2, 2, true); dfs(&mut rep, &c, &pre, &mut vec![], &pola, 2, 3, true); }
        else { dfs(&mut rep, &c, &pre, &mut vec![], &pola, 2, 2, true); }
    } }
    // F3
    for nmc in 0..3u8 { for vc in [0u8, 1, 3] {
        let w = if vc == 1 { 2 } else { 1 };
        let script = vec![
            Op::Set { by: ROOT, s: 0, v: vc }, Op::Set { by: ROOT, s: 1, v: w }, Op::Get { by: ALICE, s: 0 },
            Op::Grant { by: ROOT, to: ALICE, s: 0, lvl: 2, ttl: None }, Op::Get { by: ALICE, s: 0 }, Op::Rotate { by: ALICE, s: 0, v: w },
            Op::Set { by: ALICE, s: 1, v: vc }, Op::Rotate { by: BOB, s: 0, v: 3 }, Op::List { by: ALICE, pat: 0 }, Op::List { by: BOB, pat: 1 },
            Op::Grant { by: ROOT, to: ORG, s: 1, lvl: 3, ttl: None }, Op::Get { by: ALICE, s: 1 }, Op::Set { by: ALICE, s: 1, v: vc },
            Op::Revoke { by: ROOT, from: ALICE, s: 0 }, Op::Get { by: ALICE, s: 0 }, Op::Delete { by: ROOT, s: 1 }, Op::Get { by: ALICE, s: 1 },
        ];
        node(&mut rep, &Cfg { chain: 2, policy: 0, names: nmc, nsec: 2 }, &script, 0);
    } }
    for v in [4u8, 5] {
        node(&mut rep, &c1, &[pre[0].clone(), Op::Grant { by: ROOT, to: ALICE, s: 0, lvl: 2, ttl: None }, Op::Rotate { by: ALICE, s: 0, v }, Op::Set { by: ALICE, s: 0, v }, Op::Set { by: ROOT, s: 1, v }], 0);
    }
    // F4
    for to in [ALICE, TEAM, ORG] { for lvl in 1..=3 { for ttl in [0u64, 3600] {
        let g = Op::Grant { by: ROOT, to, s: 0, lvl, ttl: Some(ttl) };
        node(&mut rep, &c1, &[pre[0].clone(), g.clone()], 1);
        for op in &core { node(&mut rep, &c1, &[pre[0].clone(), g.clone(), op.clone()], 2); }
    } } }
    // F4b: a permanent grant and an expired TTL grant on the same (entity, secret)
    for to in [ALICE, TEAM] {
        let p3 = [pre[0].clone(), Op::Grant { by: ROOT, to, s: 0, lvl: 2, ttl: None }, Op::Grant { by: ROOT, to, s: 0, lvl: 1, ttl: Some(0) }];
        node(&mut rep, &c1, &p3, 2);
        for op in &core { let mut o = p3.to_vec(); o.push(op.clone()); node(&mut rep, &c1, &o, 3); }
    }
    rep.sample(case_json(&c1, &[pre[0].clone(), Op::Grant { by: ROOT, to: ALICE, s: 0, lvl: 2, ttl: Some(0) }, Op::Rotate { by: ALICE, s: 0, v: 3 }], 2));
    // F5 / F6 (blind sequences)
    family_group_ttl(&mut rep);
    family_revoke_all(&mut rep);
    // F7 / F8 (blind); they run last so that the cases recorded for the older obligations keep their order
    family_ttl_stack(&mut rep);
    family_delegate_list(&mut rep);
    rep.sample(case_json(&c1, &[pre[0].clone(), Op::Grant { by: ROOT, to: TEAM, s: 0, lvl: 3, ttl: Some(0) }, Op::Rotate { by: ALICE, s: 0, v: 3 }], 2));
    // F9: many time-limited grants expiring together -- every vault is built first, ONE shared sleep, then the probes
    {
        let cases = many::all_cases();
        // ttl > 0: every vault is built first, then ONE sleep; ttl 0 ms: the deadline is the grant instant, these vaults are built and
        // probed one after the other (after the sleep as well)
        let (timed, instant): (Vec<many::Case>, Vec<many::Case>) = cases.iter().partition(|c| c.ttl_ms > 0);
        let built: Vec<Sys> = timed.iter().map(many::setup).collect();
        std::thread::sleep(many::WAIT);
        let book = |rep: &mut Report, c: &many::Case, sys: &Sys| {
            let res = many::probe(c, sys);
            let last = res.len() - 1;
            for (j, (ok, detail)) in res.iter().enumerate() {
                rep.eval(true);
                rep.check(many::OB, *ok, &|| c.json(&if j == last { json!("view") } else { json!(j) }), &|| detail.clone());
            }
        };
        for (c, sys) in timed.iter().zip(&built) { book(&mut rep, c, sys); }
        drop(built);
        for c in &instant { let sys = many::setup(c); book(&mut rep, c, &sys); }
        rep.sample(many::Case { n: 17, ttl_ms: 1, call: 0, start: 16 }.json(&json!(0)));
    }
    // F10: list (every pattern form) vs get / get_permission around the attenuation horizon
    for c in dist::all_cases() {
        let r = dist::eval(&c);
        rep.eval(true);
        rep.check(dist::OB, r.is_ok(), &|| c.json(), &|| r.clone().err().unwrap_or_default());
    }
    rep.sample(dist::Case { policy: 0, chain: 10, lvl: 3, pat: 0, names: 1 }.json());

    if thorough {
        let mut rng = Rng(seed ^ 0xC14);
        for _ in 0..6000 {
            let cfg = Cfg { chain: rng.below(3) as u8, policy: rng.below(3) as u8, names: rng.below(3) as u8, nsec: 2 };
            let mut ops = pre.clone();
            for _ in 0..6 { ops.push(wide[rng.below(wide.len() as u64) as usize].clone()); }
            node(&mut rep, &cfg, &ops, 1);
        }
    }
    rep
}

pub fn replay(ob: &str, case: &Value) -> Result<String, String> {
    if case["family"] == "many_expired" {
        if ob != many::OB { return Err(format!("this case belongs to {}", many::OB)); }
        let c = many::Case::parse(case)?;
        let sys = many::setup(&c);
        std::thread::sleep(many::WAIT);
        let res = many::probe(&c, &sys);
        // `at`: a probe index, "view" (the view after all probes) or absent (everything)
        let pick: Vec<&(bool, String)> = match &case["at"] {
            Value::Number(j) => res.iter().take(res.len() - 1).skip(j.as_u64().unwrap_or(0) as usize).take(1).collect(),
            Value::String(_) => res.last().into_iter().collect(),
            _ => res.iter().collect(),
        };
        if pick.is_empty() { return Err("`at` is not a probe of this case".into()); }
        return match pick.iter().find(|(ok, _)| !ok) { Some((_, d)) => Err(d.clone()), None => Ok(pick.last().map(|x| x.1.clone()).unwrap_or_default()) };
    }
    if case["family"] == "list_distance" {
        if ob != dist::OB { return Err(format!("this case belongs to {}", dist::OB)); }
        return dist::eval(&dist::Case::parse(case)?);
    }
    let cfg = Cfg::from_json(&case["cfg"]);
    let ops: Vec<Op> = case["ops"].as_array().ok_or("case.ops missing")?.iter().map(Op::from_json).collect::<Result<_, _>>()?;
    if ops.is_empty() { return Err("empty op sequence".into()); }
    let at = case["at"].as_u64().map_or(ops.len() - 1, |x| x as usize).min(ops.len() - 1);
    let mut fails = vec![];
    let mut seen = 0;
    if BLIND.contains(&ob) || case["runner"] == RUNNER_STACK {
        let runner = if case["runner"] == RUNNER_STACK { O_STACK } else { ob };
        let r = run_blind(&cfg, &ops[..=at], runner, &mut |oid, ok, _, detail| { if oid == ob { seen += 1; if !ok { fails.push(detail()); } } });
        return if !fails.is_empty() { Err(fails.join(" || ")) }
        else if seen == 0 { let _ = r; Ok(format!("obligation {ob} does not apply: a prefix op of this sequence diverged from the specification (it is its own case)")) }
        else { Ok(format!("op #{at} {} satisfies {ob} (blind sequence, view compared after the op)", ops[at].to_json())) };
    }
    run_seq(&cfg, &ops[..=at], at, &mut |oid, ok, _, detail| {
        if oid == ob { seen += 1; if !ok { fails.push(detail()); } }
    });
    if !fails.is_empty() { Err(fails.join(" || ")) }
    else if seen == 0 { Ok(format!("obligation {ob} does not apply to op #{at} of this sequence (precondition false or a prefix op diverged)")) }
    else { Ok(format!("op #{at} {} satisfies {ob} ({seen} check(s))", ops[at].to_json())) }
}
