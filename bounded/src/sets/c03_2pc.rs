//! C03 (bounded): two-phase commit -- one decision per transaction, all-or-nothing across shards.
//!
//! Coordinator part.  The real `DistributedTxCoordinator` is driven from `begin` through EVERY
//! sequence of length <= L over {vote(tx, shard, Yes|No|Conflict) (a repeated vote is the duplicate /
//! late vote), commit(tx), abort(tx), cleanup_timeouts()} for 1-2 transactions over 2-3 shards.  The
//! LAST call of every sequence is the contract-checked call (all shorter prefixes are sequences of the
//! domain themselves); a ghost model keeps `decision[tx]`, `votes[tx][shard]` and the set of held locks
//! and the whole observable view (get(tx) for every tx, pending_count, lock holder of every key,
//! active_lock_count, the drained abort queue) is compared after the call, which includes the frame.
//!
//! Time: the coordinator is configured with `prepare_timeout_ms = 0`.  `is_timed_out` is the strict
//! test `now - started_at > timeout`, so a transaction is expired from the first millisecond tick after
//! `begin`.  Coordinators are built in batches and, before a sequence is executed, the harness spins
//! (no sleep) until the repository's own predicate `get(tx).is_timed_out()` holds for the transactions
//! of that coordinator (at most one clock tick per batch).  From then on every pending transaction is
//! "already expired", so the position of `cleanup_timeouts` in the sequence is the only time variable.
//!
//! Yes votes are real: the first Yes of (tx, shard) is produced by `handle_prepare` (it takes the key
//! lock in the coordinator's lock manager and returns the lock handle); a repeated Yes of the same
//! (tx, shard) re-delivers the identical message.  In the `overlap` variant both transactions write
//! the same key on shard 0, so the second `handle_prepare` really answers Conflict.
//!
//! `Committing` is not observable between calls on a coordinator that never crashed (commit() runs
//! through it), so C03.abort.once additionally uses pre-states built with the public `recover()`
//! (Prepared + all yes + not yet expired => Committing; retried if the clock ticked in between) and
//! then, after expiry, every sequence of length <= 3/4 over the alphabet above plus
//! complete_commit / complete_abort.
//!
//! Participant part (C03.part.apply_iff_commit): a real `TxParticipant` over an in-memory store
//! {k0 = v0}; two transactions, each with one of 5 operation lists (Put existing, Put new, Delete,
//! Put+Delete, CompareAndSwap); every sequence of length <= 5/6 over {prepare, commit, abort} x 2 tx;
//! after every call the whole store (all keys, whole `TensorData`), the prepared set and the locks are
//! compared with the model (only a commit of a prepared tx changes the store, by exactly its writes).
use crate::fw::{Report, Tier};
use serde_json::{json, Value};
use std::collections::{BTreeMap, BTreeSet};
use tensor_chain::{
    ConsensusConfig, ConsensusManager, DistributedTxConfig, DistributedTxCoordinator, PrepareRequest, PrepareVote,
    Transaction, TxParticipant, TxPhase,
};
use tensor_store::{ScalarValue, SparseVector, TensorData, TensorStore, TensorValue};

const O_VOTE: &str = "C03.vote.record";
const O_COMMIT: &str = "C03.commit.guard";
const O_ONCE: &str = "C03.abort.once";
const O_TIMEOUT: &str = "C03.timeout.broadcast";
const O_PART: &str = "C03.part.apply_iff_commit";

type Checks = Vec<(&'static str, bool, String)>;

// ------------------------------------------------------------------------------------------------
// coordinator domain
// ------------------------------------------------------------------------------------------------

#[derive(Clone, Copy, PartialEq, Eq, Debug, PartialOrd, Ord)]
enum V { Yes, No, Conflict }

#[derive(Clone, Copy, PartialEq, Eq, Debug)]
enum Act { Vote(usize, usize, V), Commit(usize), Abort(usize), Sweep, Complete(usize), CompleteAbort(usize) }

impl Act {
    fn enc(&self) -> String {
        match self {
            Act::Vote(i, s, v) => format!("v{i}.{s}.{}", match v { V::Yes => "Y", V::No => "N", V::Conflict => "C" }),
            Act::Commit(i) => format!("c{i}"),
            Act::Abort(i) => format!("a{i}"),
            Act::Sweep => "t".to_string(),
            Act::Complete(i) => format!("cc{i}"),
            Act::CompleteAbort(i) => format!("ca{i}"),
        }
    }
    fn dec(s: &str) -> Option<Act> {
        if s == "t" { return Some(Act::Sweep); }
        if let Some(r) = s.strip_prefix("cc") { return r.parse().ok().map(Act::Complete); }
        if let Some(r) = s.strip_prefix("ca") { return r.parse().ok().map(Act::CompleteAbort); }
        if let Some(r) = s.strip_prefix('c') { return r.parse().ok().map(Act::Commit); }
        if let Some(r) = s.strip_prefix('a') { return r.parse().ok().map(Act::Abort); }
        if let Some(r) = s.strip_prefix('v') {
            let p: Vec<&str> = r.split('.').collect();
            if p.len() != 3 { return None; }
            let v = match p[2] { "Y" => V::Yes, "N" => V::No, "C" => V::Conflict, _ => return None };
            return Some(Act::Vote(p[0].parse().ok()?, p[1].parse().ok()?, v));
        }
        None
    }
}

#[derive(Clone, Copy, Debug)]
struct Cfg { ntx: usize, nsh: usize, overlap: bool, committing: bool }

impl Cfg {
    fn key(&self, i: usize, s: usize) -> String {
        if self.overlap && s == 0 { "shared_s0".to_string() } else { format!("t{i}s{s}") }
    }
    fn universe(&self) -> BTreeSet<String> {
        let mut u = BTreeSet::new();
        for i in 0..self.ntx { for s in 0..self.nsh { u.insert(self.key(i, s)); } }
        u
    }
    fn alphabet(&self) -> Vec<Act> {
        let mut a = vec![];
        for i in 0..self.ntx {
            for s in 0..self.nsh { for v in [V::Yes, V::No, V::Conflict] { a.push(Act::Vote(i, s, v)); } }
            a.push(Act::Commit(i));
            a.push(Act::Abort(i));
            if self.committing { a.push(Act::Complete(i)); a.push(Act::CompleteAbort(i)); }
        }
        a.push(Act::Sweep);
        a
    }
    fn json(&self, seq: &[Act]) -> Value {
        json!({"dom": "coord", "ntx": self.ntx, "nsh": self.nsh, "overlap": self.overlap,
               "pre": if self.committing { "committing" } else { "begin" },
               "seq": seq.iter().map(Act::enc).collect::<Vec<_>>()})
    }
}

#[derive(Clone, Copy, PartialEq, Eq, Debug)]
enum GP { Preparing, Prepared, Committing, Aborting, Gone }

#[derive(Clone, Debug)]
struct GTx { phase: GP, votes: BTreeMap<usize, V>, /** Some(true) = Commit, Some(false) = Abort */ decision: Option<bool> }

#[derive(Clone, Debug)]
struct Ghost { txs: Vec<GTx>, /** key -> index of the holding tx */ locks: BTreeMap<String, usize> }

#[derive(PartialEq, Debug, Clone)]
struct TxView { phase: TxPhase, votes: BTreeMap<usize, V>, participants: Vec<usize> }

#[derive(PartialEq, Debug, Clone)]
struct View { txs: Vec<Option<TxView>>, pending: usize, locks: BTreeMap<String, Option<u64>>, lock_count: usize }

struct Built { coord: DistributedTxCoordinator, ids: Vec<u64>, ghost: Ghost, cache: BTreeMap<(usize, usize), PrepareVote> }

fn kind(v: &PrepareVote) -> V {
    match v {
        PrepareVote::Yes { .. } => V::Yes,
        PrepareVote::No { .. } => V::No,
        _ => V::Conflict,
    }
}

fn new_coord() -> DistributedTxCoordinator {
    let cfg = DistributedTxConfig { prepare_timeout_ms: 0, ..DistributedTxConfig::default() };
    DistributedTxCoordinator::new(ConsensusManager::new(ConsensusConfig::default()), cfg)
}

fn participants(cfg: &Cfg) -> Vec<usize> { (0..cfg.nsh).collect() }

/// The Yes message of (tx i, shard s): first delivery runs the real `handle_prepare`, later ones repeat it.
fn yes_vote(b: &mut Built, cfg: &Cfg, i: usize, s: usize) -> PrepareVote {
    if let Some(v) = b.cache.get(&(i, s)) { return v.clone(); }
    let mut emb = vec![0.0f32; cfg.ntx * cfg.nsh];
    emb[i * cfg.nsh + s] = 1.0;
    let req = PrepareRequest {
        tx_id: b.ids[i], coordinator: "coord".to_string(),
        operations: vec![Transaction::Put { key: cfg.key(i, s), data: vec![i as u8, s as u8] }],
        delta_embedding: SparseVector::from_dense(&emb), timeout_ms: 0,
    };
    let v = b.coord.handle_prepare(&req);
    if matches!(v, PrepareVote::Yes { .. }) {
        b.ghost.locks.insert(cfg.key(i, s), i);
        b.cache.insert((i, s), v.clone());
    }
    v
}

fn build(cfg: &Cfg) -> Built {
    for _attempt in 0..10_000 {
        let coord = new_coord();
        let mut b = Built { coord, ids: vec![], ghost: Ghost { txs: vec![], locks: BTreeMap::new() }, cache: BTreeMap::new() };
        let n_first = if cfg.committing { 1 } else { cfg.ntx };
        for _ in 0..n_first {
            let tx = b.coord.begin(&"coord".to_string(), &participants(cfg)).expect("begin");
            assert!(tx.phase == TxPhase::Preparing && tx.votes.is_empty() && tx.participants == participants(cfg));
            b.ids.push(tx.tx_id);
            b.ghost.txs.push(GTx { phase: GP::Preparing, votes: BTreeMap::new(), decision: None });
        }
        if cfg.committing {
            // placeholder ids so that yes_vote can index
            let mut last = None;
            for s in 0..cfg.nsh {
                let v = yes_vote(&mut b, cfg, 0, s);
                assert!(matches!(v, PrepareVote::Yes { .. }), "harness: prepare of a free key must vote yes");
                last = Some(b.coord.record_vote(b.ids[0], s, v));
                b.ghost.txs[0].votes.insert(s, V::Yes);
            }
            assert!(last == Some(Ok(Some(TxPhase::Prepared))), "harness: all-yes must reach Prepared, got {last:?}");
            // public recover(): Prepared + all yes + not yet expired => Committing (the commit decision is taken)
            let _ = b.coord.recover();
            match b.coord.get(b.ids[0]).map(|t| t.phase) {
                Some(TxPhase::Committing) => {},
                _ => continue, // the millisecond clock ticked between begin and recover: build again
            }
            b.ghost.txs[0].phase = GP::Committing;
            b.ghost.txs[0].decision = Some(true);
            for _ in 1..cfg.ntx {
                let tx = b.coord.begin(&"coord".to_string(), &participants(cfg)).expect("begin");
                b.ids.push(tx.tx_id);
                b.ghost.txs.push(GTx { phase: GP::Preparing, votes: BTreeMap::new(), decision: None });
            }
        }
        let _ = b.coord.take_pending_aborts();
        return b;
    }
    panic!("harness: could not establish the Committing pre-state");
}

/// Spin (no sleep) until the repository's own expiry predicate holds for every pending transaction.
fn wait_expired(b: &Built) {
    for id in &b.ids {
        while let Some(tx) = b.coord.get(*id) {
            if tx.is_timed_out() { break; }
            std::hint::spin_loop();
        }
    }
}

fn observe(b: &Built, cfg: &Cfg) -> View {
    let lm = b.coord.lock_manager();
    let mut locks = BTreeMap::new();
    for k in cfg.universe() {
        let h = lm.lock_holder(&k);
        assert!(h.is_some() == lm.is_locked(&k));
        locks.insert(k, h);
    }
    View {
        txs: b.ids.iter().map(|id| b.coord.get(*id).map(|t| TxView {
            phase: t.phase, votes: t.votes.iter().map(|(s, v)| (*s, kind(v))).collect(), participants: t.participants.clone() })).collect(),
        pending: b.coord.pending_count(),
        locks,
        lock_count: lm.active_lock_count(),
    }
}

fn expect_view(g: &Ghost, ids: &[u64], cfg: &Cfg) -> View {
    let mut locks = BTreeMap::new();
    for k in cfg.universe() { locks.insert(k.clone(), g.locks.get(&k).map(|i| ids[*i])); }
    View {
        txs: g.txs.iter().map(|t| {
            let phase = match t.phase {
                GP::Preparing => TxPhase::Preparing, GP::Prepared => TxPhase::Prepared, GP::Committing => TxPhase::Committing,
                GP::Aborting => TxPhase::Aborting, GP::Gone => return None,
            };
            Some(TxView { phase, votes: t.votes.clone(), participants: participants(cfg) })
        }).collect(),
        pending: g.txs.iter().filter(|t| t.phase != GP::Gone).count(),
        locks,
        lock_count: g.locks.len(),
    }
}

/// expected return value of the call
#[derive(Debug, PartialEq, Clone)]
enum Ret { Vote(Result<Option<TxPhase>, ()>), Unit(bool), Swept(BTreeSet<usize>) }

/// release the locks that tx i holds through its *recorded* yes votes
fn release(g: &mut Ghost, cfg: &Cfg, i: usize) {
    let yes: Vec<usize> = g.txs[i].votes.iter().filter(|(_, v)| **v == V::Yes).map(|(s, _)| *s).collect();
    for s in yes {
        let k = cfg.key(i, s);
        if g.locks.get(&k) == Some(&i) { g.locks.remove(&k); }
    }
}

/// The contract as a transition on the ghost state.  Returns (expected return, tx indices that must be
/// queued for abort broadcast by this call, each exactly once).
fn model(g: &mut Ghost, cfg: &Cfg, act: Act, delivered: Option<V>) -> (Ret, Vec<usize>) {
    match act {
        Act::Vote(i, s, _) => {
            let v = delivered.expect("vote kind");
            let t = &mut g.txs[i];
            // unknown (gone) tx, wrong phase, duplicate shard: rejected, nothing changes
            if t.phase != GP::Preparing || t.votes.contains_key(&s) { return (Ret::Vote(Err(())), vec![]); }
            t.votes.insert(s, v);
            if t.votes.len() < cfg.nsh { return (Ret::Vote(Ok(None)), vec![]); }
            if t.votes.values().all(|v| *v == V::Yes) {
                // keys of different shards are disjoint and the delta embeddings orthogonal in this domain
                t.phase = GP::Prepared;
                (Ret::Vote(Ok(Some(TxPhase::Prepared))), vec![])
            } else {
                t.phase = GP::Aborting;
                t.decision = Some(false);
                (Ret::Vote(Ok(Some(TxPhase::Aborting))), vec![i])
            }
        },
        Act::Commit(i) => {
            if g.txs[i].phase != GP::Prepared || g.txs[i].decision.is_some() { return (Ret::Unit(false), vec![]); }
            g.txs[i].decision = Some(true);
            release(g, cfg, i);
            g.txs[i].phase = GP::Gone;
            (Ret::Unit(true), vec![])
        },
        Act::Abort(i) => {
            // a taken commit decision is final; an unknown tx cannot be aborted
            if g.txs[i].phase == GP::Gone || g.txs[i].phase == GP::Committing || g.txs[i].decision == Some(true) {
                return (Ret::Unit(false), vec![]);
            }
            g.txs[i].decision = Some(false);
            release(g, cfg, i);
            g.txs[i].phase = GP::Gone;
            (Ret::Unit(true), vec![])
        },
        Act::Sweep => {
            // every pending tx is expired; the ones that decided commit must be completed, not timed out
            let swept: Vec<usize> = (0..g.txs.len())
                .filter(|i| !matches!(g.txs[*i].phase, GP::Gone | GP::Committing) && g.txs[*i].decision != Some(true)).collect();
            for i in &swept {
                g.txs[*i].decision = Some(false);
                release(g, cfg, *i);
                g.txs[*i].phase = GP::Gone;
            }
            (Ret::Swept(swept.iter().copied().collect()), swept)
        },
        Act::Complete(i) => {
            if g.txs[i].phase != GP::Committing { return (Ret::Unit(false), vec![]); }
            release(g, cfg, i);
            g.txs[i].phase = GP::Gone;
            (Ret::Unit(true), vec![])
        },
        Act::CompleteAbort(i) => {
            if g.txs[i].phase != GP::Aborting { return (Ret::Unit(false), vec![]); }
            release(g, cfg, i);
            g.txs[i].phase = GP::Gone;
            (Ret::Unit(true), vec![])
        },
    }
}

/// Execute one call on the real coordinator and advance the ghost; with `check`, evaluate the contract.
fn step(b: &mut Built, cfg: &Cfg, act: Act, check: bool) -> (Checks, bool) {
    // materialise the vote message first (a Yes takes the key lock through handle_prepare)
    let msg = match act {
        Act::Vote(i, s, V::Yes) => Some(yes_vote(b, cfg, i, s)),
        Act::Vote(_, _, V::No) => Some(PrepareVote::No { reason: "no".to_string() }),
        Act::Vote(_, _, V::Conflict) => Some(PrepareVote::Conflict { similarity: 1.0, conflicting_tx: 999 }),
        _ => None,
    };
    let delivered = msg.as_ref().map(kind);
    let pre_ghost = b.ghost.clone();
    let pre_view = if check { Some(observe(b, cfg)) } else { None };
    let mut post_ghost = b.ghost.clone();
    let (exp_ret, exp_queue) = model(&mut post_ghost, cfg, act, delivered);

    let real_ret = match act {
        Act::Vote(i, s, _) => Ret::Vote(b.coord.record_vote(b.ids[i], s, msg.clone().expect("msg")).map_err(|_| ())),
        Act::Commit(i) => Ret::Unit(b.coord.commit(b.ids[i]).is_ok()),
        Act::Abort(i) => Ret::Unit(b.coord.abort(b.ids[i], "requested").is_ok()),
        Act::Complete(i) => Ret::Unit(b.coord.complete_commit(b.ids[i]).is_ok()),
        Act::CompleteAbort(i) => Ret::Unit(b.coord.complete_abort(b.ids[i]).is_ok()),
        Act::Sweep => {
            let r = b.coord.cleanup_timeouts();
            let set: BTreeSet<usize> = r.iter().filter_map(|id| b.ids.iter().position(|x| x == id)).collect();
            if set.len() != r.len() { Ret::Unit(false) /* duplicate or foreign id */ } else { Ret::Swept(set) }
        },
    };
    let queue = b.coord.take_pending_aborts();
    b.ghost = post_ghost;
    if !check { return (vec![], false); }

    let post_view = observe(b, cfg);
    let exp_view = expect_view(&b.ghost, &b.ids, cfg);
    let pre_ok = pre_view.as_ref() == Some(&expect_view(&pre_ghost, &b.ids, cfg));
    let ret_ok = real_ret == exp_ret;
    let view_ok = post_view == exp_view;
    // abort queue: (tx index, participants) of every entry produced by this call
    let q: Vec<(Option<usize>, Vec<usize>)> = queue.iter().map(|(id, _, sh)| (b.ids.iter().position(|x| x == id), sh.clone())).collect();
    let mut q_ids: Vec<Option<usize>> = q.iter().map(|e| e.0).collect();
    q_ids.sort();
    let mut want: Vec<Option<usize>> = exp_queue.iter().map(|i| Some(*i)).collect();
    want.sort();
    let parts_ok = q.iter().all(|(_, sh)| *sh == participants(cfg));
    let queue_ok = match act {
        // abort(): the contract only demands that no *other* transaction is queued
        Act::Abort(i) => q_ids.iter().all(|e| *e == Some(i)) && parts_ok,
        _ => q_ids == want && parts_ok,
    };
    let detail = format!(
        "call {} on ghost {:?}: returned {:?}, contract {:?}; view after {:?}, contract {:?}; abort queue {:?}, contract {:?}{}",
        act.enc(), pre_ghost.txs, real_ret, exp_ret, post_view, exp_view, q, exp_queue,
        if pre_ok { "" } else { " [pre-state already differed from the ghost]" });
    let all_ok = pre_ok && ret_ok && view_ok && queue_ok;
    let decided_commit = |i: usize| pre_ghost.txs[i].decision == Some(true);
    let mut out: Checks = vec![];
    let nontrivial;
    match act {
        Act::Vote(..) => { nontrivial = exp_ret != Ret::Vote(Err(())); out.push((O_VOTE, all_ok, detail)); },
        Act::Commit(_) | Act::Complete(_) => { nontrivial = exp_ret == Ret::Unit(true); out.push((O_COMMIT, all_ok, detail)); },
        Act::Abort(i) | Act::CompleteAbort(i) => { nontrivial = exp_ret == Ret::Unit(true) || decided_commit(i); out.push((O_ONCE, all_ok, detail)); },
        Act::Sweep => {
            nontrivial = !exp_queue.is_empty();
            out.push((O_TIMEOUT, all_ok, detail.clone()));
            // the part of the sweep that concerns transactions whose decision is Commit
            let committed: Vec<usize> = (0..pre_ghost.txs.len()).filter(|i| decided_commit(*i)).collect();
            if !committed.is_empty() {
                let listed = match &real_ret { Ret::Swept(s) => committed.iter().any(|i| s.contains(i)), _ => true };
                let queued = committed.iter().any(|i| q_ids.contains(&Some(*i)));
                let kept = committed.iter().all(|i| post_view.txs[*i] == pre_view.as_ref().expect("pre").txs[*i]);
                out.push((O_ONCE, !listed && !queued && kept, detail));
            }
        },
    }
    (out, nontrivial)
}

fn exec_coord(mut b: Built, cfg: &Cfg, seq: &[Act]) -> (Checks, bool) {
    wait_expired(&b);
    let mut res = (vec![], false);
    for (n, a) in seq.iter().enumerate() { res = step(&mut b, cfg, *a, n + 1 == seq.len()); }
    res
}

fn nth_seq(alpha: &[Act], len: usize, mut idx: u64) -> Vec<Act> {
    let a = alpha.len() as u64;
    let mut v = vec![alpha[0]; len];
    for p in (0..len).rev() { v[p] = alpha[(idx % a) as usize]; idx /= a; }
    v
}

fn run_coord(rep: &mut Report, cfg: &Cfg, maxlen: usize) -> u64 {
    let alpha = cfg.alphabet();
    let mut total = 0u64;
    const BATCH: u64 = 1024;
    for len in 1..=maxlen {
        let n = (alpha.len() as u64).pow(len as u32);
        let mut start = 0u64;
        while start < n {
            let end = (start + BATCH).min(n);
            let built: Vec<Built> = (start..end).map(|_| build(cfg)).collect();
            for (k, b) in built.into_iter().enumerate() {
                let seq = nth_seq(&alpha, len, start + k as u64);
                let (checks, nontrivial) = exec_coord(b, cfg, &seq);
                rep.eval(nontrivial);
                total += 1;
                for (ob, ok, detail) in checks { rep.check(ob, ok, &|| cfg.json(&seq), &|| detail.clone()); }
            }
            start = end;
        }
    }
    total
}

// ------------------------------------------------------------------------------------------------
// participant domain
// ------------------------------------------------------------------------------------------------

const V0: &[u8] = b"v0";
const NMENU: usize = 5;

fn menu(m: usize, i: usize) -> Vec<Transaction> {
    let tag = |c: u8| vec![c, b'0' + i as u8];
    match m {
        0 => vec![Transaction::Put { key: "k0".into(), data: tag(b'x') }],
        1 => vec![Transaction::Put { key: "k1".into(), data: tag(b'y') }],
        2 => vec![Transaction::Delete { key: "k0".into() }],
        3 => vec![Transaction::Put { key: "k1".into(), data: tag(b'z') }, Transaction::Delete { key: "k0".into() }],
        _ => vec![Transaction::CompareAndSwap { key: "k0".into(), expected_data: V0.to_vec(), new_data: tag(b'w') }],
    }
}

fn bytes_data(b: &[u8]) -> TensorData {
    let mut t = TensorData::new();
    t.set("data", TensorValue::Scalar(ScalarValue::Bytes(b.to_vec())));
    t
}

#[derive(Clone, Copy, PartialEq, Eq, Debug)]
enum PAct { Prepare(usize), Commit(usize), Abort(usize) }

impl PAct {
    fn enc(&self) -> String { match self { PAct::Prepare(i) => format!("p{i}"), PAct::Commit(i) => format!("c{i}"), PAct::Abort(i) => format!("a{i}") } }
    fn dec(s: &str) -> Option<PAct> {
        let i: usize = s.get(1..)?.parse().ok()?;
        match s.as_bytes().first()? { b'p' => Some(PAct::Prepare(i)), b'c' => Some(PAct::Commit(i)), b'a' => Some(PAct::Abort(i)), _ => None }
    }
}

#[derive(Clone, Debug, PartialEq)]
struct PGhost { store: BTreeMap<String, TensorData>, prepared: BTreeMap<usize, Vec<Transaction>>, locks: BTreeMap<String, usize> }

#[derive(Debug, PartialEq)]
struct PView { store: BTreeMap<String, TensorData>, prepared: BTreeSet<u64>, locked: BTreeMap<String, bool>, lock_count: usize }

const PIDS: [u64; 2] = [101, 102];

fn p_observe(p: &TxParticipant) -> PView {
    let st = p.store();
    let mut store = BTreeMap::new();
    for k in st.scan("") { if let Ok(d) = st.get(&k) { store.insert(k, d); } }
    PView {
        store,
        prepared: p.get_awaiting_decision().into_iter().collect(),
        locked: ["k0", "k1"].iter().map(|k| (k.to_string(), p.locks.is_locked(k))).collect(),
        lock_count: p.locks.active_lock_count(),
    }
}

fn p_expect(g: &PGhost) -> PView {
    PView {
        store: g.store.clone(),
        prepared: g.prepared.keys().map(|i| PIDS[*i]).collect(),
        locked: ["k0", "k1"].iter().map(|k| (k.to_string(), g.locks.contains_key(*k))).collect(),
        lock_count: g.locks.len(),
    }
}

/// the writes of a commit, in order, on the model store
fn apply_model(store: &mut BTreeMap<String, TensorData>, ops: &[Transaction]) {
    for op in ops {
        match op {
            Transaction::Put { key, data } => { store.insert(key.clone(), bytes_data(data)); },
            Transaction::Delete { key } => { store.remove(key); },
            Transaction::CompareAndSwap { key, expected_data, new_data } => {
                let cur: Vec<u8> = match store.get(key).and_then(|d| d.get("data")) {
                    Some(TensorValue::Scalar(ScalarValue::Bytes(b))) => b.clone(),
                    _ => vec![],
                };
                if cur == *expected_data { store.insert(key.clone(), bytes_data(new_data)); }
            },
            _ => unreachable!("not in the menu"),
        }
    }
}

/// `store` is reused between cases (creating a `TensorStore` costs about a millisecond): it is emptied
/// and re-seeded here, and a fresh participant (prepared map, lock manager) is put on top of it.
fn exec_part(store: &TensorStore, menus: [usize; 2], seq: &[PAct]) -> (Checks, bool) {
    for k in store.scan("") { store.delete(&k).expect("reset store"); }
    let p = TxParticipant::new(store.clone());
    p.store().put("k0", bytes_data(V0)).expect("seed store");
    let mut g = PGhost { store: BTreeMap::new(), prepared: BTreeMap::new(), locks: BTreeMap::new() };
    g.store.insert("k0".to_string(), bytes_data(V0));
    let mut out: Checks = vec![];
    let mut nontrivial = false;
    for (n, act) in seq.iter().enumerate() {
        let last = n + 1 == seq.len();
        let pre = g.clone();
        let pre_ok = !last || p_observe(&p) == p_expect(&pre);
        // contract + real call
        let (ret_ok, ret_txt, nt) = match *act {
            PAct::Prepare(i) => {
                let ops = menu(menus[i], i);
                let keys: BTreeSet<String> = ops.iter().map(|o| o.affected_key().to_string()).collect();
                let free = keys.iter().all(|k| g.locks.get(k).map_or(true, |h| *h == i));
                if free {
                    for k in &keys { g.locks.insert(k.clone(), i); }
                    g.prepared.insert(i, ops.clone());
                }
                let mut emb = vec![0.0f32; 2];
                emb[i] = 1.0;
                let vote = p.prepare(PrepareRequest { tx_id: PIDS[i], coordinator: "coord".into(), operations: ops,
                                                     delta_embedding: SparseVector::from_dense(&emb), timeout_ms: 5000 });
                let yes = matches!(vote, PrepareVote::Yes { .. });
                (yes == free, format!("vote yes={yes}, contract yes={free}"), free)
            },
            PAct::Commit(i) => {
                let known = g.prepared.contains_key(&i);
                if let Some(ops) = g.prepared.remove(&i) {
                    apply_model(&mut g.store, &ops);
                    g.locks.retain(|_, h| *h != i);
                }
                let r = p.commit(PIDS[i]);
                // commit of a tx that is not prepared must be reported as an error (nothing was applied)
                let ok = r.tx_id == PIDS[i] && r.success == known && (known || r.error.is_some());
                (ok, format!("commit -> success={} error={:?}, contract success={known}", r.success, r.error), known)
            },
            PAct::Abort(i) => {
                let known = g.prepared.contains_key(&i);
                if g.prepared.remove(&i).is_some() { g.locks.retain(|_, h| *h != i); }
                let r = p.abort(PIDS[i]);
                // a known tx must be aborted successfully; for an unknown tx (late / duplicate abort) the
                // property only demands that nothing changes (presumed abort acknowledges it)
                let ok = r.tx_id == PIDS[i] && (!known || r.success);
                (ok, format!("abort -> success={} error={:?} (known={known})", r.success, r.error), known)
            },
        };
        if last {
            let post = p_observe(&p);
            let want = p_expect(&g);
            let ok = pre_ok && ret_ok && post == want;
            nontrivial = nt;
            out.push((O_PART, ok, format!("call {} with prepared {:?}: {ret_txt}; store/prepared/locks after {:?}, contract {:?}{}",
                                          act.enc(), pre.prepared.keys().collect::<Vec<_>>(), post, want,
                                          if pre_ok { "" } else { " [pre-state already differed]" })));
        }
    }
    (out, nontrivial)
}

fn part_json(menus: [usize; 2], seq: &[PAct]) -> Value {
    json!({"dom": "part", "menus": menus, "seq": seq.iter().map(PAct::enc).collect::<Vec<_>>()})
}

fn run_part(rep: &mut Report, maxlen: usize) -> u64 {
    let alpha = [PAct::Prepare(0), PAct::Commit(0), PAct::Abort(0), PAct::Prepare(1), PAct::Commit(1), PAct::Abort(1)];
    let mut total = 0;
    let store = TensorStore::new();
    for m0 in 0..NMENU { for m1 in 0..NMENU {
        for len in 1..=maxlen {
            let n = (alpha.len() as u64).pow(len as u32);
            for idx in 0..n {
                let mut seq = vec![alpha[0]; len];
                let mut x = idx;
                for p in (0..len).rev() { seq[p] = alpha[(x % 6) as usize]; x /= 6; }
                let (checks, nt) = exec_part(&store, [m0, m1], &seq);
                rep.eval(nt);
                total += 1;
                for (ob, ok, detail) in checks { rep.check(ob, ok, &|| part_json([m0, m1], &seq), &|| detail.clone()); }
            }
        }
    } }
    total
}

// ------------------------------------------------------------------------------------------------

fn configs(tier: Tier) -> Vec<(Cfg, usize)> {
    let c = |ntx, nsh, overlap, committing| Cfg { ntx, nsh, overlap, committing };
    if tier == Tier::Thorough {
        vec![(c(1, 2, false, false), 6), (c(1, 3, false, false), 5), (c(2, 2, false, false), 5), (c(2, 2, true, false), 5),
             (c(2, 3, false, false), 4), (c(1, 2, false, true), 4), (c(1, 3, false, true), 4), (c(2, 2, false, true), 4)]
    } else {
        vec![(c(1, 2, false, false), 5), (c(1, 3, false, false), 5), (c(2, 2, false, false), 4), (c(2, 2, true, false), 4),
             (c(1, 2, false, true), 3), (c(1, 3, false, true), 3), (c(2, 2, false, true), 3)]
    }
}

pub fn run(tier: Tier, _seed: u64) -> Report {
    let cfgs = configs(tier);
    let plen = if tier == Tier::Thorough { 6 } else { 5 };
    let dom = format!(
        "coordinator: every call sequence from begin (last call contract-checked) over {{vote(tx,shard,Yes|No|Conflict) incl. duplicate/late votes, commit, abort, cleanup_timeouts (timeout 0, all expired)}} for (tx,shards,maxlen) = {}; Committing pre-states (built with recover()) with the same alphabet + complete_commit/complete_abort for {}; participant: 5x5 operation lists for 2 tx, every sequence of length <= {plen} over {{prepare,commit,abort}}x2 on a store {{k0}}",
        cfgs.iter().filter(|(c, _)| !c.committing).map(|(c, l)| format!("({},{}{},<={l})", c.ntx, c.nsh, if c.overlap { ",shared key" } else { "" })).collect::<Vec<_>>().join(" "),
        cfgs.iter().filter(|(c, _)| c.committing).map(|(c, l)| format!("({},{},<={l})", c.ntx, c.nsh)).collect::<Vec<_>>().join(" "));
    let mut rep = Report::new("c03_2pc", &dom, true,
        &["DistributedTxCoordinator::begin", "handle_prepare", "record_vote", "commit", "abort", "cleanup_timeouts", "take_pending_aborts",
          "complete_commit", "complete_abort", "recover", "TxParticipant::prepare", "TxParticipant::commit", "TxParticipant::abort"]);
    rep.declare(O_VOTE, "DistributedTxCoordinator::record_vote");
    rep.declare(O_COMMIT, "DistributedTxCoordinator::commit");
    rep.declare(O_ONCE, "DistributedTxCoordinator::abort / cleanup_timeouts");
    rep.declare(O_TIMEOUT, "DistributedTxCoordinator::cleanup_timeouts / take_pending_aborts");
    rep.declare(O_PART, "TxParticipant::{prepare,commit,abort}");
    for (cfg, maxlen) in &cfgs { run_coord(&mut rep, cfg, *maxlen); }
    run_part(&mut rep, plen);
    let c = Cfg { ntx: 1, nsh: 2, overlap: false, committing: false };
    rep.sample(c.json(&[Act::Vote(0, 0, V::Yes), Act::Vote(0, 1, V::Yes), Act::Commit(0), Act::Abort(0)]));
    rep.sample(c.json(&[Act::Vote(0, 0, V::Yes), Act::Vote(0, 1, V::No), Act::Sweep]));
    rep.sample(Cfg { committing: true, ..c }.json(&[Act::Sweep, Act::Abort(0), Act::Complete(0)]));
    rep.sample(part_json([0, 3], &[PAct::Prepare(0), PAct::Prepare(1), PAct::Abort(0), PAct::Prepare(1), PAct::Commit(1)]));
    rep
}

pub fn replay(ob: &str, case: &Value) -> Result<String, String> {
    let strs = |v: &Value| -> Vec<String> { v.as_array().map(|a| a.iter().filter_map(|x| x.as_str().map(str::to_string)).collect()).unwrap_or_default() };
    let (checks, _) = if case["dom"] == "part" {
        let m: Vec<usize> = case["menus"].as_array().ok_or("menus")?.iter().map(|x| x.as_u64().unwrap_or(0) as usize).collect();
        let seq: Vec<PAct> = strs(&case["seq"]).iter().map(|s| PAct::dec(s).ok_or(format!("bad action {s}"))).collect::<Result<_, _>>()?;
        if m.len() != 2 || m.iter().any(|x| *x >= NMENU) || seq.is_empty() { return Err("malformed case".into()); }
        exec_part(&TensorStore::new(), [m[0], m[1]], &seq)
    } else {
        let cfg = Cfg { ntx: case["ntx"].as_u64().unwrap_or(1) as usize, nsh: case["nsh"].as_u64().unwrap_or(2) as usize,
                        overlap: case["overlap"].as_bool().unwrap_or(false), committing: case["pre"] == "committing" };
        let seq: Vec<Act> = strs(&case["seq"]).iter().map(|s| Act::dec(s).ok_or(format!("bad action {s}"))).collect::<Result<_, _>>()?;
        if seq.is_empty() { return Err("empty sequence".into()); }
        exec_coord(build(&cfg), &cfg, &seq)
    };
    let mine: Vec<_> = checks.iter().filter(|(o, _, _)| *o == ob).collect();
    if mine.is_empty() { return Ok(format!("the last call of this case does not exercise {ob}")); }
    match mine.iter().find(|(_, ok, _)| !ok) {
        Some((_, _, d)) => Err(d.clone()),
        None => Ok(format!("{ob} holds for the last call")),
    }
}
