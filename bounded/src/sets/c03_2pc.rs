//! C03 (bounded): two-phase commit -- one decision per transaction, all-or-nothing across shards.
//!
//! Coordinator part.  The real `DistributedTxCoordinator` is driven from `begin` through EVERY
//! sequence of length <= L over {vote(tx, shard, Yes|No|Conflict) (a repeated vote is the duplicate /
//! late vote), commit(tx), abort(tx), cleanup_timeouts()} for 1-2 transactions over 2-3 shards.  The
//! LAST call of every sequence is the contract-checked call (all shorter prefixes are sequences of the
//! domain themselves); a ghost model keeps `decision[tx]`, `votes[tx][shard]` and the set of held locks
//! and the whole observable view (get(tx) for every tx, pending_count, lock holder of every key,
//! active_lock_count, the drained abort queue) is compared after the call, which includes the frame.
//!
//! Time: the coordinator is configured with `prepare_timeout_ms = 0`.  `is_timed_out` is the strict
//! test `now - started_at > timeout`, so a transaction is expired from the first millisecond tick after
//! `begin`.  Coordinators are built in batches and, before a sequence is executed, the harness spins
//! (no sleep) until the repository's own predicate `get(tx).is_timed_out()` holds for the transactions
//! of that coordinator (at most one clock tick per batch).  From then on every pending transaction is
//! "already expired", so the position of `cleanup_timeouts` in the sequence is the only time variable.
//!
//! Yes votes are real: the first Yes of (tx, shard) is produced by `handle_prepare` (it takes the key
//! lock in the coordinator's lock manager and returns the lock handle); a repeated Yes of the same
//! (tx, shard) re-delivers the identical message.  In the `overlap` variant both transactions write
//! the same key on shard 0, so the second `handle_prepare` really answers Conflict.
//!
//! `Committing` is not observable between calls on a coordinator that never crashed (commit() runs
//! through it), so C03.abort.once additionally uses pre-states built with the public `recover()`
//! (Prepared + all yes + not yet expired => Committing; retried if the clock ticked in between) and
//! then, after expiry, every sequence of length <= 3/4 over the alphabet above plus
//! complete_commit / complete_abort.
//!
//! `recover()` is also an ACTION of the alphabet ("r"), in the begin configurations and in the Committing pre-state
//! configurations (C03.recover.decision_stable).  Contract, from the property ("the coordinator decides at most once ...
//! and the decision never changes afterwards"): a transaction whose decision is taken (Committing, Aborting; Committed /
//! Aborted transactions are no longer listed) keeps its phase, votes, participants and locks and is not queued for an
//! abort broadcast, whatever the clock says -- in particular a Committing transaction that is past its timeout stays
//! Committing.  An undecided transaction (Preparing / Prepared) that is past its timeout MAY be moved to Aborting (the
//! abort decision; its locks stay until the abort is carried out): every subset of the expired undecided transactions is
//! a permitted outcome and the ghost follows the one the coordinator shows.  (Prepared + all yes + NOT expired =>
//! Committing is the rule used to build the Committing pre-state; with timeout 0 nothing is unexpired inside a sequence.)
//! Nothing else changes: pending_count, every other transaction, every lock holder; only a transaction moved by this very
//! call may appear in the abort queue.
//!
//! Participant part (C03.part.apply_iff_commit): a real `TxParticipant` over an in-memory store
//! {k0 = v0}; two transactions, each with one of 5 operation lists (Put existing, Put new, Delete,
//! Put+Delete, CompareAndSwap); every sequence of length <= 5/6 over {prepare, commit, abort} x 2 tx;
//! after every call the whole store (all keys, whole `TensorData`), the prepared set and the locks are
//! compared with the model (only a commit of a prepared tx changes the store, by exactly its writes).
//!
//! Non-participant votes (`parts`): the transaction is begun over a STRICT subset of the shards (e.g.
//! participants {0,1} of 3 shards) and the alphabet still holds vote(tx, shard, *) for EVERY shard.  Contract
//! (C03.vote.record / C03.commit.guard): Prepared is reached / commit returns Ok only if every PARTICIPANT
//! voted Yes; a vote of a non-participant never counts towards "all voted" and never replaces a
//! participant's vote.  How the stranger's vote itself is treated is left to the implementation; the model
//! offers the three readings {rejected with Err, silently ignored (Ok(None), nothing changes), recorded in
//! `votes` but not counted (Ok(None))} and follows the one the coordinator shows.  A recorded non-Yes vote
//! of a stranger MAY veto (the last participant Yes then yields Aborting instead of Prepared - aborting is
//! always safe); it may never help to reach Prepared.
//!
//! WAL fault injection (C03.decision.durable_consistent, `dom: "wal"`): the coordinator runs on a real
//! `TxWal` with `auto_rotate = false` and a byte budget (`max_size_bytes`).  Script: begin over all shards,
//! `votes` real Yes votes, then commit (votes = all) or abort (any number of votes).  The script is first
//! run with an unlimited budget and the record boundaries of the file are measured; it is then re-run with
//! the budget set to the boundary before the k-th append of the final call, so that this append and every
//! later one fails (k = 0: no fault).  Transaction ids are random, so the re-run is validated (the file must
//! hold exactly the intended records) and repeated otherwise.  After the final call: the decision readable
//! from the WAL (PhaseChange->Committing / TxComplete{Committed} = COMMIT, PhaseChange->Aborting /
//! TxComplete{Aborted} = ABORT; never both) must agree with the live coordinator: a call that returned Ok
//! must have its decision in the WAL; COMMIT => the (expired) tx is neither listed nor queued nor changed by
//! cleanup_timeouts and abort(tx) is Err - also after `truncate_wal()` has given the WAL its budget back;
//! ABORT => commit(tx) is Err (before and after truncate_wal, and after the outstanding Yes votes arrived late).  A second coordinator restarted from a copy
//! of that WAL (`recover_from_wal`, and `TxRecoveryState`) must be in the same class.
use crate::fw::{Report, Tier};
use serde_json::{json, Value};
use std::collections::{BTreeMap, BTreeSet};
use std::path::Path;
use tensor_chain::raft_wal::WalConfig;
use tensor_chain::{
    ConsensusConfig, ConsensusManager, DistributedTxConfig, DistributedTxCoordinator, PrepareRequest, PrepareVote,
    Transaction, TxOutcome, TxParticipant, TxPhase, TxRecoveryState, TxWal, TxWalEntry,
};
use tensor_store::{ScalarValue, SparseVector, TensorData, TensorStore, TensorValue};

const O_VOTE: &str = "C03.vote.record";
const O_COMMIT: &str = "C03.commit.guard";
const O_ONCE: &str = "C03.abort.once";
const O_TIMEOUT: &str = "C03.timeout.broadcast";
const O_PART: &str = "C03.part.apply_iff_commit";
const O_DURABLE: &str = "C03.decision.durable_consistent";
const O_RECOVER: &str = "C03.recover.decision_stable";

type Checks = Vec<(&'static str, bool, String)>;

// ------------------------------------------------------------------------------------------------
// coordinator domain
// ------------------------------------------------------------------------------------------------

#[derive(Clone, Copy, PartialEq, Eq, Debug, PartialOrd, Ord)]
enum V { Yes, No, Conflict }

#[derive(Clone, Copy, PartialEq, Eq, Debug)]
enum Act { Vote(usize, usize, V), Commit(usize), Abort(usize), Sweep, Complete(usize), CompleteAbort(usize), /** the public `recover()` */ Recover }

impl Act {
    fn enc(&self) -> String {
        match self {
            Act::Vote(i, s, v) => format!("v{i}.{s}.{}", match v { V::Yes => "Y", V::No => "N", V::Conflict => "C" }),
            Act::Commit(i) => format!("c{i}"),
            Act::Abort(i) => format!("a{i}"),
            Act::Sweep => "t".to_string(),
            Act::Complete(i) => format!("cc{i}"),
            Act::CompleteAbort(i) => format!("ca{i}"),
            Act::Recover => "r".to_string(),
        }
    }
    fn dec(s: &str) -> Option<Act> {
        if s == "t" { return Some(Act::Sweep); }
        if s == "r" { return Some(Act::Recover); }
        if let Some(r) = s.strip_prefix("cc") { return r.parse().ok().map(Act::Complete); }
        if let Some(r) = s.strip_prefix("ca") { return r.parse().ok().map(Act::CompleteAbort); }
        if let Some(r) = s.strip_prefix('c') { return r.parse().ok().map(Act::Commit); }
        if let Some(r) = s.strip_prefix('a') { return r.parse().ok().map(Act::Abort); }
        if let Some(r) = s.strip_prefix('v') {
            let p: Vec<&str> = r.split('.').collect();
            if p.len() != 3 { return None; }
            let v = match p[2] { "Y" => V::Yes, "N" => V::No, "C" => V::Conflict, _ => return None };
            return Some(Act::Vote(p[0].parse().ok()?, p[1].parse().ok()?, v));
        }
        None
    }
}

#[derive(Clone, Copy, Debug)]
struct Cfg { ntx: usize, nsh: usize, overlap: bool, committing: bool, /** bit s set = shard s is a participant; 0 = every shard */ parts: u8 }

impl Cfg {
    fn is_part(&self, s: usize) -> bool { self.parts == 0 || (self.parts >> s) & 1 == 1 }
    fn parts_vec(&self) -> Vec<usize> { (0..self.nsh).filter(|s| self.is_part(*s)).collect() }
    fn key(&self, i: usize, s: usize) -> String {
        if self.overlap && s == 0 { "shared_s0".to_string() } else { format!("t{i}s{s}") }
    }
    fn universe(&self) -> BTreeSet<String> {
        let mut u = BTreeSet::new();
        for i in 0..self.ntx { for s in 0..self.nsh { u.insert(self.key(i, s)); } }
        u
    }
    fn alphabet(&self) -> Vec<Act> {
        let mut a = vec![];
        for i in 0..self.ntx {
            for s in 0..self.nsh { for v in [V::Yes, V::No, V::Conflict] { a.push(Act::Vote(i, s, v)); } }
            a.push(Act::Commit(i));
            a.push(Act::Abort(i));
            if self.committing { a.push(Act::Complete(i)); a.push(Act::CompleteAbort(i)); }
        }
        a.push(Act::Sweep);
        a.push(Act::Recover);
        a
    }
    fn json(&self, seq: &[Act]) -> Value {
        let mut j = json!({"dom": "coord", "ntx": self.ntx, "nsh": self.nsh, "overlap": self.overlap,
               "pre": if self.committing { "committing" } else { "begin" },
               "seq": seq.iter().map(Act::enc).collect::<Vec<_>>()});
        if self.parts != 0 { j["parts"] = json!(self.parts_vec()); }
        j
    }
}

#[derive(Clone, Copy, PartialEq, Eq, Debug)]
enum GP { Preparing, Prepared, Committing, Aborting, Gone }

#[derive(Clone, Debug)]
struct GTx { phase: GP, votes: BTreeMap<usize, V>, /** Some(true) = Commit, Some(false) = Abort */ decision: Option<bool> }

#[derive(Clone, Debug)]
struct Ghost { txs: Vec<GTx>, /** key -> index of the holding tx */ locks: BTreeMap<String, usize> }

#[derive(PartialEq, Debug, Clone)]
struct TxView { phase: TxPhase, votes: BTreeMap<usize, V>, participants: Vec<usize> }

#[derive(PartialEq, Debug, Clone)]
struct View { txs: Vec<Option<TxView>>, pending: usize, locks: BTreeMap<String, Option<u64>>, lock_count: usize }

struct Built { coord: DistributedTxCoordinator, ids: Vec<u64>, ghost: Ghost, cache: BTreeMap<(usize, usize), PrepareVote> }

fn kind(v: &PrepareVote) -> V {
    match v {
        PrepareVote::Yes { .. } => V::Yes,
        PrepareVote::No { .. } => V::No,
        _ => V::Conflict,
    }
}

fn new_coord() -> DistributedTxCoordinator {
    let cfg = DistributedTxConfig { prepare_timeout_ms: 0, ..DistributedTxConfig::default() };
    DistributedTxCoordinator::new(ConsensusManager::new(ConsensusConfig::default()), cfg)
}

fn participants(cfg: &Cfg) -> Vec<usize> { cfg.parts_vec() }

/// The Yes message of (tx i, shard s): first delivery runs the real `handle_prepare`, later ones repeat it.
fn yes_vote(b: &mut Built, cfg: &Cfg, i: usize, s: usize) -> PrepareVote {
    if let Some(v) = b.cache.get(&(i, s)) { return v.clone(); }
    let mut emb = vec![0.0f32; cfg.ntx * cfg.nsh];
    emb[i * cfg.nsh + s] = 1.0;
    let req = PrepareRequest {
        tx_id: b.ids[i], coordinator: "coord".to_string(),
        operations: vec![Transaction::Put { key: cfg.key(i, s), data: vec![i as u8, s as u8] }],
        delta_embedding: SparseVector::from_dense(&emb), timeout_ms: 0,
    };
    let v = b.coord.handle_prepare(&req);
    if matches!(v, PrepareVote::Yes { .. }) {
        b.ghost.locks.insert(cfg.key(i, s), i);
        b.cache.insert((i, s), v.clone());
    }
    v
}

fn build(cfg: &Cfg) -> Built {
    for _attempt in 0..10_000 {
        let coord = new_coord();
        let mut b = Built { coord, ids: vec![], ghost: Ghost { txs: vec![], locks: BTreeMap::new() }, cache: BTreeMap::new() };
        let n_first = if cfg.committing { 1 } else { cfg.ntx };
        for _ in 0..n_first {
            let tx = b.coord.begin(&"coord".to_string(), &participants(cfg)).expect("begin");
            assert!(tx.phase == TxPhase::Preparing && tx.votes.is_empty() && tx.participants == participants(cfg));
            b.ids.push(tx.tx_id);
            b.ghost.txs.push(GTx { phase: GP::Preparing, votes: BTreeMap::new(), decision: None });
        }
        if cfg.committing {
            // placeholder ids so that yes_vote can index
            let mut last = None;
            for s in participants(cfg) {
                let v = yes_vote(&mut b, cfg, 0, s);
                assert!(matches!(v, PrepareVote::Yes { .. }), "harness: prepare of a free key must vote yes");
                last = Some(b.coord.record_vote(b.ids[0], s, v));
                b.ghost.txs[0].votes.insert(s, V::Yes);
            }
            assert!(last == Some(Ok(Some(TxPhase::Prepared))), "harness: all-yes must reach Prepared, got {last:?}");
            // public recover(): Prepared + all yes + not yet expired => Committing (the commit decision is taken)
            let _ = b.coord.recover();
            match b.coord.get(b.ids[0]).map(|t| t.phase) {
                Some(TxPhase::Committing) => {},
                _ => continue, // the millisecond clock ticked between begin and recover: build again
            }
            b.ghost.txs[0].phase = GP::Committing;
            b.ghost.txs[0].decision = Some(true);
            for _ in 1..cfg.ntx {
                let tx = b.coord.begin(&"coord".to_string(), &participants(cfg)).expect("begin");
                b.ids.push(tx.tx_id);
                b.ghost.txs.push(GTx { phase: GP::Preparing, votes: BTreeMap::new(), decision: None });
            }
        }
        let _ = b.coord.take_pending_aborts();
        return b;
    }
    panic!("harness: could not establish the Committing pre-state");
}

/// Spin (no sleep) until the repository's own expiry predicate holds for every pending transaction.
fn wait_expired(b: &Built) {
    for id in &b.ids {
        while let Some(tx) = b.coord.get(*id) {
            if tx.is_timed_out() { break; }
            std::hint::spin_loop();
        }
    }
}

fn observe(b: &Built, cfg: &Cfg) -> View {
    let lm = b.coord.lock_manager();
    let mut locks = BTreeMap::new();
    for k in cfg.universe() {
        let h = lm.lock_holder(&k);
        assert!(h.is_some() == lm.is_locked(&k));
        locks.insert(k, h);
    }
    View {
        txs: b.ids.iter().map(|id| b.coord.get(*id).map(|t| TxView {
            phase: t.phase, votes: t.votes.iter().map(|(s, v)| (*s, kind(v))).collect(), participants: t.participants.clone() })).collect(),
        pending: b.coord.pending_count(),
        locks,
        lock_count: lm.active_lock_count(),
    }
}

fn expect_view(g: &Ghost, ids: &[u64], cfg: &Cfg) -> View {
    let mut locks = BTreeMap::new();
    for k in cfg.universe() { locks.insert(k.clone(), g.locks.get(&k).map(|i| ids[*i])); }
    View {
        txs: g.txs.iter().map(|t| {
            let phase = match t.phase {
                GP::Preparing => TxPhase::Preparing, GP::Prepared => TxPhase::Prepared, GP::Committing => TxPhase::Committing,
                GP::Aborting => TxPhase::Aborting, GP::Gone => return None,
            };
            Some(TxView { phase, votes: t.votes.clone(), participants: participants(cfg) })
        }).collect(),
        pending: g.txs.iter().filter(|t| t.phase != GP::Gone).count(),
        locks,
        lock_count: g.locks.len(),
    }
}

/// expected return value of the call
#[derive(Debug, PartialEq, Clone)]
enum Ret { Vote(Result<Option<TxPhase>, ()>), Unit(bool), Swept(BTreeSet<usize>) }

/// release the locks that tx i holds through its *recorded* yes votes
fn release(g: &mut Ghost, cfg: &Cfg, i: usize) {
    let yes: Vec<usize> = g.txs[i].votes.iter().filter(|(_, v)| **v == V::Yes).map(|(s, _)| *s).collect();
    for s in yes {
        let k = cfg.key(i, s);
        if g.locks.get(&k) == Some(&i) { g.locks.remove(&k); }
    }
}

/// The contract as a transition on the ghost state.  Returns (expected return, tx indices that must be
/// queued for abort broadcast by this call, each exactly once).
fn model(g: &mut Ghost, cfg: &Cfg, act: Act, delivered: Option<V>) -> (Ret, Vec<usize>) {
    match act {
        Act::Vote(i, s, _) => {
            let v = delivered.expect("vote kind");
            let t = &mut g.txs[i];
            // unknown (gone) tx, wrong phase, duplicate shard: rejected, nothing changes
            if t.phase != GP::Preparing || t.votes.contains_key(&s) { return (Ret::Vote(Err(())), vec![]); }
            t.votes.insert(s, v);
            let parts = cfg.parts_vec();
            if !parts.iter().all(|p| t.votes.contains_key(p)) { return (Ret::Vote(Ok(None)), vec![]); }
            if parts.iter().all(|p| t.votes.get(p) == Some(&V::Yes)) {
                // keys of different shards are disjoint and the delta embeddings orthogonal in this domain
                t.phase = GP::Prepared;
                (Ret::Vote(Ok(Some(TxPhase::Prepared))), vec![])
            } else {
                t.phase = GP::Aborting;
                t.decision = Some(false);
                (Ret::Vote(Ok(Some(TxPhase::Aborting))), vec![i])
            }
        },
        Act::Commit(i) => {
            if g.txs[i].phase != GP::Prepared || g.txs[i].decision.is_some() { return (Ret::Unit(false), vec![]); }
            g.txs[i].decision = Some(true);
            release(g, cfg, i);
            g.txs[i].phase = GP::Gone;
            (Ret::Unit(true), vec![])
        },
        Act::Abort(i) => {
            // a taken commit decision is final; an unknown tx cannot be aborted
            if g.txs[i].phase == GP::Gone || g.txs[i].phase == GP::Committing || g.txs[i].decision == Some(true) {
                return (Ret::Unit(false), vec![]);
            }
            g.txs[i].decision = Some(false);
            release(g, cfg, i);
            g.txs[i].phase = GP::Gone;
            (Ret::Unit(true), vec![])
        },
        Act::Sweep => {
            // every pending tx is expired; the ones that decided commit must be completed, not timed out
            let swept: Vec<usize> = (0..g.txs.len())
                .filter(|i| !matches!(g.txs[*i].phase, GP::Gone | GP::Committing) && g.txs[*i].decision != Some(true)).collect();
            for i in &swept {
                g.txs[*i].decision = Some(false);
                release(g, cfg, *i);
                g.txs[*i].phase = GP::Gone;
            }
            (Ret::Swept(swept.iter().copied().collect()), swept)
        },
        Act::Complete(i) => {
            if g.txs[i].phase != GP::Committing { return (Ret::Unit(false), vec![]); }
            release(g, cfg, i);
            g.txs[i].phase = GP::Gone;
            (Ret::Unit(true), vec![])
        },
        Act::CompleteAbort(i) => {
            if g.txs[i].phase != GP::Aborting { return (Ret::Unit(false), vec![]); }
            release(g, cfg, i);
            g.txs[i].phase = GP::Gone;
            (Ret::Unit(true), vec![])
        },
        Act::Recover => {
            // every pending tx is expired.  A taken decision (Committing, Aborting) stays whatever the clock says; an
            // undecided tx (Preparing / Prepared) that is past its timeout is moved to Aborting (this is the reading in
            // which EVERY undecided tx is moved; `model_alts` adds the readings in which some of them are left alone).
            // Locks stay with the tx until the abort is carried out (abort / complete_abort / cleanup_timeouts).
            let moved = undecided(g);
            for i in &moved { g.txs[*i].phase = GP::Aborting; g.txs[*i].decision = Some(false); }
            (Ret::Unit(true), moved)
        },
    }
}

/// pending transactions without a decision (Preparing / Prepared)
fn undecided(g: &Ghost) -> Vec<usize> {
    (0..g.txs.len()).filter(|i| matches!(g.txs[*i].phase, GP::Preparing | GP::Prepared) && g.txs[*i].decision.is_none()).collect()
}

/// One permitted outcome of a call: ghost after the call, return value, transactions queued for abort broadcast.
struct Alt { ghost: Ghost, ret: Ret, queue: Vec<usize> }

/// The contract as the SET of permitted outcomes.  Exactly one, except around votes of non-participants.
fn model_alts(g: &Ghost, cfg: &Cfg, act: Act, delivered: Option<V>) -> Vec<Alt> {
    let strict = || { let mut g1 = g.clone(); let (ret, queue) = model(&mut g1, cfg, act, delivered); Alt { ghost: g1, ret, queue } };
    if let Act::Vote(i, s, _) = act {
        let v = delivered.expect("vote kind");
        let t = &g.txs[i];
        let open = t.phase == GP::Preparing && !t.votes.contains_key(&s);
        if open && !cfg.is_part(s) {
            // a stranger's vote: recorded-but-not-counted | rejected | silently ignored; never a phase change
            let mut g2 = g.clone();
            g2.txs[i].votes.insert(s, v);
            return vec![Alt { ghost: g2, ret: Ret::Vote(Ok(None)), queue: vec![] },
                        Alt { ghost: g.clone(), ret: Ret::Vote(Err(())), queue: vec![] },
                        Alt { ghost: g.clone(), ret: Ret::Vote(Ok(None)), queue: vec![] }];
        }
        if open {
            let first = strict();
            let veto = t.votes.iter().any(|(sh, k)| !cfg.is_part(*sh) && *k != V::Yes);
            if veto && first.ret == Ret::Vote(Ok(Some(TxPhase::Prepared))) {
                // every participant voted Yes, a recorded stranger did not: aborting instead is permitted (safe)
                let mut g2 = g.clone();
                g2.txs[i].votes.insert(s, v);
                g2.txs[i].phase = GP::Aborting;
                g2.txs[i].decision = Some(false);
                return vec![first, Alt { ghost: g2, ret: Ret::Vote(Ok(Some(TxPhase::Aborting))), queue: vec![i] }];
            }
            return vec![first];
        }
    }
    if act == Act::Recover {
        // an expired undecided tx MAY become Aborting: every subset of them is a permitted outcome (the full set first);
        // `queue` lists the transactions that MAY be queued for the abort broadcast by this call (the moved ones)
        let u = undecided(g);
        let mut alts = vec![];
        for mask in (0..(1u32 << u.len())).rev() {
            let mut g2 = g.clone();
            let moved: Vec<usize> = u.iter().enumerate().filter(|(k, _)| (mask >> k) & 1 == 1).map(|(_, i)| *i).collect();
            for i in &moved { g2.txs[*i].phase = GP::Aborting; g2.txs[*i].decision = Some(false); }
            alts.push(Alt { ghost: g2, ret: Ret::Unit(true), queue: moved });
        }
        return alts;
    }
    vec![strict()]
}

/// Execute one call on the real coordinator and advance the ghost; with `check`, evaluate the contract.
fn step(b: &mut Built, cfg: &Cfg, act: Act, check: bool) -> (Checks, bool) {
    // materialise the vote message first (a Yes takes the key lock through handle_prepare)
    let msg = match act {
        Act::Vote(i, s, V::Yes) => Some(yes_vote(b, cfg, i, s)),
        Act::Vote(_, _, V::No) => Some(PrepareVote::No { reason: "no".to_string() }),
        Act::Vote(_, _, V::Conflict) => Some(PrepareVote::Conflict { similarity: 1.0, conflicting_tx: 999 }),
        _ => None,
    };
    let delivered = msg.as_ref().map(kind);
    let pre_ghost = b.ghost.clone();
    let pre_view = if check { Some(observe(b, cfg)) } else { None };
    let alts = model_alts(&b.ghost, cfg, act, delivered);

    let mut note = String::new();
    let real_ret = match act {
        Act::Vote(i, s, _) => Ret::Vote(b.coord.record_vote(b.ids[i], s, msg.clone().expect("msg")).map_err(|_| ())),
        Act::Commit(i) => Ret::Unit(b.coord.commit(b.ids[i]).is_ok()),
        Act::Abort(i) => Ret::Unit(b.coord.abort(b.ids[i], "requested").is_ok()),
        Act::Complete(i) => Ret::Unit(b.coord.complete_commit(b.ids[i]).is_ok()),
        Act::CompleteAbort(i) => Ret::Unit(b.coord.complete_abort(b.ids[i]).is_ok()),
        Act::Recover => { let st = b.coord.recover(); note = format!("; recover() returned {st:?}"); Ret::Unit(true) },
        Act::Sweep => {
            let r = b.coord.cleanup_timeouts();
            let set: BTreeSet<usize> = r.iter().filter_map(|id| b.ids.iter().position(|x| x == id)).collect();
            if set.len() != r.len() { Ret::Unit(false) /* duplicate or foreign id */ } else { Ret::Swept(set) }
        },
    };
    let queue = b.coord.take_pending_aborts();
    if !check && alts.len() == 1 {
        b.ghost = alts.into_iter().next().expect("one outcome").ghost;
        return (vec![], false);
    }

    let post_view = observe(b, cfg);
    // abort queue: (tx index, participants) of every entry produced by this call
    let q: Vec<(Option<usize>, Vec<usize>)> = queue.iter().map(|(id, _, sh)| (b.ids.iter().position(|x| x == id), sh.clone())).collect();
    let mut q_ids: Vec<Option<usize>> = q.iter().map(|e| e.0).collect();
    q_ids.sort();
    let parts_ok = q.iter().all(|(_, sh)| *sh == participants(cfg));
    let queue_ok = |exp_queue: &[usize]| {
        let mut want: Vec<Option<usize>> = exp_queue.iter().map(|i| Some(*i)).collect();
        want.sort();
        match act {
            // abort(): the contract only demands that no *other* transaction is queued
            Act::Abort(i) => q_ids.iter().all(|e| *e == Some(i)) && parts_ok,
            // recover(): only a tx that this call moved to Aborting may be queued, at most once
            Act::Recover => q_ids.iter().all(|e| want.contains(e)) && q_ids.windows(2).all(|w| w[0] != w[1]) && parts_ok,
            _ => q_ids == want && parts_ok,
        }
    };
    // the permitted outcome the coordinator shows (the first one if it shows none of them)
    let n_alts = alts.len();
    let hit = alts.iter().position(|a| real_ret == a.ret && post_view == expect_view(&a.ghost, &b.ids, cfg) && queue_ok(&a.queue));
    let Alt { ghost: post_ghost, ret: exp_ret, queue: exp_queue } = alts.into_iter().nth(hit.unwrap_or(0)).expect("outcome");
    b.ghost = post_ghost;
    if !check { return (vec![], false); }

    let exp_view = expect_view(&b.ghost, &b.ids, cfg);
    let pre_ok = pre_view.as_ref() == Some(&expect_view(&pre_ghost, &b.ids, cfg));
    let detail = format!(
        "call {} on ghost {:?}: returned {:?}, contract {:?}; view after {:?}, contract {:?}; abort queue {:?}, contract {:?}{}{}{}",
        act.enc(), pre_ghost.txs, real_ret, exp_ret, post_view, exp_view, q, exp_queue, note,
        if n_alts > 1 && act == Act::Recover { format!(" [{n_alts} outcomes are permitted here (each expired undecided tx may or may not be moved to Aborting); the first is shown]") }
        else if n_alts > 1 { format!(" [{n_alts} outcomes are permitted here (non-participant vote); the first is shown]") } else { String::new() },
        if pre_ok { "" } else { " [pre-state already differed from the ghost]" });
    let all_ok = pre_ok && hit.is_some();
    let decided_commit = |i: usize| pre_ghost.txs[i].decision == Some(true);
    let mut out: Checks = vec![];
    let nontrivial;
    match act {
        Act::Vote(..) => { nontrivial = exp_ret != Ret::Vote(Err(())); out.push((O_VOTE, all_ok, detail)); },
        Act::Commit(_) | Act::Complete(_) => { nontrivial = exp_ret == Ret::Unit(true); out.push((O_COMMIT, all_ok, detail)); },
        Act::Abort(i) | Act::CompleteAbort(i) => { nontrivial = exp_ret == Ret::Unit(true) || decided_commit(i); out.push((O_ONCE, all_ok, detail)); },
        Act::Sweep => {
            nontrivial = !exp_queue.is_empty();
            out.push((O_TIMEOUT, all_ok, detail.clone()));
            // the part of the sweep that concerns transactions whose decision is Commit
            let committed: Vec<usize> = (0..pre_ghost.txs.len()).filter(|i| decided_commit(*i)).collect();
            if !committed.is_empty() {
                let listed = match &real_ret { Ret::Swept(s) => committed.iter().any(|i| s.contains(i)), _ => true };
                let queued = committed.iter().any(|i| q_ids.contains(&Some(*i)));
                let kept = committed.iter().all(|i| post_view.txs[*i] == pre_view.as_ref().expect("pre").txs[*i]);
                out.push((O_ONCE, !listed && !queued && kept, detail));
            }
        },
        Act::Recover => {
            // transactions whose decision is taken (Committing / Aborting; all of them are past their timeout here)
            let decided: Vec<usize> = (0..pre_ghost.txs.len()).filter(|i| pre_ghost.txs[*i].phase != GP::Gone && pre_ghost.txs[*i].decision.is_some()).collect();
            nontrivial = !decided.is_empty();
            let pv = pre_view.as_ref().expect("pre");
            let held = |v: &View, i: usize| -> Vec<String> { v.locks.iter().filter(|(_, h)| **h == Some(b.ids[i])).map(|(k, _)| k.clone()).collect() };
            let stable = decided.iter().all(|i| post_view.txs[*i] == pv.txs[*i] && held(&post_view, *i) == held(pv, *i) && !q_ids.contains(&Some(*i)));
            out.push((O_RECOVER, all_ok && stable, detail));
        },
    }
    (out, nontrivial)
}

fn exec_coord(mut b: Built, cfg: &Cfg, seq: &[Act]) -> (Checks, bool) {
    wait_expired(&b);
    let mut res = (vec![], false);
    for (n, a) in seq.iter().enumerate() { res = step(&mut b, cfg, *a, n + 1 == seq.len()); }
    res
}

fn nth_seq(alpha: &[Act], len: usize, mut idx: u64) -> Vec<Act> {
    let a = alpha.len() as u64;
    let mut v = vec![alpha[0]; len];
    for p in (0..len).rev() { v[p] = alpha[(idx % a) as usize]; idx /= a; }
    v
}

fn run_coord(rep: &mut Report, cfg: &Cfg, maxlen: usize) -> u64 {
    let alpha = cfg.alphabet();
    let mut total = 0u64;
    const BATCH: u64 = 1024;
    for len in 1..=maxlen {
        let n = (alpha.len() as u64).pow(len as u32);
        let mut start = 0u64;
        while start < n {
            let end = (start + BATCH).min(n);
            let built: Vec<Built> = (start..end).map(|_| build(cfg)).collect();
            for (k, b) in built.into_iter().enumerate() {
                let seq = nth_seq(&alpha, len, start + k as u64);
                let (checks, nontrivial) = exec_coord(b, cfg, &seq);
                rep.eval(nontrivial);
                total += 1;
                for (ob, ok, detail) in checks { rep.check(ob, ok, &|| cfg.json(&seq), &|| detail.clone()); }
            }
            start = end;
        }
    }
    total
}

// ------------------------------------------------------------------------------------------------
// participant domain
// ------------------------------------------------------------------------------------------------

const V0: &[u8] = b"v0";
const NMENU: usize = 5;

fn menu(m: usize, i: usize) -> Vec<Transaction> {
    let tag = |c: u8| vec![c, b'0' + i as u8];
    match m {
        0 => vec![Transaction::Put { key: "k0".into(), data: tag(b'x') }],
        1 => vec![Transaction::Put { key: "k1".into(), data: tag(b'y') }],
        2 => vec![Transaction::Delete { key: "k0".into() }],
        3 => vec![Transaction::Put { key: "k1".into(), data: tag(b'z') }, Transaction::Delete { key: "k0".into() }],
        _ => vec![Transaction::CompareAndSwap { key: "k0".into(), expected_data: V0.to_vec(), new_data: tag(b'w') }],
    }
}

fn bytes_data(b: &[u8]) -> TensorData {
    let mut t = TensorData::new();
    t.set("data", TensorValue::Scalar(ScalarValue::Bytes(b.to_vec())));
    t
}

#[derive(Clone, Copy, PartialEq, Eq, Debug)]
enum PAct { Prepare(usize), Commit(usize), Abort(usize) }

impl PAct {
    fn enc(&self) -> String { match self { PAct::Prepare(i) => format!("p{i}"), PAct::Commit(i) => format!("c{i}"), PAct::Abort(i) => format!("a{i}") } }
    fn dec(s: &str) -> Option<PAct> {
        let i: usize = s.get(1..)?.parse().ok()?;
        match s.as_bytes().first()? { b'p' => Some(PAct::Prepare(i)), b'c' => Some(PAct::Commit(i)), b'a' => Some(PAct::Abort(i)), _ => None }
    }
}

#[derive(Clone, Debug, PartialEq)]
struct PGhost { store: BTreeMap<String, TensorData>, prepared: BTreeMap<usize, Vec<Transaction>>, locks: BTreeMap<String, usize> }

#[derive(Debug, PartialEq)]
struct PView { store: BTreeMap<String, TensorData>, prepared: BTreeSet<u64>, locked: BTreeMap<String, bool>, lock_count: usize }

const PIDS: [u64; 2] = [101, 102];

fn p_observe(p: &TxParticipant) -> PView {
    let st = p.store();
    let mut store = BTreeMap::new();
    for k in st.scan("") { if let Ok(d) = st.get(&k) { store.insert(k, d); } }
    PView {
        store,
        prepared: p.get_awaiting_decision().into_iter().collect(),
        locked: ["k0", "k1"].iter().map(|k| (k.to_string(), p.locks.is_locked(k))).collect(),
        lock_count: p.locks.active_lock_count(),
    }
}

fn p_expect(g: &PGhost) -> PView {
    PView {
        store: g.store.clone(),
        prepared: g.prepared.keys().map(|i| PIDS[*i]).collect(),
        locked: ["k0", "k1"].iter().map(|k| (k.to_string(), g.locks.contains_key(*k))).collect(),
        lock_count: g.locks.len(),
    }
}

/// the writes of a commit, in order, on the model store
fn apply_model(store: &mut BTreeMap<String, TensorData>, ops: &[Transaction]) {
    for op in ops {
        match op {
            Transaction::Put { key, data } => { store.insert(key.clone(), bytes_data(data)); },
            Transaction::Delete { key } => { store.remove(key); },
            Transaction::CompareAndSwap { key, expected_data, new_data } => {
                let cur: Vec<u8> = match store.get(key).and_then(|d| d.get("data")) {
                    Some(TensorValue::Scalar(ScalarValue::Bytes(b))) => b.clone(),
                    _ => vec![],
                };
                if cur == *expected_data { store.insert(key.clone(), bytes_data(new_data)); }
            },
            _ => unreachable!("not in the menu"),
        }
    }
}

/// `store` is reused between cases (creating a `TensorStore` costs about a millisecond): it is emptied
/// and re-seeded here, and a fresh participant (prepared map, lock manager) is put on top of it.
fn exec_part(store: &TensorStore, menus: [usize; 2], seq: &[PAct]) -> (Checks, bool) {
    for k in store.scan("") { store.delete(&k).expect("reset store"); }
    let p = TxParticipant::new(store.clone());
    p.store().put("k0", bytes_data(V0)).expect("seed store");
    let mut g = PGhost { store: BTreeMap::new(), prepared: BTreeMap::new(), locks: BTreeMap::new() };
    g.store.insert("k0".to_string(), bytes_data(V0));
    let mut out: Checks = vec![];
    let mut nontrivial = false;
    for (n, act) in seq.iter().enumerate() {
        let last = n + 1 == seq.len();
        let pre = g.clone();
        let pre_ok = !last || p_observe(&p) == p_expect(&pre);
        // contract + real call
        let (ret_ok, ret_txt, nt) = match *act {
            PAct::Prepare(i) => {
                let ops = menu(menus[i], i);
                let keys: BTreeSet<String> = ops.iter().map(|o| o.affected_key().to_string()).collect();
                let free = keys.iter().all(|k| g.locks.get(k).map_or(true, |h| *h == i));
                if free {
                    for k in &keys { g.locks.insert(k.clone(), i); }
                    g.prepared.insert(i, ops.clone());
                }
                let mut emb = vec![0.0f32; 2];
                emb[i] = 1.0;
                let vote = p.prepare(PrepareRequest { tx_id: PIDS[i], coordinator: "coord".into(), operations: ops,
                                                     delta_embedding: SparseVector::from_dense(&emb), timeout_ms: 5000 });
                let yes = matches!(vote, PrepareVote::Yes { .. });
                (yes == free, format!("vote yes={yes}, contract yes={free}"), free)
            },
            PAct::Commit(i) => {
                let known = g.prepared.contains_key(&i);
                if let Some(ops) = g.prepared.remove(&i) {
                    apply_model(&mut g.store, &ops);
                    g.locks.retain(|_, h| *h != i);
                }
                let r = p.commit(PIDS[i]);
                // commit of a tx that is not prepared must be reported as an error (nothing was applied)
                let ok = r.tx_id == PIDS[i] && r.success == known && (known || r.error.is_some());
                (ok, format!("commit -> success={} error={:?}, contract success={known}", r.success, r.error), known)
            },
            PAct::Abort(i) => {
                let known = g.prepared.contains_key(&i);
                if g.prepared.remove(&i).is_some() { g.locks.retain(|_, h| *h != i); }
                let r = p.abort(PIDS[i]);
                // a known tx must be aborted successfully; for an unknown tx (late / duplicate abort) the
                // property only demands that nothing changes (presumed abort acknowledges it)
                let ok = r.tx_id == PIDS[i] && (!known || r.success);
                (ok, format!("abort -> success={} error={:?} (known={known})", r.success, r.error), known)
            },
        };
        if last {
            let post = p_observe(&p);
            let want = p_expect(&g);
            let ok = pre_ok && ret_ok && post == want;
            nontrivial = nt;
            out.push((O_PART, ok, format!("call {} with prepared {:?}: {ret_txt}; store/prepared/locks after {:?}, contract {:?}{}",
                                          act.enc(), pre.prepared.keys().collect::<Vec<_>>(), post, want,
                                          if pre_ok { "" } else { " [pre-state already differed]" })));
        }
    }
    (out, nontrivial)
}

fn part_json(menus: [usize; 2], seq: &[PAct]) -> Value {
    json!({"dom": "part", "menus": menus, "seq": seq.iter().map(PAct::enc).collect::<Vec<_>>()})
}

fn run_part(rep: &mut Report, maxlen: usize) -> u64 {
    let alpha = [PAct::Prepare(0), PAct::Commit(0), PAct::Abort(0), PAct::Prepare(1), PAct::Commit(1), PAct::Abort(1)];
    let mut total = 0;
    let store = TensorStore::new();
    for m0 in 0..NMENU { for m1 in 0..NMENU {
        for len in 1..=maxlen {
            let n = (alpha.len() as u64).pow(len as u32);
            for idx in 0..n {
                let mut seq = vec![alpha[0]; len];
                let mut x = idx;
                for p in (0..len).rev() { seq[p] = alpha[(x % 6) as usize]; x /= 6; }
                let (checks, nt) = exec_part(&store, [m0, m1], &seq);
                rep.eval(nt);
                total += 1;
                for (ob, ok, detail) in checks { rep.check(ob, ok, &|| part_json([m0, m1], &seq), &|| detail.clone()); }
            }
        }
    } }
    total
}

// ------------------------------------------------------------------------------------------------
// WAL fault domain (C03.decision.durable_consistent)
// ------------------------------------------------------------------------------------------------

/// begin over `nsh` shards, `votes` Yes votes (shards 0..votes), then commit / abort; the k-th WAL append of
/// that final call (and every later append) fails; k = 0: no fault
#[derive(Clone, Copy, Debug)]
struct WalCase { nsh: usize, votes: usize, commit: bool, k: usize }

impl WalCase {
    fn json(&self) -> Value {
        json!({"dom": "wal", "nsh": self.nsh, "votes": self.votes, "final": if self.commit { "commit" } else { "abort" }, "k": self.k})
    }
}

struct WalRun { coord: DistributedTxCoordinator, id: u64, /** end offset of every whole record in the file */ ends: Vec<u64>, /** records before the final call */ pre: usize, ret_ok: bool, ret_txt: String }

/// end offsets of the whole records `[len u32][crc u32][payload]` of a TxWal file
fn record_ends(path: &Path) -> Vec<u64> {
    let b = std::fs::read(path).unwrap_or_default();
    let (mut ends, mut p) = (vec![], 0usize);
    while p + 8 <= b.len() {
        let len = u32::from_le_bytes([b[p], b[p + 1], b[p + 2], b[p + 3]]) as usize;
        if p + 8 + len > b.len() { break; }
        p += 8 + len;
        ends.push(p as u64);
    }
    ends
}

/// Run the script on a fresh coordinator over a fresh WAL file with the given byte budget.  Err = the prefix
/// (begin, votes) did not run as scripted (with a budget: the record sizes drifted; the caller repeats).
fn wal_run(dir: &Path, c: &WalCase, budget: Option<u64>) -> Result<WalRun, String> {
    let path = dir.join("tx.wal");
    let _ = std::fs::remove_file(&path);
    let wcfg = WalConfig { max_size_bytes: budget.unwrap_or(1 << 40), auto_rotate: false, pre_check_space: false, ..WalConfig::default() };
    let wal = TxWal::open_with_config(&path, wcfg).map_err(|e| format!("open WAL: {e}"))?;
    let coord = new_coord().with_wal(wal);
    let shards: Vec<usize> = (0..c.nsh).collect();
    let tx = coord.begin(&"coord".to_string(), &shards).map_err(|e| format!("begin: {e}"))?;
    let id = tx.tx_id;
    for s in 0..c.votes {
        let mut emb = vec![0.0f32; c.nsh];
        emb[s] = 1.0;
        let req = PrepareRequest { tx_id: id, coordinator: "coord".to_string(), operations: vec![Transaction::Put { key: format!("w{s}"), data: vec![s as u8] }],
                                   delta_embedding: SparseVector::from_dense(&emb), timeout_ms: 0 };
        let v = coord.handle_prepare(&req);
        if !matches!(v, PrepareVote::Yes { .. }) { return Err(format!("prepare of a free key voted {v:?}")); }
        let r = coord.record_vote(id, s, v).map_err(|e| format!("record_vote: {e}"))?;
        let want = if s + 1 == c.nsh { Some(TxPhase::Prepared) } else { None };
        if r != want { return Err(format!("record_vote({s}) = {r:?}, scripted {want:?}")); }
    }
    let t = coord.get(id).ok_or("tx vanished in the prefix")?;
    if t.votes.len() != c.votes { return Err(format!("{} votes recorded, scripted {}", t.votes.len(), c.votes)); }
    let pre = record_ends(&path).len();
    if pre != 1 + c.votes + usize::from(c.votes == c.nsh) { return Err(format!("{pre} WAL records after the prefix")); }
    let r = if c.commit { coord.commit(id) } else { coord.abort(id, "requested") };
    let ret_txt = match &r { Ok(()) => "Ok".to_string(), Err(e) => format!("Err({e})") };
    Ok(WalRun { coord, id, ends: record_ends(&path), pre, ret_ok: r.is_ok(), ret_txt })
}

/// number of WAL appends of the final call in a fault-free run
fn wal_final_appends(dir: &Path, c: &WalCase) -> Result<usize, String> {
    let m = wal_run(dir, &WalCase { k: 0, ..*c }, None)?;
    Ok(m.ends.len() - m.pre)
}

/// Ok((nontrivial, verdict)); Err = the case could not be set up (harness)
fn wal_case(dir: &Path, c: &WalCase) -> Result<(bool, Result<String, String>), String> {
    let mut run = None;
    for _attempt in 0..64 {
        let m = wal_run(dir, c, None).map_err(|e| format!("harness: fault-free run: {e}"))?;
        if c.k == 0 { run = Some(m); break; }
        let n_final = m.ends.len() - m.pre;
        if c.k > n_final { return Ok((false, Ok(format!("the final call appends only {n_final} record(s); k = {} is not realisable", c.k)))); }
        let (pre, budget) = (m.pre, m.ends[m.pre + c.k - 2]);
        drop(m);
        match wal_run(dir, c, Some(budget)) {
            Ok(r) if r.pre == pre && r.ends.len() == pre + c.k - 1 => { run = Some(r); break; },
            _ => continue, // random ids changed a record size: measure again
        }
    }
    let run = run.ok_or("harness: could not place the WAL fault at the intended record")?;
    let (coord, id) = (&run.coord, run.id);
    let path = dir.join("tx.wal");

    // what the WAL says (read from a copy, the live coordinator keeps its own handle)
    let copy = dir.join("tx_copy.wal");
    std::fs::copy(&path, &copy).map_err(|e| format!("harness: copy WAL: {e}"))?;
    let entries = TxWal::open(&copy).and_then(|w| w.replay()).map_err(|e| format!("harness: replay WAL: {e}"))?;
    let completed = |o: TxOutcome| entries.iter().any(|e| matches!(e, TxWalEntry::TxComplete { tx_id, outcome } if *tx_id == id && *outcome == o));
    let moved_to = |p: TxPhase| entries.iter().any(|e| matches!(e, TxWalEntry::PhaseChange { tx_id, to, .. } if *tx_id == id && *to == p));
    let wal_commit = moved_to(TxPhase::Committing) || completed(TxOutcome::Committed);
    let wal_abort = moved_to(TxPhase::Aborting) || completed(TxOutcome::Aborted);
    let mut bad: Vec<String> = vec![];
    if wal_commit && wal_abort { bad.push("the WAL holds BOTH a commit and an abort decision".into()); }
    if run.ret_ok && c.commit && !wal_commit { bad.push("commit returned Ok but no commit decision is in the WAL".into()); }
    if run.ret_ok && !c.commit && !wal_abort { bad.push("abort returned Ok but no abort decision is in the WAL".into()); }

    // the live coordinator (the tx is expired: timeout 0)
    while let Some(t) = coord.get(id) { if t.is_timed_out() { break; } std::hint::spin_loop(); }
    let phase = |co: &DistributedTxCoordinator| co.get(id).map(|t| t.phase);
    let before = phase(coord);
    if wal_commit {
        let swept = coord.cleanup_timeouts();
        let queued = coord.take_pending_aborts();
        if swept.contains(&id) { bad.push("WAL: COMMIT decided, but cleanup_timeouts() lists the tx as timed out".into()); }
        if queued.iter().any(|e| e.0 == id) { bad.push("WAL: COMMIT decided, but the tx is queued for abort broadcast".into()); }
        if phase(coord) != before { bad.push(format!("WAL: COMMIT decided, but cleanup_timeouts() changed the tx {before:?} -> {:?}", phase(coord))); }
        if coord.abort(id, "after wal fault").is_ok() { bad.push("WAL: COMMIT decided, but abort(tx) returned Ok".into()); }
        coord.truncate_wal().map_err(|e| format!("harness: truncate_wal: {e}"))?;
        if coord.abort(id, "after wal space was freed").is_ok() { bad.push("WAL: COMMIT decided, but abort(tx) returned Ok once the WAL accepted writes again".into()); }
        let swept = coord.cleanup_timeouts();
        let queued = coord.take_pending_aborts();
        if swept.contains(&id) || queued.iter().any(|e| e.0 == id) { bad.push("WAL: COMMIT decided, but a later cleanup_timeouts() lists / queues the tx".into()); }
        if before.is_some() && phase(coord) != before { bad.push(format!("WAL: COMMIT decided, live tx {before:?} -> {:?} by abort / cleanup", phase(coord))); }
    } else if wal_abort {
        if coord.commit(id).is_ok() { bad.push("WAL: ABORT decided, but commit(tx) returned Ok".into()); }
        coord.truncate_wal().map_err(|e| format!("harness: truncate_wal: {e}"))?;
        if coord.commit(id).is_ok() { bad.push("WAL: ABORT decided, but commit(tx) returned Ok once the WAL accepted writes again".into()); }
        // the votes that were still outstanding arrive late (all Yes): the tx must not become committable any more
        for sh in c.votes..c.nsh {
            let mut emb = vec![0.0f32; c.nsh];
            emb[sh] = 1.0;
            let req = PrepareRequest { tx_id: id, coordinator: "coord".to_string(), operations: vec![Transaction::Put { key: format!("w{sh}"), data: vec![sh as u8] }],
                                       delta_embedding: SparseVector::from_dense(&emb), timeout_ms: 0 };
            let v = coord.handle_prepare(&req);
            coord.truncate_wal().map_err(|e| format!("harness: truncate_wal: {e}"))?; // the budget is only a few records
            let _ = coord.record_vote(id, sh, v);
        }
        coord.truncate_wal().map_err(|e| format!("harness: truncate_wal: {e}"))?;
        if c.votes < c.nsh && coord.commit(id).is_ok() { bad.push("WAL: ABORT decided, but after the outstanding Yes votes arrived commit(tx) returned Ok".into()); }
    }

    // a restart from that WAL
    let rec = TxRecoveryState::from_entries(&entries);
    let in_list = |l: &[tensor_chain::RecoveredPreparedTx]| l.iter().any(|t| t.tx_id == id);
    let (r_prep, r_com, r_abo) = (in_list(&rec.prepared_txs), in_list(&rec.committing_txs), in_list(&rec.aborting_txs));
    if wal_commit && (r_prep || r_abo || (!r_com && !completed(TxOutcome::Committed))) {
        bad.push(format!("WAL: COMMIT decided, TxRecoveryState has the tx in prepared={r_prep} committing={r_com} aborting={r_abo}"));
    }
    if wal_abort && !wal_commit && (r_prep || r_com || (!r_abo && !completed(TxOutcome::Aborted))) {
        bad.push(format!("WAL: ABORT decided, TxRecoveryState has the tx in prepared={r_prep} committing={r_com} aborting={r_abo}"));
    }
    let copy2 = dir.join("tx_restart.wal");
    std::fs::copy(&copy, &copy2).map_err(|e| format!("harness: copy WAL: {e}"))?;
    let c2 = new_coord().with_wal(TxWal::open(&copy2).map_err(|e| format!("harness: open WAL copy: {e}"))?);
    match c2.recover_from_wal() {
        Err(e) => bad.push(format!("recover_from_wal on the WAL = Err({e})")),
        Ok(_) => {
            let ph = phase(&c2);
            if wal_commit && !wal_abort {
                let ok = ph == Some(TxPhase::Committing) || (ph.is_none() && completed(TxOutcome::Committed));
                if !ok { bad.push(format!("WAL: COMMIT decided, after restart the tx is {ph:?}")); }
                if c2.abort(id, "after restart").is_ok() { bad.push("WAL: COMMIT decided, after restart abort(tx) returned Ok".into()); }
            }
            if wal_abort && !wal_commit {
                let ok = ph == Some(TxPhase::Aborting) || (ph.is_none() && completed(TxOutcome::Aborted));
                if !ok { bad.push(format!("WAL: ABORT decided, after restart the tx is {ph:?}")); }
                if c2.commit(id).is_ok() { bad.push("WAL: ABORT decided, after restart commit(tx) returned Ok".into()); }
            }
        },
    }
    let what = format!("{} returned {}; WAL records {} (of them {} by the final call), WAL decision: {}; live tx after the call: {before:?}",
                       if c.commit { "commit" } else { "abort" }, run.ret_txt, run.ends.len(), run.ends.len() - run.pre,
                       match (wal_commit, wal_abort) { (true, false) => "COMMIT", (false, true) => "ABORT", (false, false) => "none", _ => "BOTH" });
    let verdict = if bad.is_empty() { Ok(what) } else { Err(format!("{what}; violated: {}", bad.join(" | "))) };
    Ok((wal_commit || wal_abort, verdict))
}

fn run_wal(rep: &mut Report, tier: Tier) -> u64 {
    let dir = crate::fw::tmpdir("c03_2pc");
    let mut total = 0;
    let shard_counts: &[usize] = if tier == Tier::Thorough { &[1, 2, 3, 4] } else { &[2, 3] };
    for &nsh in shard_counts {
        let mut scripts = vec![WalCase { nsh, votes: nsh, commit: true, k: 0 }];
        for votes in 0..=nsh { scripts.push(WalCase { nsh, votes, commit: false, k: 0 }); }
        for sc in scripts {
            let n = match wal_final_appends(&dir, &sc) {
                Ok(n) => n,
                Err(e) => { rep.check(O_DURABLE, false, &|| sc.json(), &|| format!("harness: fault-free run failed: {e}")); continue; },
            };
            for k in 0..=n {
                let c = WalCase { k, ..sc };
                let r = wal_case(&dir, &c);
                total += 1;
                match r {
                    Ok((nontrivial, verdict)) => { rep.eval(nontrivial); rep.check(O_DURABLE, verdict.is_ok(), &|| c.json(), &|| verdict.clone().err().unwrap_or_default()); },
                    Err(e) => { rep.eval(false); rep.check(O_DURABLE, false, &|| c.json(), &|| e.clone()); },
                }
            }
        }
    }
    let _ = std::fs::remove_dir_all(&dir);
    total
}

// ------------------------------------------------------------------------------------------------

fn configs(tier: Tier) -> Vec<(Cfg, usize)> {
    let c = |ntx, nsh, overlap, committing| Cfg { ntx, nsh, overlap, committing, parts: 0 };
    // strict participant subsets of 3 shards: the remaining shard is a stranger whose votes are in the alphabet
    let p = |ntx, parts: u8, committing| Cfg { ntx, nsh: 3, overlap: false, committing, parts };
    if tier == Tier::Thorough {
        vec![(c(1, 2, false, false), 6), (c(1, 3, false, false), 5), (c(2, 2, false, false), 5), (c(2, 2, true, false), 5),
             (c(2, 3, false, false), 4), (c(1, 2, false, true), 4), (c(1, 3, false, true), 4), (c(2, 2, false, true), 4),
             (p(1, 0b011, false), 5), (p(1, 0b101, false), 5), (p(1, 0b110, false), 5), (p(1, 0b001, false), 5), (p(2, 0b011, false), 4),
             (p(1, 0b011, true), 4)]
    } else {
        vec![(c(1, 2, false, false), 5), (c(1, 3, false, false), 5), (c(2, 2, false, false), 4), (c(2, 2, true, false), 4),
             (c(1, 2, false, true), 3), (c(1, 3, false, true), 3), (c(2, 2, false, true), 3),
             (p(1, 0b011, false), 5), (p(1, 0b101, false), 4), (p(1, 0b001, false), 4), (p(2, 0b011, false), 3), (p(1, 0b011, true), 3)]
    }
}

fn shards_txt(c: &Cfg) -> String {
    if c.parts == 0 { c.nsh.to_string() } else { format!("{} of {{{}}}", c.nsh, c.parts_vec().iter().map(ToString::to_string).collect::<Vec<_>>().join(",")) }
}

pub fn run(tier: Tier, _seed: u64) -> Report {
    let cfgs = configs(tier);
    let plen = if tier == Tier::Thorough { 6 } else { 5 };
    let dom = format!(
        "coordinator: every call sequence from begin (last call contract-checked) over {{vote(tx,shard,Yes|No|Conflict) incl. duplicate/late votes, commit, abort, cleanup_timeouts (timeout 0, all expired), recover()}} for (tx,shards,maxlen) = {}; Committing pre-states (built with recover()) with the same alphabet + complete_commit/complete_abort for {}; participant: 5x5 operation lists for 2 tx, every sequence of length <= {plen} over {{prepare,commit,abort}}x2 on a store {{k0}}; WAL faults: real TxWal with a byte budget (auto_rotate off), script begin / v Yes votes / commit (v = all) or abort (v = 0..all) over {} shards, the k-th append of the final call and all later ones fail, for EVERY k (and k = 0: no fault); participants written '3 of {{0,1}}' are a strict subset of the shards, the other shard's votes are in the alphabet",
        cfgs.iter().filter(|(c, _)| !c.committing).map(|(c, l)| format!("({},{}{},<={l})", c.ntx, shards_txt(c), if c.overlap { ",shared key" } else { "" })).collect::<Vec<_>>().join(" "),
        cfgs.iter().filter(|(c, _)| c.committing).map(|(c, l)| format!("({},{},<={l})", c.ntx, shards_txt(c))).collect::<Vec<_>>().join(" "),
        if tier == Tier::Thorough { "1-4" } else { "2-3" });
    let mut rep = Report::new("c03_2pc", &dom, true,
        &["DistributedTxCoordinator::begin", "handle_prepare", "record_vote", "commit", "abort", "cleanup_timeouts", "take_pending_aborts",
          "complete_commit", "complete_abort", "recover", "with_wal", "recover_from_wal", "truncate_wal", "TxWal::open_with_config", "TxWal::replay",
          "TxRecoveryState::from_entries", "TxParticipant::prepare", "TxParticipant::commit", "TxParticipant::abort"]);
    rep.declare(O_VOTE, "DistributedTxCoordinator::record_vote");
    rep.declare(O_COMMIT, "DistributedTxCoordinator::commit");
    rep.declare(O_ONCE, "DistributedTxCoordinator::abort / cleanup_timeouts");
    rep.declare(O_TIMEOUT, "DistributedTxCoordinator::cleanup_timeouts / take_pending_aborts");
    rep.declare(O_PART, "TxParticipant::{prepare,commit,abort}");
    rep.declare(O_RECOVER, "DistributedTxCoordinator::recover (as a call on a live coordinator, all transactions past their timeout)");
    rep.declare(O_DURABLE, "DistributedTxCoordinator::{commit,abort} on a TxWal whose k-th append fails; then abort / commit / cleanup_timeouts / take_pending_aborts / recover_from_wal");
    for (cfg, maxlen) in &cfgs { run_coord(&mut rep, cfg, *maxlen); }
    run_part(&mut rep, plen);
    run_wal(&mut rep, tier);
    let c = Cfg { ntx: 1, nsh: 2, overlap: false, committing: false, parts: 0 };
    rep.sample(Cfg { nsh: 3, parts: 0b011, ..c }.json(&[Act::Vote(0, 2, V::Yes), Act::Vote(0, 0, V::Yes), Act::Commit(0)]));
    rep.sample(c.json(&[Act::Vote(0, 0, V::Yes), Act::Vote(0, 1, V::Yes), Act::Commit(0), Act::Abort(0)]));
    rep.sample(c.json(&[Act::Vote(0, 0, V::Yes), Act::Vote(0, 1, V::No), Act::Sweep]));
    rep.sample(Cfg { committing: true, ..c }.json(&[Act::Sweep, Act::Abort(0), Act::Recover]));
    rep.sample(WalCase { nsh: 2, votes: 2, commit: true, k: 2 }.json());
    rep.sample(part_json([0, 3], &[PAct::Prepare(0), PAct::Prepare(1), PAct::Abort(0), PAct::Prepare(1), PAct::Commit(1)]));
    rep
}

pub fn replay(ob: &str, case: &Value) -> Result<String, String> {
    let strs = |v: &Value| -> Vec<String> { v.as_array().map(|a| a.iter().filter_map(|x| x.as_str().map(str::to_string)).collect()).unwrap_or_default() };
    if case["dom"] == "wal" {
        let c = WalCase { nsh: case["nsh"].as_u64().unwrap_or(2) as usize, votes: case["votes"].as_u64().unwrap_or(0) as usize,
                          commit: case["final"] == "commit", k: case["k"].as_u64().unwrap_or(0) as usize };
        if c.nsh == 0 || c.nsh > 16 || c.votes > c.nsh || (c.commit && c.votes != c.nsh) { return Err("malformed case".into()); }
        if ob != O_DURABLE { return Ok(format!("this case does not exercise {ob}")); }
        let dir = crate::fw::tmpdir("c03_2pc_replay");
        let r = wal_case(&dir, &c);
        let _ = std::fs::remove_dir_all(&dir);
        return r?.1;
    }
    let (checks, _) = if case["dom"] == "part" {
        let m: Vec<usize> = case["menus"].as_array().ok_or("menus")?.iter().map(|x| x.as_u64().unwrap_or(0) as usize).collect();
        let seq: Vec<PAct> = strs(&case["seq"]).iter().map(|s| PAct::dec(s).ok_or(format!("bad action {s}"))).collect::<Result<_, _>>()?;
        if m.len() != 2 || m.iter().any(|x| *x >= NMENU) || seq.is_empty() { return Err("malformed case".into()); }
        exec_part(&TensorStore::new(), [m[0], m[1]], &seq)
    } else {
        let cfg = Cfg { ntx: case["ntx"].as_u64().unwrap_or(1) as usize, nsh: case["nsh"].as_u64().unwrap_or(2) as usize,
                        overlap: case["overlap"].as_bool().unwrap_or(false), committing: case["pre"] == "committing",
                        parts: case["parts"].as_array().map_or(0, |a| a.iter().filter_map(Value::as_u64).filter(|s| *s < 8).fold(0u8, |m, s| m | (1 << s))) };
        if cfg.nsh > 8 || cfg.nsh == 0 || cfg.parts_vec().is_empty() { return Err("malformed case: shards / participants".into()); }
        let seq: Vec<Act> = strs(&case["seq"]).iter().map(|s| Act::dec(s).ok_or(format!("bad action {s}"))).collect::<Result<_, _>>()?;
        if seq.is_empty() { return Err("empty sequence".into()); }
        exec_coord(build(&cfg), &cfg, &seq)
    };
    let mine: Vec<_> = checks.iter().filter(|(o, _, _)| *o == ob).collect();
    if mine.is_empty() { return Ok(format!("the last call of this case does not exercise {ob}")); }
    match mine.iter().find(|(_, ok, _)| !ok) {
        Some((_, _, d)) => Err(d.clone()),
        None => Ok(format!("{ob} holds for the last call")),
    }
}
