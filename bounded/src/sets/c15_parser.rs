//! C15 (bounded): parsing is total, deterministic, depth-guarded and precedence-correct.
//!
//! Functions under contract (public API of `neumann_parser`): `tokenize`, `parse`, `parse_all`, `parse_expr`.
//!
//! * C15.total.bytes   — every string of <= 3 (quick) / 4 (thorough) symbols over a 40-symbol alphabet, and
//!                        every statement keyword followed by every string of <= 2 symbols: none of the four
//!                        functions panics; an `Err` carries a span with `start <= end <= len` on char
//!                        boundaries; token spans are ordered, inside the input and end with `Eof`.
//! * C15.determinism   — the same input parsed twice gives the same result (Debug image), same domain.
//! * C15.depth.guard   — nesting sweeps (parens, unary chains, right-nested binaries, brackets, calls, LIKE,
//!                        CASE, IN lists, sub-queries) up to depth 100 000, each run in a thread with the default
//!                        stack size: the call returns `Ok` or an `Err` with a span inside the input.  A stack
//!                        overflow kills the whole process and cannot be caught, so every sweep point with
//!                        n > 200 is executed in a child process (`bounded replay c15_parser C15.depth.guard
//!                        {.., "direct": true}`) and "killed by a signal" is the failing outcome.
//! * C15.precedence.trees / C15.precedence.stmt — every expression tree of height <= 3 over all 19 binary and
//!                        3 unary operators (leaves a, b, c, d in left-to-right order), printed (i) with the
//!                        minimal parentheses dictated by the documented table (expr.rs:7-18 ==
//!                        docs/book/src/architecture/neumann-parser.md "Binding Power Table"; all binary
//!                        operators left-associative, unary tighter than every binary) and (ii) fully
//!                        parenthesised, parses back to exactly that tree — through `parse_expr` (.trees) and
//!                        through the statement parser `parse("SELECT <e>")` (.stmt), which has its own copy of
//!                        the Pratt loop.  Thorough: height 4 over one operator per precedence level, and seeded
//!                        random trees of height <= 8 over all operators.
//! * C15.op.mapping    — every operator lexeme (incl. `<>` and `!`) maps to its operator; `BinaryOp::precedence`
//!                        / `is_left_assoc` agree with the documented table.
//! * C15.depth.flat    — flat (non-nested) operator chains of <= 4 KB parse and are dropped without exhausting the stack.
//! * C15.text.equiv    — for 7 statement families, executing the text (`QueryRouter::execute_parsed`, and
//!                        `QueryRouter::execute` — the entry point the gRPC server calls — where the text is valid in
//!                        both) has the same result and leaves the same engine state (all tables with schema and rows,
//!                        graph counts, all embeddings) as the direct engine call that the documented grammar and
//!                        precedence dictate, performed on a second router with the identical pre-state.
//! * C15.total.execute — `QueryRouter::{execute, execute_parsed}` never panic on WHERE-clause soup (incl. characters
//!                        whose upper-case form has a different byte length).
use crate::fw::{no_panic, Report, Rng, Tier};
use neumann_parser::{parse, parse_all, parse_expr, tokenize, BinaryOp, Expr, ExprKind, ParseError, ParseErrorKind, Span, StatementKind, UnaryOp};
use serde_json::{json, Value};

// ---------------------------------------------------------------------------------------------
// C15.total.bytes / C15.determinism
// ---------------------------------------------------------------------------------------------

const ALPHA: [char; 40] = [
    'a', 'S', 'E', '0', '1', '9', ' ', '\n', '\'', '"', '\\', '(', ')', '[', ']', '{', '}', ',', ';', '.', ':', '*', '=', '<', '>',
    '!', '+', '-', '/', '%', '|', '&', '^', '~', '\u{e9}', '\0', '_', '?', '@', '$',
];

/// Statement / clause keywords used as prefixes (each followed by every string of <= 2 symbols).
const PREFIXES: [&str; 48] = [
    "SELECT", "SELECT *", "SELECT * FROM", "SELECT * FROM t WHERE", "SELECT a FROM t ORDER BY", "SELECT a FROM t LIMIT",
    "SELECT * FROM t JOIN", "INSERT", "INSERT INTO t", "INSERT INTO t VALUES", "INSERT INTO t VALUES (", "UPDATE", "UPDATE t SET",
    "UPDATE t SET a =", "DELETE", "DELETE FROM", "DELETE FROM t WHERE", "CREATE", "CREATE TABLE", "CREATE TABLE t (", "CREATE TABLE t (a INT",
    "CREATE INDEX", "DROP", "DROP TABLE", "SHOW", "DESCRIBE", "COUNT", "NODE", "NODE CREATE", "NODE CREATE p {", "EDGE", "EDGE CREATE",
    "NEIGHBORS", "PATH", "EMBED", "EMBED STORE 'k' [", "SIMILAR", "FIND", "ENTITY", "VAULT", "CACHE", "BLOB", "CHECKPOINT", "ROLLBACK",
    "CHAIN", "CLUSTER", "GRAPH", "BATCH",
];

fn span_inside(sp: Span, s: &str) -> bool {
    let (a, b) = (sp.start.0 as usize, sp.end.0 as usize);
    a <= b && b <= s.len() && s.is_char_boundary(a) && s.is_char_boundary(b)
}

fn res_ok<T>(r: &Result<Result<T, ParseError>, String>, s: &str) -> bool {
    match r {
        Ok(Ok(_)) => true,
        Ok(Err(e)) => span_inside(e.span, s),
        Err(_) => false,
    }
}

fn res_img<T: std::fmt::Debug>(r: &Result<Result<T, ParseError>, String>) -> String {
    match r {
        Ok(Ok(v)) => format!("Ok({v:?})"),
        Ok(Err(e)) => format!("Err({:?} @ {}..{})", e.kind, e.span.start.0, e.span.end.0),
        Err(p) => format!("PANIC({p})"),
    }
}

fn short(s: &str) -> String { if s.len() > 300 { format!("{}...[{} bytes]", &s[..s.char_indices().take(300).last().map_or(0, |(i, _)| i)], s.len()) } else { s.to_string() } }

/// Evaluates totality + determinism of the four entry points on one input. Returns (total_ok, det_ok, detail).
fn eval_total(s: &str) -> (bool, bool, String) {
    let tk = no_panic(|| tokenize(s));
    let tk_ok = match &tk {
        Ok(v) => {
            let mut prev_end = 0u32;
            let mut ok = v.last().is_some_and(neumann_parser::Token::is_eof);
            for t in v {
                ok &= span_inside(t.span, s) && t.span.start.0 >= prev_end;
                prev_end = t.span.end.0;
            }
            ok && v.iter().filter(|t| t.is_eof()).count() == 1
        },
        Err(_) => false,
    };
    let p = no_panic(|| parse(s));
    let pa = no_panic(|| parse_all(s));
    let pe = no_panic(|| parse_expr(s));
    let total = tk_ok && res_ok(&p, s) && res_ok(&pa, s) && res_ok(&pe, s);
    // second evaluation
    let tk2 = no_panic(|| tokenize(s));
    let p2 = no_panic(|| parse(s));
    let pa2 = no_panic(|| parse_all(s));
    let pe2 = no_panic(|| parse_expr(s));
    let det = format!("{tk:?}") == format!("{tk2:?}") && res_img(&p) == res_img(&p2) && res_img(&pa) == res_img(&pa2) && res_img(&pe) == res_img(&pe2);
    let detail = if total && det { String::new() } else {
        format!("input {:?} (len {}): tokenize_ok={tk_ok} tokens={} | parse={} | parse_all={} | parse_expr={} | second run: parse={} parse_all={} parse_expr={}",
                s, s.len(), short(&format!("{tk:?}")), short(&res_img(&p)), short(&res_img(&pa)), short(&res_img(&pe)),
                short(&res_img(&p2)), short(&res_img(&pa2)), short(&res_img(&pe2)))
    };
    (total, det, detail)
}

fn check_total(rep: &mut Report, s: &str) {
    let (total, det, detail) = eval_total(s);
    rep.eval(!s.is_empty());
    let case = || json!({"input": s});
    rep.check("C15.total.bytes", total, &case, &|| detail.clone());
    rep.check("C15.determinism", det, &case, &|| detail.clone());
}

fn all_strings(maxlen: usize, f: &mut dyn FnMut(&str)) {
    fn rec(cur: &mut String, left: usize, f: &mut dyn FnMut(&str)) {
        f(cur);
        if left == 0 { return; }
        for c in ALPHA { cur.push(c); rec(cur, left - 1, f); cur.pop(); }
    }
    let mut cur = String::new();
    rec(&mut cur, maxlen, f);
}

// ---------------------------------------------------------------------------------------------
// C15.depth.guard
// ---------------------------------------------------------------------------------------------

/// Expression-shaped nesting families (usable with parse_expr and after "SELECT ").
const EXPR_FAMILIES: [&str; 13] = ["paren", "not", "neg", "neg_raw", "bitnot", "bang", "right_bin", "bracket", "call", "like", "case", "in_list", "between"];
/// Statement-shaped nesting families (parse / parse_all only).
const STMT_FAMILIES: [&str; 3] = ["from_subquery", "in_subquery", "exists_subquery"];
const ENTRIES: [&str; 4] = ["parse_expr", "parse_select", "parse_all_select", "parse_where"];
const INPROC_MAX: usize = 200;

fn depth_input(family: &str, n: usize) -> Option<String> {
    Some(match family {
        "paren" => format!("{}1{}", "(".repeat(n), ")".repeat(n)),
        "not" => format!("{}1", "NOT ".repeat(n)),
        "neg" => format!("{}1", "- ".repeat(n)),
        "neg_raw" => format!("{}1", "-".repeat(n)),
        "bitnot" => format!("{}1", "~".repeat(n)),
        "bang" => format!("{}1", "!".repeat(n)),
        "right_bin" => format!("1{}{}", "+(1".repeat(n), ")".repeat(n)),
        "bracket" => format!("{}{}", "[".repeat(n), "]".repeat(n)),
        "call" => format!("{}1{}", "f(".repeat(n), ")".repeat(n)),
        "like" => format!("a{}", " LIKE a".repeat(n)),
        "case" => format!("{}1{}", "CASE WHEN ".repeat(n), " THEN 1 END".repeat(n)),
        "in_list" => format!("{}1{}", "a IN (".repeat(n), ")".repeat(n)),
        "between" => format!("a{}", " BETWEEN a".repeat(n)),
        "flat_add" => format!("1{}", "+1".repeat(n)),
        "from_subquery" => format!("{}SELECT 1{}", "SELECT * FROM (".repeat(n), ")".repeat(n)),
        "in_subquery" => format!("{}SELECT 1{}", "SELECT 1 WHERE a IN (".repeat(n), ")".repeat(n)),
        "exists_subquery" => format!("{}SELECT 1{}", "SELECT 1 WHERE EXISTS (".repeat(n), ")".repeat(n)),
        _ => return None,
    })
}

fn depth_text(family: &str, entry: &str, n: usize) -> Option<String> {
    let body = depth_input(family, n)?;
    let stmt_family = STMT_FAMILIES.contains(&family);
    Some(match (entry, stmt_family) {
        ("parse_expr", false) => body,
        ("parse_select" | "parse_all_select", false) => format!("SELECT {body}"),
        ("parse_where", false) => format!("SELECT * FROM t WHERE {body}"),
        ("parse_select" | "parse_all_select", true) => body,
        _ => return None,
    })
}

/// Runs one sweep point in a spawned thread with the default stack size, in THIS process.
fn depth_direct(family: &str, entry: &str, n: usize) -> Result<String, String> {
    let text = depth_text(family, entry, n).ok_or_else(|| format!("unknown family/entry {family}/{entry}"))?;
    let len = text.len();
    let entry_s = entry.to_string();
    let t0 = std::time::Instant::now();
    let h = std::thread::Builder::new().name("c15-depth".into()).spawn(move || -> (bool, String) {
        let img = |r: Result<(), ParseError>| -> (bool, String) {
            match r {
                Ok(()) => (true, "Ok".into()),
                Err(e) => (span_inside(e.span, &text), format!("Err({}) span {}..{} of {}", match e.kind { ParseErrorKind::TooDeep => "TooDeep".to_string(), k => short(&format!("{k:?}")) }, e.span.start.0, e.span.end.0, text.len())),
            }
        };
        match entry_s.as_str() {
            "parse_expr" => img(parse_expr(&text).map(drop)),
            "parse_all_select" => img(parse_all(&text).map(drop)),
            _ => img(parse(&text).map(drop)),
        }
    }).map_err(|e| format!("spawn: {e}"))?;
    let r = h.join();
    let el = t0.elapsed();
    match r {
        Ok((ok, img)) => {
            let msg = format!("{family}/{entry} n={n} ({len} bytes): {img} in {el:?}");
            if ok && el.as_secs() < 30 { Ok(msg) } else { Err(msg) }
        },
        Err(_) => Err(format!("{family}/{entry} n={n} ({len} bytes): parser thread panicked")),
    }
}

/// Sweep point evaluation that survives a stack overflow of the code under test.
fn depth_eval(family: &str, entry: &str, n: usize) -> Result<String, String> {
    if n <= INPROC_MAX { return depth_direct(family, entry, n); }
    let exe = std::env::current_exe().map_err(|e| format!("current_exe: {e}"))?;
    let case = json!({"family": family, "entry": entry, "n": n, "direct": true});
    let out = std::process::Command::new(exe).args(["replay", "c15_parser", "C15.depth.guard", &case.to_string()])
        .stdin(std::process::Stdio::null()).output().map_err(|e| format!("cannot spawn child: {e}"))?;
    let stdout = String::from_utf8_lossy(&out.stdout).trim().to_string();
    let stderr = String::from_utf8_lossy(&out.stderr).trim().replace('\n', " | ");
    match out.status.code() {
        Some(0) => Ok(stdout.trim_start_matches("HOLDS: ").to_string()),
        Some(1) => Err(stdout.trim_start_matches("FAILS: ").to_string()),
        Some(c) => Err(format!("{family}/{entry} n={n}: child exit code {c}: {stdout} {stderr}")),
        None => {
            use std::os::unix::process::ExitStatusExt;
            Err(format!("{family}/{entry} n={n} ({} bytes): the process was KILLED by signal {:?} while parsing in a default-stack thread (stack exhausted); stderr: {}",
                        depth_text(family, entry, n).map_or(0, |t| t.len()), out.status.signal(), short(&stderr)))
        },
    }
}

fn check_depth(rep: &mut Report, family: &str, entry: &str, n: usize) {
    if depth_text(family, entry, n).is_none() { return; }
    let r = depth_eval(family, entry, n);
    rep.eval(n > 64);
    rep.check("C15.depth.guard", r.is_ok(), &|| json!({"family": family, "entry": entry, "n": n}), &|| r.clone().err().unwrap_or_default());
    if n == 100_000 && family == "paren" { rep.sample(json!({"family": family, "entry": entry, "n": n, "result": r.clone().unwrap_or_else(|e| e)})); }
}

// ---------------------------------------------------------------------------------------------
// C15.precedence.*
// ---------------------------------------------------------------------------------------------

const BINOPS: [BinaryOp; 19] = [
    BinaryOp::Or, BinaryOp::And, BinaryOp::Eq, BinaryOp::Ne, BinaryOp::Lt, BinaryOp::Le, BinaryOp::Gt, BinaryOp::Ge, BinaryOp::BitOr, BinaryOp::BitXor,
    BinaryOp::BitAnd, BinaryOp::Shl, BinaryOp::Shr, BinaryOp::Add, BinaryOp::Sub, BinaryOp::Concat, BinaryOp::Mul, BinaryOp::Div, BinaryOp::Mod,
];
/// one operator per documented precedence level (thorough, height 4)
const LEVEL_REPS: [BinaryOp; 9] = [BinaryOp::Or, BinaryOp::And, BinaryOp::Lt, BinaryOp::BitOr, BinaryOp::BitXor, BinaryOp::BitAnd, BinaryOp::Shr, BinaryOp::Sub, BinaryOp::Div];
const UNOPS: [UnaryOp; 3] = [UnaryOp::Not, UnaryOp::Neg, UnaryOp::BitNot];

/// The documented table (expr.rs header lines 7-18 and the book's "Binding Power Table"), transcribed once.
fn doc_level(op: BinaryOp) -> u8 {
    match op {
        BinaryOp::Or => 1,
        BinaryOp::And => 2,
        BinaryOp::Eq | BinaryOp::Ne | BinaryOp::Lt | BinaryOp::Le | BinaryOp::Gt | BinaryOp::Ge => 3,
        BinaryOp::BitOr => 4,
        BinaryOp::BitXor => 5,
        BinaryOp::BitAnd => 6,
        BinaryOp::Shl | BinaryOp::Shr => 7,
        BinaryOp::Add | BinaryOp::Sub | BinaryOp::Concat => 8,
        BinaryOp::Mul | BinaryOp::Div | BinaryOp::Mod => 9,
    }
}

fn bin_lexeme(op: BinaryOp) -> &'static str {
    match op {
        BinaryOp::Add => "+", BinaryOp::Sub => "-", BinaryOp::Mul => "*", BinaryOp::Div => "/", BinaryOp::Mod => "%", BinaryOp::Eq => "=",
        BinaryOp::Ne => "!=", BinaryOp::Lt => "<", BinaryOp::Le => "<=", BinaryOp::Gt => ">", BinaryOp::Ge => ">=", BinaryOp::And => "AND",
        BinaryOp::Or => "OR", BinaryOp::Concat => "||", BinaryOp::BitAnd => "&", BinaryOp::BitOr => "|", BinaryOp::BitXor => "^",
        BinaryOp::Shl => "<<", BinaryOp::Shr => ">>",
    }
}
fn un_lexeme(op: UnaryOp) -> &'static str { match op { UnaryOp::Not => "NOT", UnaryOp::Neg => "-", UnaryOp::BitNot => "~" } }
fn bin_from_name(s: &str) -> Option<BinaryOp> { BINOPS.iter().copied().find(|o| format!("{o:?}") == s) }
fn un_from_name(s: &str) -> Option<UnaryOp> { UNOPS.iter().copied().find(|o| format!("{o:?}") == s) }

#[derive(Clone, PartialEq, Debug)]
enum T { Leaf(String), Un(UnaryOp, Box<T>), Bin(Box<T>, BinaryOp, Box<T>), Other(String) }

fn leaf_name(i: usize) -> String {
    const N: [&str; 8] = ["a", "b", "c", "d", "e2", "f", "g", "h"];
    if i < 8 { N[i].to_string() } else { format!("v{i}") }
}

/// Gives the leaves the names a, b, c, d, ... in left-to-right order.
fn label(t: &T, k: &mut usize) -> T {
    match t {
        T::Leaf(_) => { let r = T::Leaf(leaf_name(*k)); *k += 1; r },
        T::Un(o, x) => T::Un(*o, Box::new(label(x, k))),
        T::Bin(l, o, r) => { let l2 = label(l, k); let r2 = label(r, k); T::Bin(Box::new(l2), *o, Box::new(r2)) },
        T::Other(s) => T::Other(s.clone()),
    }
}

fn print_min(t: &T, out: &mut String) {
    match t {
        T::Leaf(n) | T::Other(n) => out.push_str(n),
        T::Un(o, x) => {
            out.push_str(un_lexeme(*o));
            out.push(' ');
            if matches!(**x, T::Bin(..)) { out.push('('); print_min(x, out); out.push(')'); } else { print_min(x, out); }
        },
        T::Bin(l, o, r) => {
            let lv = doc_level(*o);
            // left-associative: the left operand needs parentheses only if it binds strictly weaker
            let lp = matches!(**l, T::Bin(_, lo, _) if doc_level(lo) < lv);
            // ... the right operand also when it binds equally
            let rp = matches!(**r, T::Bin(_, ro, _) if doc_level(ro) <= lv);
            if lp { out.push('('); } print_min(l, out); if lp { out.push(')'); }
            out.push(' '); out.push_str(bin_lexeme(*o)); out.push(' ');
            if rp { out.push('('); } print_min(r, out); if rp { out.push(')'); }
        },
    }
}

fn print_full(t: &T, out: &mut String) {
    match t {
        T::Leaf(n) | T::Other(n) => out.push_str(n),
        T::Un(o, x) => { out.push('('); out.push_str(un_lexeme(*o)); out.push(' '); print_full(x, out); out.push(')'); },
        T::Bin(l, o, r) => { out.push('('); print_full(l, out); out.push(' '); out.push_str(bin_lexeme(*o)); out.push(' '); print_full(r, out); out.push(')'); },
    }
}

fn strip(e: &Expr) -> T {
    match &e.kind {
        ExprKind::Ident(i) => T::Leaf(i.name.clone()),
        ExprKind::Unary(o, x) => T::Un(*o, Box::new(strip(x))),
        ExprKind::Binary(l, o, r) => T::Bin(Box::new(strip(l)), *o, Box::new(strip(r))),
        k => T::Other(short(&format!("{k:?}"))),
    }
}

fn tree_json(t: &T) -> Value {
    match t {
        T::Leaf(n) => json!(n),
        T::Other(n) => json!({"other": n}),
        T::Un(o, x) => json!([format!("{o:?}"), tree_json(x)]),
        T::Bin(l, o, r) => json!([tree_json(l), format!("{o:?}"), tree_json(r)]),
    }
}

fn tree_from_json(v: &Value) -> Option<T> {
    match v {
        Value::String(s) => Some(T::Leaf(s.clone())),
        Value::Array(a) if a.len() == 2 => Some(T::Un(un_from_name(a[0].as_str()?)?, Box::new(tree_from_json(&a[1])?))),
        Value::Array(a) if a.len() == 3 => Some(T::Bin(Box::new(tree_from_json(&a[0])?), bin_from_name(a[1].as_str()?)?, Box::new(tree_from_json(&a[2])?))),
        _ => None,
    }
}

fn via_expr(text: &str) -> Result<T, String> {
    match no_panic(|| parse_expr(text)) {
        Ok(Ok(e)) => Ok(strip(&e)),
        Ok(Err(e)) => Err(format!("parse_expr error: {e}")),
        Err(p) => Err(format!("parse_expr PANIC: {p}")),
    }
}

fn via_stmt(text: &str) -> Result<T, String> {
    let q = format!("SELECT {text}");
    match no_panic(|| parse(&q)) {
        Ok(Ok(st)) => match st.kind {
            StatementKind::Select(sel) if sel.columns.len() == 1 && sel.columns[0].alias.is_none() && sel.from.is_none() && sel.where_clause.is_none() => Ok(strip(&sel.columns[0].expr)),
            k => Err(format!("parse({q:?}) is not a one-column SELECT: {}", short(&format!("{k:?}")))),
        },
        Ok(Err(e)) => Err(format!("parse error: {e}")),
        Err(p) => Err(format!("parse PANIC: {p}")),
    }
}

/// Err(detail) = the obligation fails for this (labelled) tree.
fn prec_eval(t: &T, stmt: bool) -> Result<(), String> {
    let mut m = String::new();
    print_min(t, &mut m);
    let mut f = String::new();
    print_full(t, &mut f);
    let go = |txt: &str| if stmt { via_stmt(txt) } else { via_expr(txt) };
    let a = go(&m);
    if a.as_ref() != Ok(t) {
        return Err(format!("minimal print {m:?} parses to {} but the documented table dictates {}", a.map_or_else(|e| e, |x| tree_json(&x).to_string()), tree_json(t)));
    }
    let b = go(&f);
    if b.as_ref() != Ok(t) {
        return Err(format!("fully parenthesised print {f:?} parses to {} instead of {}", b.map_or_else(|e| e, |x| tree_json(&x).to_string()), tree_json(t)));
    }
    Ok(())
}

fn check_tree(rep: &mut Report, shape: &T, with_stmt: bool) {
    let mut k = 0;
    let t = label(shape, &mut k);
    rep.eval(matches!(t, T::Bin(..) | T::Un(..)));
    let r = prec_eval(&t, false);
    rep.check("C15.precedence.trees", r.is_ok(), &|| json!({"tree": tree_json(&t)}), &|| r.clone().err().unwrap_or_default());
    if with_stmt {
        rep.eval(matches!(t, T::Bin(..) | T::Un(..)));
        let r = prec_eval(&t, true);
        rep.check("C15.precedence.stmt", r.is_ok(), &|| json!({"tree": tree_json(&t)}), &|| r.clone().err().unwrap_or_default());
    }
}

/// all tree shapes of height <= h (leaf = height 1) over the given operators
fn shapes(h: usize, bins: &[BinaryOp], uns: &[UnaryOp]) -> Vec<T> {
    let mut cur = vec![T::Leaf(String::new())];
    for _ in 1..h {
        let mut next = vec![T::Leaf(String::new())];
        for x in &cur { for u in uns { next.push(T::Un(*u, Box::new(x.clone()))); } }
        for l in &cur { for r in &cur { for o in bins { next.push(T::Bin(Box::new(l.clone()), *o, Box::new(r.clone()))); } } }
        cur = next;
    }
    cur
}

fn random_tree(rng: &mut Rng, h: usize) -> T {
    if h <= 1 || rng.below(6) == 0 { return T::Leaf(String::new()); }
    if rng.below(5) == 0 { return T::Un(UNOPS[rng.below(3) as usize], Box::new(random_tree(rng, h - 1))); }
    let l = random_tree(rng, h - 1);
    let r = random_tree(rng, h - 1);
    T::Bin(Box::new(l), BINOPS[rng.below(19) as usize], Box::new(r))
}

/// (lexeme, expected operator) incl. alternative spellings
fn op_mapping_eval(lex: &str, op: &str) -> Result<(), String> {
    if let Some(b) = bin_from_name(op) {
        let want = T::Bin(Box::new(T::Leaf("a".into())), b, Box::new(T::Leaf("b".into())));
        for stmt in [false, true] {
            let txt = format!("a {lex} b");
            let got = if stmt { via_stmt(&txt) } else { via_expr(&txt) };
            if got.as_ref() != Ok(&want) { return Err(format!("{txt:?} (stmt={stmt}) parses to {got:?}, expected {want:?}")); }
        }
        if b.precedence() != doc_level(b) || !b.is_left_assoc() { return Err(format!("BinaryOp::{b:?}.precedence() = {} (documented level {}), is_left_assoc = {}", b.precedence(), doc_level(b), b.is_left_assoc())); }
        if format!("{b}") != bin_lexeme(b) { return Err(format!("Display of {b:?} is {:?}, documented lexeme {:?}", format!("{b}"), bin_lexeme(b))); }
        Ok(())
    } else if let Some(u) = un_from_name(op) {
        let want = T::Un(u, Box::new(T::Leaf("a".into())));
        for stmt in [false, true] {
            let txt = format!("{lex} a");
            let got = if stmt { via_stmt(&txt) } else { via_expr(&txt) };
            if got.as_ref() != Ok(&want) { return Err(format!("{txt:?} (stmt={stmt}) parses to {got:?}, expected {want:?}")); }
        }
        Ok(())
    } else { Err(format!("unknown operator name {op}")) }
}

// ---------------------------------------------------------------------------------------------
// C15.text.equiv
// ---------------------------------------------------------------------------------------------
mod equiv {
    use crate::fw::no_panic;
    use query_router::{QueryResult, QueryRouter};
    use relational_engine::{Column, ColumnType, Condition, Row, Schema, Value as RV};
    use std::collections::HashMap;

    /// (family, entries): `execute` is the entry point the gRPC server calls; `execute_parsed` the AST path.
    pub const FAMILIES: [(&str, &[&str]); 7] = [
        ("select_where", &["execute_parsed", "execute"]),
        ("update", &["execute_parsed", "execute"]),
        ("delete", &["execute_parsed"]),
        ("insert", &["execute_parsed"]),
        ("create", &["execute_parsed"]),
        ("node_edge", &["execute_parsed"]),
        ("embed", &["execute_parsed"]),
    ];

    fn rows_img(rows: &[Row]) -> String {
        let mut v: Vec<String> = rows.iter().map(|row| {
            let mut kv: Vec<String> = row.values.iter().map(|(k, v)| format!("{k}={v:?}")).collect();
            kv.sort();
            format!("#{}:{}", row.id, kv.join(","))
        }).collect();
        v.sort();
        format!("{v:?}")
    }

    /// whole observable view of the three engines
    fn state_img(r: &QueryRouter) -> String {
        let mut tables = r.relational().list_tables();
        tables.sort();
        let t: Vec<String> = tables.iter().map(|t| format!("{t}{:?}:{}", r.relational().get_schema(t).map(|s| s.columns.iter().map(|c| format!("{}:{:?}:{}", c.name, c.column_type, c.nullable)).collect::<Vec<_>>()).ok(),
            r.relational().select(t, Condition::True).map_or_else(|e| format!("ERR {e}"), |rows| rows_img(&rows)))).collect();
        let mut keys = r.vector().list_keys();
        keys.sort();
        let e: Vec<String> = keys.iter().map(|k| format!("{k}={:?}", r.vector().get_embedding(k).ok())).collect();
        format!("tables={t:?} graph_nodes={} graph_edges={} embeddings={e:?}", r.graph().node_count(), r.graph().edge_count())
    }

    /// identical pre-state on both routers, built with direct engine calls only
    pub fn seeded() -> Result<QueryRouter, String> {
        let r = QueryRouter::new();
        let schema = Schema::new(vec![Column::new("id", ColumnType::Int), Column::new("name", ColumnType::String), Column::new("age", ColumnType::Int)]);
        r.relational().create_table("t", schema).map_err(|e| e.to_string())?;
        for (id, name, age) in [(1, "ann", 30), (2, "bob", 17), (3, "cy", 45), (4, "di", 17)] {
            let mut m = HashMap::new();
            m.insert("id".to_string(), RV::Int(id));
            m.insert("name".to_string(), RV::String(name.to_string()));
            m.insert("age".to_string(), RV::Int(age));
            r.relational().insert("t", m).map_err(|e| e.to_string())?;
        }
        Ok(r)
    }

    /// WHERE text and the condition that the documented precedence (AND binds tighter than OR, parentheses group) dictates.
    fn conds(i: usize) -> Option<(&'static str, Condition)> {
        let n = |v: i64| RV::Int(v);
        let c = |s: &str| s.to_string();
        Some(match i {
            0 => ("age = 17", Condition::Eq(c("age"), n(17))),
            1 => ("age > 17 AND id < 3", Condition::Gt(c("age"), n(17)).and(Condition::Lt(c("id"), n(3)))),
            2 => ("id = 1 OR id = 2 AND age = 17", Condition::Eq(c("id"), n(1)).or(Condition::Eq(c("id"), n(2)).and(Condition::Eq(c("age"), n(17))))),
            3 => ("(id = 1 OR id = 3) AND age = 30", Condition::Eq(c("id"), n(1)).or(Condition::Eq(c("id"), n(3))).and(Condition::Eq(c("age"), n(30)))),
            4 => ("age >= 30", Condition::Ge(c("age"), n(30))),
            5 => ("age != 17", Condition::Ne(c("age"), n(17))),
            6 => ("age <= 17 OR id = 3", Condition::Le(c("age"), n(17)).or(Condition::Eq(c("id"), n(3)))),
            7 => ("name = 'bob'", Condition::Eq(c("name"), RV::String(c("bob")))),
            8 => ("age = 17 AND id = 2 OR id = 3", Condition::Eq(c("age"), n(17)).and(Condition::Eq(c("id"), n(2))).or(Condition::Eq(c("id"), n(3)))),
            9 => ("id = 1 OR (id = 2 AND age = 17)", Condition::Eq(c("id"), n(1)).or(Condition::Eq(c("id"), n(2)).and(Condition::Eq(c("age"), n(17))))),
            _ => return None,
        })
    }

    fn res_img(r: &Result<QueryResult, query_router::RouterError>) -> String {
        match r {
            Ok(QueryResult::Rows(rows)) => format!("Rows{}", rows_img(rows)),
            Ok(QueryResult::Count(n)) => format!("Count({n})"),
            Ok(QueryResult::Ids(v)) => format!("Ids({v:?})"),
            Ok(QueryResult::Empty) => "Empty".to_string(),
            Ok(o) => format!("{o:?}"),
            Err(e) => format!("ERR {e}"),
        }
    }

    pub fn run_text(r: &QueryRouter, entry: &str, q: &str) -> Result<Result<QueryResult, query_router::RouterError>, String> {
        let rr = std::panic::AssertUnwindSafe(r);
        no_panic(move || if entry == "execute" { rr.execute(q) } else { rr.execute_parsed(q) })
    }

    /// None = no such case; Some(Err) = the text path and the direct path differ.
    pub fn eval(family: &str, i: usize, entry: &str) -> Option<Result<String, String>> {
        let Some((_, entries)) = FAMILIES.iter().find(|(f, _)| *f == family) else { return None; };
        if !entries.contains(&entry) { return None; }
        let n_cases = match family { "select_where" | "update" | "delete" => 10, _ => 1 };
        if i >= n_cases { return None; }
        Some((|| {
            let a = seeded()?;
            let b = seeded()?;
            let text = |q: &str| -> String { match run_text(&a, entry, q) { Ok(r) => res_img(&r), Err(p) => format!("PANIC {p}") } };
            let (what, ra, rb): (String, String, String) = match family {
                "select_where" => {
                    let (txt, cond) = conds(i).ok_or("cond")?;
                    let q = format!("SELECT * FROM t WHERE {txt}");
                    let ra = text(&q);
                    let rb = b.relational().select("t", cond).map_or_else(|e| format!("ERR {e}"), |rows| format!("Rows{}", rows_img(&rows)));
                    (q, ra, rb)
                },
                "update" => {
                    let (txt, cond) = conds(i).ok_or("cond")?;
                    let q = format!("UPDATE t SET age = 99 WHERE {txt}");
                    let ra = text(&q);
                    let mut set = HashMap::new();
                    set.insert("age".to_string(), RV::Int(99));
                    let rb = b.relational().update("t", cond, set).map_or_else(|e| format!("ERR {e}"), |n| format!("Count({n})"));
                    (q, ra, rb)
                },
                "delete" => {
                    let (txt, cond) = conds(i).ok_or("cond")?;
                    let q = format!("DELETE FROM t WHERE {txt}");
                    let ra = text(&q);
                    let rb = b.relational().delete_rows("t", cond).map_or_else(|e| format!("ERR {e}"), |n| format!("Count({n})"));
                    (q, ra, rb)
                },
                "insert" => {
                    let q = "INSERT INTO t (id, name, age) VALUES (5, 'eve', 22)".to_string();
                    let ra = text(&q);
                    let mut m = HashMap::new();
                    m.insert("id".to_string(), RV::Int(5));
                    m.insert("name".to_string(), RV::String("eve".into()));
                    m.insert("age".to_string(), RV::Int(22));
                    let rb = b.relational().insert("t", m).map_or_else(|e| format!("ERR {e}"), |id| format!("Ids({:?})", vec![id]));
                    (q, ra, rb)
                },
                "create" => {
                    let q = "CREATE TABLE u (id INT, name TEXT)".to_string();
                    let ra = text(&q);
                    let rb = b.relational().create_table("u", Schema::new(vec![Column::new("id", ColumnType::Int).nullable(), Column::new("name", ColumnType::String).nullable()])).map_or_else(|e| format!("ERR {e}"), |()| "Empty".to_string());
                    (q, ra, rb)
                },
                "node_edge" => {
                    let r1 = text("NODE CREATE person {name: 'ann'}");
                    let r2 = text("NODE CREATE person {name: 'bob'}");
                    let mut p1 = HashMap::new(); p1.insert("name".to_string(), graph_engine::PropertyValue::String("ann".into()));
                    let mut p2 = HashMap::new(); p2.insert("name".to_string(), graph_engine::PropertyValue::String("bob".into()));
                    let d1 = b.graph().create_node("person", p1).map_err(|e| e.to_string())?;
                    let d2 = b.graph().create_node("person", p2).map_err(|e| e.to_string())?;
                    let r3 = text(&format!("EDGE CREATE {d1} -> {d2} : knows"));
                    let e = b.graph().create_edge(d1, d2, "knows", HashMap::new(), true).map_err(|e| e.to_string())?;
                    let view = |r: &QueryRouter| -> String {
                        format!("{:?} {:?} out={:?} in={:?}",
                            r.graph().get_node(d1).map(|n| (n.labels, n.properties.into_iter().collect::<std::collections::BTreeMap<_, _>>())).map_err(|e| e.to_string()),
                            r.graph().get_node(d2).map(|n| (n.labels, n.properties.into_iter().collect::<std::collections::BTreeMap<_, _>>())).map_err(|e| e.to_string()),
                            r.graph().neighbors(d1, Some("knows"), graph_engine::Direction::Outgoing, None).map(|v| v.iter().map(|n| n.id).collect::<Vec<_>>()).map_err(|e| e.to_string()),
                            r.graph().neighbors(d1, Some("knows"), graph_engine::Direction::Incoming, None).map(|v| v.iter().map(|n| n.id).collect::<Vec<_>>()).map_err(|e| e.to_string()))
                    };
                    ("NODE CREATE x2 + EDGE CREATE".to_string(), format!("{r1} {r2} {r3} {}", view(&a)), format!("Ids([{d1}]) Ids([{d2}]) Ids([{e}]) {}", view(&b)))
                },
                "embed" => {
                    let r1 = text("EMBED STORE 'k1' [1.0, 0.0, 0.5]");
                    let r2 = text("EMBED STORE 'k2' [0.0, 1.0, 0.25]");
                    b.vector().store_embedding("k1", vec![1.0, 0.0, 0.5]).map_err(|e| e.to_string())?;
                    b.vector().store_embedding("k2", vec![0.0, 1.0, 0.25]).map_err(|e| e.to_string())?;
                    ("EMBED STORE x2".to_string(), format!("{r1} {r2}"), "Empty Empty".to_string())
                },
                _ => return Err("family".into()),
            };
            let (sa, sb) = (state_img(&a), state_img(&b));
            if ra == rb && sa == sb { Ok(format!("{entry}({what:?}): same result and same engine state as the direct call")) }
            else { Err(format!("{entry}({what:?}) => {ra}; direct engine call dictated by the documented grammar/precedence => {rb}; state after text: {sa}; state after direct: {sb}")) }
        })())
    }

    /// C15.total.execute: text execution never panics. Err = panic message.
    pub fn total_eval(entry: &str, q: &str) -> Result<String, String> {
        let r = seeded()?;
        match run_text(&r, entry, q) {
            Ok(res) => Ok(format!("{entry}({q:?}) => {}", super::short(&res_img(&res)))),
            Err(p) => Err(format!("{entry}({q:?}) PANICKED: {p}")),
        }
    }
}

// ---------------------------------------------------------------------------------------------

const OBS: [(&str, &str); 9] = [
    ("C15.total.execute", "QueryRouter::{execute,execute_parsed}"),
    ("C15.total.bytes", "neumann_parser::{tokenize,parse,parse_all,parse_expr}"),
    ("C15.determinism", "neumann_parser::{tokenize,parse,parse_all,parse_expr}"),
    ("C15.depth.guard", "ExprParser::parse_expr_bp / Parser::parse_expr_bp"),
    ("C15.precedence.trees", "neumann_parser::parse_expr"),
    ("C15.precedence.stmt", "neumann_parser::parse (Parser::parse_expr_bp)"),
    ("C15.op.mapping", "current_binary_op / BinaryOp::precedence"),
    ("C15.text.equiv", "QueryRouter::execute"),
    ("C15.depth.flat", "parse / parse_expr on flat operator chains <= 4 KB"),
];

const OP_LEXEMES: [(&str, &str); 25] = [
    ("+", "Add"), ("-", "Sub"), ("*", "Mul"), ("/", "Div"), ("%", "Mod"), ("=", "Eq"), ("!=", "Ne"), ("<>", "Ne"), ("<", "Lt"), ("<=", "Le"), (">", "Gt"),
    (">=", "Ge"), ("AND", "And"), ("and", "And"), ("OR", "Or"), ("||", "Concat"), ("&", "BitAnd"), ("|", "BitOr"), ("^", "BitXor"), ("<<", "Shl"), (">>", "Shr"),
    ("NOT", "Not"), ("!", "Not"), ("-", "Neg"), ("~", "BitNot"),
];

pub fn run(tier: Tier, seed: u64) -> Report {
    let thorough = tier == Tier::Thorough;
    let maxlen = if thorough { 4 } else { 3 };
    let mut rep = Report::new("c15_parser",
        &format!("total/determinism: all strings of <= {maxlen} symbols over a 40-symbol alphabet (letters a S E, digits, blank, newline, both quotes, backslash, brackets, punctuation, all operator characters, e-acute, NUL) + 48 statement/clause keyword prefixes x all strings of <= 2 symbols{}; depth: 16 nesting families x 4 entry points (parse_expr, parse/parse_all of SELECT e, parse of SELECT..WHERE e) x n in {{1,2,63,64,65,66,200 in-process; 1000,10000,100000 in a child process}}, flat chains n in {{100,2000}}; precedence: all 10121 trees of height <= 3 over 19 binary + 3 unary operators, minimal and full parentheses, via parse_expr and via parse(\"SELECT e\"){}; 25 operator lexemes; text.equiv: 7 statement families (10 WHERE shapes for SELECT/UPDATE/DELETE) through execute_parsed and, where the text is valid in both languages, through execute = 54 statements against the direct engine call; total.execute: 6 statement prefixes x all strings of <= 3 symbols over {{a,1,blank,=,quote,' AND ',' OR ',dotless-i,e-acute,fi-ligature}} = 6666 texts",
                 if thorough { " + 20000 seeded keyword-soup strings up to 4 KB (not exhaustive)" } else { "" },
                 if thorough { "; height 4 over one operator per precedence level + unary minus (10.9 M trees, parse_expr, exhaustive) + 20000 seeded random trees of height <= 8 over all operators (not exhaustive)" } else { "" }),
        true, &["neumann_parser::tokenize", "parse", "parse_all", "parse_expr", "query_router::QueryRouter::execute"]);
    for (o, f) in OBS { rep.declare(o, f); }
    for n in 0..8 { assert!(matches!(via_expr(&leaf_name(n)), Ok(T::Leaf(_))), "leaf name is not a plain identifier"); }

    // --- total / determinism
    {
        let mut f = |s: &str| check_total(&mut rep, s);
        all_strings(maxlen, &mut f);
        let mut tails: Vec<String> = vec![];
        all_strings(2, &mut |s| tails.push(s.to_string()));
        for p in PREFIXES { for t in &tails { f(&format!("{p} {t}")); if !t.is_empty() { f(&format!("{p}{t}")); } } }
        for s in ["SELECT * FROM users WHERE id = 1", "SELECT 1; SELECT 2", "/* /* */", "/*", "--", "'\\", "\"\\", "1e", "1e+", "1.", "99999999999999999999", "1e999", "a.*", "(1).*", "a.", "\u{e9}\u{e9}", "'\u{e9}", "CASE", "CASE WHEN", "a IS", "a IS NOT", "a NOT", "a BETWEEN 1", "a BETWEEN 1 AND", "EXISTS", "EXISTS (", "CAST(1 AS", "SELECT CAST(1 AS"] { f(s); }
    }
    rep.sample(json!({"input": "'\\"}));
    if thorough {
        let words = ["SELECT", "FROM", "WHERE", "AND", "OR", "NOT", "IN", "BETWEEN", "LIKE", "IS", "NULL", "CASE", "WHEN", "THEN", "ELSE", "END", "EXISTS", "CAST", "AS", "INSERT", "INTO", "VALUES", "UPDATE", "SET", "DELETE", "CREATE", "TABLE", "NODE", "EDGE", "EMBED", "SIMILAR", "FIND", "ENTITY", "JOIN", "ON", "GROUP", "BY", "ORDER", "LIMIT", "(", ")", "[", "]", "{", "}", ",", ";", ".", ":", "*", "=", "<", ">", "!", "+", "-", "/", "%", "|", "&", "^", "~", "'", "\"", "\\", "a", "t", "1", "2.5", "'s'", "\u{e9}", "\0", "->", "--", "/*", "*/"];
        let mut rng = Rng(seed ^ 0xC15);
        for _ in 0..20000 {
            let cap = if rng.below(10) == 0 { 900 } else { 40 };
            let n = rng.below(cap) as usize;
            let mut s = String::new();
            for _ in 0..n { s.push_str(words[rng.below(words.len() as u64) as usize]); if rng.below(4) != 0 { s.push(' '); } if s.len() > 4096 { break; } }
            check_total(&mut rep, &s);
        }
    }

    // --- depth guard
    for fam in EXPR_FAMILIES.iter().chain(STMT_FAMILIES.iter()) {
        for entry in ENTRIES {
            for n in [1usize, 2, 63, 64, 65, 66, 200, 1000, 10_000, 100_000] { check_depth(&mut rep, fam, entry, n); }
        }
    }
    for entry in ["parse_expr", "parse_select"] {
        for n in [100usize, 2000] {
            let r = depth_eval("flat_add", entry, n);
            rep.eval(true);
            rep.check("C15.depth.flat", r.is_ok(), &|| json!({"family": "flat_add", "entry": entry, "n": n}), &|| r.clone().err().unwrap_or_default());
        }
    }

    // --- precedence
    let s3 = shapes(3, &BINOPS, &UNOPS);
    for t in &s3 { check_tree(&mut rep, t, true); }
    rep.sample(json!({"tree": [["a", "Or", "b"], "And", ["Neg", "c"]], "minimal": "(a OR b) AND - c"}));
    for (lex, op) in OP_LEXEMES {
        let r = op_mapping_eval(lex, op);
        rep.eval(true);
        rep.check("C15.op.mapping", r.is_ok(), &|| json!({"lexeme": lex, "op": op}), &|| r.clone().err().unwrap_or_default());
    }
    if thorough {
        let r3 = shapes(3, &LEVEL_REPS, &[UnaryOp::Neg]);
        for x in &r3 { check_tree(&mut rep, &T::Un(UnaryOp::Neg, Box::new(x.clone())), false); }
        for l in &r3 { for r in &r3 { for o in LEVEL_REPS { check_tree(&mut rep, &T::Bin(Box::new(l.clone()), o, Box::new(r.clone())), false); } } }
        let mut rng = Rng(seed ^ 0xC15_7EE);
        for _ in 0..20000 { let t = random_tree(&mut rng, 8); check_tree(&mut rep, &t, true); }
    }

    // --- text equivalence
    for (fam, entries) in equiv::FAMILIES {
        for entry in entries {
            let mut i = 0;
            while let Some(r) = equiv::eval(fam, i, entry) {
                rep.eval(true);
                rep.check("C15.text.equiv", r.is_ok(), &|| json!({"family": fam, "i": i, "entry": entry}), &|| r.clone().err().unwrap_or_default());
                i += 1;
            }
        }
    }
    // --- text execution is total (no panic) on WHERE-clause soup incl. characters whose upper-case form has another byte length
    {
        const SYM: [&str; 10] = ["a", "1", " ", "=", "'", " AND ", " OR ", "\u{131}", "\u{e9}", "\u{fb01}"];
        let mut tails: Vec<String> = vec![String::new()];
        let mut layer: Vec<String> = vec![String::new()];
        for _ in 0..3 { let mut nx = vec![]; for t in &layer { for y in SYM { nx.push(format!("{t}{y}")); } } tails.extend(nx.iter().cloned()); layer = nx; }
        for (entry, pres) in [("execute_parsed", &["SELECT * FROM t WHERE ", "DELETE FROM t WHERE "][..]), ("execute", &["SELECT * FROM t WHERE ", "UPDATE t SET age = 1 WHERE ", "DELETE t WHERE ", "SELECT t WHERE "][..])] {
            for pre in pres {
                for t in &tails {
                    let q = format!("{pre}{t}");
                    let r = equiv::total_eval(entry, &q);
                    rep.eval(!t.is_empty());
                    rep.check("C15.total.execute", r.is_ok(), &|| json!({"entry": entry, "text": q}), &|| r.clone().err().unwrap_or_default());
                }
            }
        }
    }
    rep
}

pub fn replay(ob: &str, case: &Value) -> Result<String, String> {
    match ob {
        "C15.total.bytes" | "C15.determinism" => {
            let s = case["input"].as_str().ok_or("case.input missing")?;
            let (total, det, detail) = eval_total(s);
            let ok = if ob == "C15.determinism" { det } else { total };
            if ok { Ok(format!("{s:?}: no panic, spans inside the input, deterministic={det}")) } else { Err(detail) }
        },
        "C15.depth.guard" | "C15.depth.flat" => {
            let fam = case["family"].as_str().ok_or("case.family missing")?;
            let entry = case["entry"].as_str().ok_or("case.entry missing")?;
            let n = case["n"].as_u64().ok_or("case.n missing")? as usize;
            if case.get("direct").and_then(Value::as_bool) == Some(true) { depth_direct(fam, entry, n) } else { depth_eval(fam, entry, n) }
        },
        "C15.precedence.trees" | "C15.precedence.stmt" => {
            let t = tree_from_json(&case["tree"]).ok_or("case.tree malformed")?;
            prec_eval(&t, ob == "C15.precedence.stmt").map(|()| format!("{} round-trips", case["tree"]))
        },
        "C15.op.mapping" => op_mapping_eval(case["lexeme"].as_str().ok_or("lexeme")?, case["op"].as_str().ok_or("op")?).map(|()| "maps".to_string()),
        "C15.text.equiv" => equiv::eval(case["family"].as_str().ok_or("family")?, case["i"].as_u64().ok_or("i")? as usize, case["entry"].as_str().ok_or("entry")?).ok_or("no such case")?,
        "C15.total.execute" => equiv::total_eval(case["entry"].as_str().ok_or("entry")?, case["text"].as_str().ok_or("text")?),
        _ => Err(format!("unknown obligation {ob}")),
    }
}
