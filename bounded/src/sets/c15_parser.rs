//! C15 (bounded): parsing is total, deterministic, depth-guarded and precedence-correct.
//!
//! Functions under contract (public API of `neumann_parser`): `tokenize`, `parse`, `parse_all`, `parse_expr`.
//!
//! * C15.total.bytes   — every string of <= 3 (quick) / 4 (thorough) symbols over a 40-symbol alphabet, and
//!                        every statement keyword followed by every string of <= 2 symbols: none of the four
//!                        functions panics; an `Err` carries a span with `start <= end <= len` on char
//!                        boundaries; token spans are ordered, inside the input and end with `Eof`.
//! * C15.determinism   — the same input parsed twice gives the same result (Debug image), same domain.
//! * C15.depth.guard   — nesting sweeps (parens, unary chains, right-nested binaries, brackets, calls, LIKE,
//!                        CASE, IN lists, sub-queries) up to depth 100 000, each run in a thread with the default
//!                        stack size: the call returns `Ok` or an `Err` with a span inside the input.  A stack
//!                        overflow kills the whole process and cannot be caught, so every sweep point with
//!                        n > 200 is executed in a child process (`bounded replay c15_parser C15.depth.guard
//!                        {.., "direct": true}`) and "killed by a signal" is the failing outcome.
//! * C15.precedence.trees / C15.precedence.stmt — every expression tree of height <= 3 over all 19 binary and
//!                        3 unary operators (leaves a, b, c, d in left-to-right order), printed (i) with the
//!                        minimal parentheses dictated by the documented table (expr.rs:7-18 ==
//!                        docs/book/src/architecture/neumann-parser.md "Binding Power Table"; all binary
//!                        operators left-associative, unary tighter than every binary) and (ii) fully
//!                        parenthesised, parses back to exactly that tree — through `parse_expr` (.trees) and
//!                        through the statement parser `parse("SELECT <e>")` (.stmt), which has its own copy of
//!                        the Pratt loop.  Thorough: height 4 over one operator per precedence level, and seeded
//!                        random trees of height <= 8 over all operators.
//! * C15.op.mapping    — every operator lexeme (incl. `<>` and `!`) maps to its operator; `BinaryOp::precedence`
//!                        / `is_left_assoc` agree with the documented table.
//! * C15.depth.flat    — flat (non-nested) operator chains of <= 4 KB parse and are dropped without exhausting the stack.
//! * C15.text.equiv    — for 7 statement families, executing the text (`QueryRouter::execute_parsed`, and
//!                        `QueryRouter::execute` — the entry point the gRPC server calls — where the text is valid in
//!                        both) has the same result and leaves the same engine state (all tables with schema and rows,
//!                        graph counts, all embeddings) as the direct engine call that the documented grammar and
//!                        precedence dictate, performed on a second router with the identical pre-state.
//! * C15.total.execute — `QueryRouter::{execute, execute_parsed}` never panic on WHERE-clause soup (incl. characters
//!                        whose upper-case form has a different byte length).
//! * C15.precedence.postfix — the same "parenthesise the way the table dictates == same parse" clause over the WHOLE expression
//!                        grammar (`mod postfix`): the 19 binary and 3 unary operators plus every postfix / special form — IS [NOT]
//!                        NULL, [NOT] IN (0, 1, 2 elements), [NOT] IN (SELECT ..), [NOT] BETWEEN .. AND .., [NOT] LIKE, `x.name`,
//!                        function calls (0-2 arguments, aggregate keywords, DISTINCT, COUNT(*)), searched and simple CASE (with
//!                        ELSE), CAST(.. AS ..), EXISTS (..), array and tuple literals.  The oracle is the documented table
//!                        (expr.rs:7-18: level 11 "Postfix" binds tighter than level 10 unary and all binary levels), written down
//!                        in `postfix::level` and the operand-position rules of `postfix::pr`, NOT derived from the binding powers.
//!                        Every tree is printed (Min) with exactly the parentheses the table dictates (plus those at places where
//!                        the table is silent), (Full) with every operator application parenthesised and (Bare) without the
//!                        parentheses the table does not dictate (`a BETWEEN b + c AND d`, `a LIKE - b`, `a LIKE b IS NULL`).
//!                        Min and Full must parse to exactly the tree; Bare must parse to the tree (to a table-respecting
//!                        derivation of the same text where two level-11 forms meet) OR be rejected with a position inside the
//!                        input — never a different tree.  Each form goes through BOTH expression parsers, `parse_expr` (expr.rs)
//!                        and `parse("SELECT * FROM t WHERE <e>")` (parser.rs), which must agree (same tree, or same error class at
//!                        the same offset).  CAST / EXISTS / IN (SELECT) exist in the statement grammar only: for trees containing
//!                        them `parse_expr` may reject (position inside the input) and agreement is not required.
//!                        Domain: all trees of height <= 3 — every constructor (19 binary, 3 unary, 25 special forms) over every
//!                        height-2 operand (leaf, one binary operator per precedence level, 3 unary, 25 special forms; arity >= 3:
//!                        every pair of operand positions) = 60 543 trees.  Thorough: height 4 with one deep operand + 30 000 seeded
//!                        random trees of height <= 8 with literal leaves.
//! * C15.text.equiv.join_page — `mod page`: `execute_parsed("SELECT * FROM ta <join> tb ..")` for every join kind / spelling of the
//!                        grammar (JOIN, INNER, LEFT [OUTER], RIGHT [OUTER], FULL [OUTER], CROSS, NATURAL; ON same-named / differently
//!                        named columns, USING, table aliases) x every subset of {WHERE (left / right column), ORDER BY (ascending
//!                        unique key; descending where no key is NULL), LIMIT n, OFFSET m}, n, m in {0, 1, 2, size-1, size, size+1}:
//!                        exactly the rows, IN THE ORDER, of the direct `RelationalEngine::{join, left_join, right_join, full_join,
//!                        cross_join, natural_join}` call on a second router with the identical pre-state, filtered, sorted on the
//!                        unique key if ORDER BY is present (otherwise the engine's own order, which is deterministic), then
//!                        `.skip(m).take(n)`; the engine state is unchanged.  Plus plain `SELECT * FROM t` with the same grid
//!                        (4 ORDER BY shapes) through `execute_parsed`, and through `execute` for [WHERE] [LIMIT] (all its grammar has).
//! * C15.text.equiv.join_where / .order_nulls / .legacy_page — same machinery, clauses that the pinned tree violated (repaired by
//!                        fix: commits; legacy_page: an ORDER BY, which the legacy grammar lacks, may be refused but never answered differently) (kept apart so
//!                        that the grid above stays green): AND / OR / NOT / IS NULL in the WHERE clause of a join (SQL three-valued
//!                        logic on the missing side of outer joins); explicit NULLS FIRST / LAST with ASC and DESC on a nullable
//!                        column and on the missing side of a LEFT JOIN; OFFSET / ORDER BY through the legacy `execute` entry point.
//! * C15.text.equiv.graph_algo — `mod galgo`: the GRAPH statement families of the grammar (parser.rs `parse_graph_*`, `parse_neighbors`, `parse_path`,
//!                        `parse_find`) on a fixed ASYMMETRIC directed graph built with direct engine calls (a hub with three out-edges, a sink with
//!                        three in-edges, a chain, one 2-cycle, two edge types), so that direction and the edge-type filter change every answer:
//!                        GRAPH PAGERANK [DAMPING d] [TOLERANCE t] [ITERATIONS n] [OUTGOING|INCOMING|BOTH] [EDGE TYPE t]; GRAPH BETWEENNESS CENTRALITY
//!                        [SAMPLING r] [dir] [EDGE TYPE t]; GRAPH CLOSENESS CENTRALITY [dir] [EDGE TYPE t]; GRAPH EIGENVECTOR CENTRALITY [ITERATIONS n]
//!                        [TOLERANCE t] [dir] [EDGE TYPE t]; GRAPH LOUVAIN COMMUNITIES [RESOLUTION r] [PASSES n] [dir] [EDGE TYPE t]; GRAPH LABEL
//!                        PROPAGATION [ITERATIONS n] [dir] [EDGE TYPE t] -- EVERY subset of the optional clauses (each direction), in the documented
//!                        clause order and, for >= 2 clauses, in the reverse order; NEIGHBORS id [dir] [: type] for every node (and a missing id);
//!                        PATH [SHORTEST] a -> b [LIMIT n] for every ordered pair of nodes (LIMIT only with n >= the node count: the text does not say
//!                        what LIMIT bounds, so only values on which every reading agrees); FIND NODE [label] [LIMIT n], FIND EDGE [type] [LIMIT n].
//!                        Executed through `execute_parsed` on the router; oracle = the direct `graph_engine` call ON THE SAME ROUTER (the statements
//!                        are read-only, which is checked on the whole graph image; node order and tie-breaking of the algorithms are per-instance)
//!                        with the configuration the text dictates: `PageRankConfig::default()` / `CentralityConfig::default()` /
//!                        `CommunityConfig::default()` with exactly the WRITTEN clauses overridden -- an omitted clause means the ENGINE's default
//!                        (no clause at all is also compared with `engine.call(None)`); NEIGHBORS without a direction = OUTGOING (the grammar's
//!                        documented default).  Scores / modularity / convergence compared with tolerance 1e-9, node sets, community assignments,
//!                        member lists, iteration / pass / sample counts, paths and id lists exactly (id lists as sets); LIMIT n: min(n, total) items,
//!                        all of them from the unlimited answer.  Where the engine's own answer is not a function of its input (a tie broken by hash
//!                        order) the text answer must equal one of up to 8 direct answers or, failing that (the tie-break order is per call), be a
//!                        consistent partition of the same node set; a PATH answer may be any path of the direct answer's length.  The grammar has no statement for
//!                        `GraphEngine::connected_components`.
//!   (`bounded replay c15_parser C15.debug.expr '{"text": ".."}'` / `C15.debug.query '{"text": "..", "entry": ".."}'` print what the two
//!    expression parsers / the router on the paging fixture return for a text; they are triage helpers, not obligations.)
use crate::fw::{no_panic, Report, Rng, Tier};
use neumann_parser::{parse, parse_all, parse_expr, tokenize, BinaryOp, Expr, ExprKind, ParseError, ParseErrorKind, Span, StatementKind, UnaryOp};
use serde_json::{json, Value};

// ---------------------------------------------------------------------------------------------
// C15.total.bytes / C15.determinism
// ---------------------------------------------------------------------------------------------

const ALPHA: [char; 40] = [
    'a', 'S', 'E', '0', '1', '9', ' ', '\n', '\'', '"', '\\', '(', ')', '[', ']', '{', '}', ',', ';', '.', ':', '*', '=', '<', '>',
    '!', '+', '-', '/', '%', '|', '&', '^', '~', '\u{e9}', '\0', '_', '?', '@', '$',
];

/// Statement / clause keywords used as prefixes (each followed by every string of <= 2 symbols).
const PREFIXES: [&str; 48] = [
    "SELECT", "SELECT *", "SELECT * FROM", "SELECT * FROM t WHERE", "SELECT a FROM t ORDER BY", "SELECT a FROM t LIMIT",
    "SELECT * FROM t JOIN", "INSERT", "INSERT INTO t", "INSERT INTO t VALUES", "INSERT INTO t VALUES (", "UPDATE", "UPDATE t SET",
    "UPDATE t SET a =", "DELETE", "DELETE FROM", "DELETE FROM t WHERE", "CREATE", "CREATE TABLE", "CREATE TABLE t (", "CREATE TABLE t (a INT",
    "CREATE INDEX", "DROP", "DROP TABLE", "SHOW", "DESCRIBE", "COUNT", "NODE", "NODE CREATE", "NODE CREATE p {", "EDGE", "EDGE CREATE",
    "NEIGHBORS", "PATH", "EMBED", "EMBED STORE 'k' [", "SIMILAR", "FIND", "ENTITY", "VAULT", "CACHE", "BLOB", "CHECKPOINT", "ROLLBACK",
    "CHAIN", "CLUSTER", "GRAPH", "BATCH",
];

fn span_inside(sp: Span, s: &str) -> bool {
    let (a, b) = (sp.start.0 as usize, sp.end.0 as usize);
    a <= b && b <= s.len() && s.is_char_boundary(a) && s.is_char_boundary(b)
}

fn res_ok<T>(r: &Result<Result<T, ParseError>, String>, s: &str) -> bool {
    match r {
        Ok(Ok(_)) => true,
        Ok(Err(e)) => span_inside(e.span, s),
        Err(_) => false,
    }
}

fn res_img<T: std::fmt::Debug>(r: &Result<Result<T, ParseError>, String>) -> String {
    match r {
        Ok(Ok(v)) => format!("Ok({v:?})"),
        Ok(Err(e)) => format!("Err({:?} @ {}..{})", e.kind, e.span.start.0, e.span.end.0),
        Err(p) => format!("PANIC({p})"),
    }
}

fn short(s: &str) -> String { if s.len() > 300 { format!("{}...[{} bytes]", &s[..s.char_indices().take(300).last().map_or(0, |(i, _)| i)], s.len()) } else { s.to_string() } }

/// Evaluates totality + determinism of the four entry points on one input. Returns (total_ok, det_ok, detail).
fn eval_total(s: &str) -> (bool, bool, String) {
    let tk = no_panic(|| tokenize(s));
    let tk_ok = match &tk {
        Ok(v) => {
            let mut prev_end = 0u32;
            let mut ok = v.last().is_some_and(neumann_parser::Token::is_eof);
            for t in v {
                ok &= span_inside(t.span, s) && t.span.start.0 >= prev_end;
                prev_end = t.span.end.0;
            }
            ok && v.iter().filter(|t| t.is_eof()).count() == 1
        },
        Err(_) => false,
    };
    let p = no_panic(|| parse(s));
    let pa = no_panic(|| parse_all(s));
    let pe = no_panic(|| parse_expr(s));
    let total = tk_ok && res_ok(&p, s) && res_ok(&pa, s) && res_ok(&pe, s);
    // second evaluation
    let tk2 = no_panic(|| tokenize(s));
    let p2 = no_panic(|| parse(s));
    let pa2 = no_panic(|| parse_all(s));
    let pe2 = no_panic(|| parse_expr(s));
    let det = format!("{tk:?}") == format!("{tk2:?}") && res_img(&p) == res_img(&p2) && res_img(&pa) == res_img(&pa2) && res_img(&pe) == res_img(&pe2);
    let detail = if total && det { String::new() } else {
        format!("input {:?} (len {}): tokenize_ok={tk_ok} tokens={} | parse={} | parse_all={} | parse_expr={} | second run: parse={} parse_all={} parse_expr={}",
                s, s.len(), short(&format!("{tk:?}")), short(&res_img(&p)), short(&res_img(&pa)), short(&res_img(&pe)),
                short(&res_img(&p2)), short(&res_img(&pa2)), short(&res_img(&pe2)))
    };
    (total, det, detail)
}

fn check_total(rep: &mut Report, s: &str) {
    let (total, det, detail) = eval_total(s);
    rep.eval(!s.is_empty());
    let case = || json!({"input": s});
    rep.check("C15.total.bytes", total, &case, &|| detail.clone());
    rep.check("C15.determinism", det, &case, &|| detail.clone());
}

fn all_strings(maxlen: usize, f: &mut dyn FnMut(&str)) {
    fn rec(cur: &mut String, left: usize, f: &mut dyn FnMut(&str)) {
        f(cur);
        if left == 0 { return; }
        for c in ALPHA { cur.push(c); rec(cur, left - 1, f); cur.pop(); }
    }
    let mut cur = String::new();
    rec(&mut cur, maxlen, f);
}

// ---------------------------------------------------------------------------------------------
// C15.depth.guard
// ---------------------------------------------------------------------------------------------

/// Expression-shaped nesting families (usable with parse_expr and after "SELECT ").
const EXPR_FAMILIES: [&str; 13] = ["paren", "not", "neg", "neg_raw", "bitnot", "bang", "right_bin", "bracket", "call", "like", "case", "in_list", "between"];
/// Statement-shaped nesting families (parse / parse_all only).
const STMT_FAMILIES: [&str; 3] = ["from_subquery", "in_subquery", "exists_subquery"];
const ENTRIES: [&str; 4] = ["parse_expr", "parse_select", "parse_all_select", "parse_where"];
const INPROC_MAX: usize = 200;

fn depth_input(family: &str, n: usize) -> Option<String> {
    Some(match family {
        "paren" => format!("{}1{}", "(".repeat(n), ")".repeat(n)),
        "not" => format!("{}1", "NOT ".repeat(n)),
        "neg" => format!("{}1", "- ".repeat(n)),
        "neg_raw" => format!("{}1", "-".repeat(n)),
        "bitnot" => format!("{}1", "~".repeat(n)),
        "bang" => format!("{}1", "!".repeat(n)),
        "right_bin" => format!("1{}{}", "+(1".repeat(n), ")".repeat(n)),
        "bracket" => format!("{}{}", "[".repeat(n), "]".repeat(n)),
        "call" => format!("{}1{}", "f(".repeat(n), ")".repeat(n)),
        "like" => format!("a{}", " LIKE a".repeat(n)),
        "case" => format!("{}1{}", "CASE WHEN ".repeat(n), " THEN 1 END".repeat(n)),
        "in_list" => format!("{}1{}", "a IN (".repeat(n), ")".repeat(n)),
        "between" => format!("a{}", " BETWEEN a".repeat(n)),
        "flat_add" => format!("1{}", "+1".repeat(n)),
        "from_subquery" => format!("{}SELECT 1{}", "SELECT * FROM (".repeat(n), ")".repeat(n)),
        "in_subquery" => format!("{}SELECT 1{}", "SELECT 1 WHERE a IN (".repeat(n), ")".repeat(n)),
        "exists_subquery" => format!("{}SELECT 1{}", "SELECT 1 WHERE EXISTS (".repeat(n), ")".repeat(n)),
        _ => return None,
    })
}

fn depth_text(family: &str, entry: &str, n: usize) -> Option<String> {
    let body = depth_input(family, n)?;
    let stmt_family = STMT_FAMILIES.contains(&family);
    Some(match (entry, stmt_family) {
        ("parse_expr", false) => body,
        ("parse_select" | "parse_all_select", false) => format!("SELECT {body}"),
        ("parse_where", false) => format!("SELECT * FROM t WHERE {body}"),
        ("parse_select" | "parse_all_select", true) => body,
        _ => return None,
    })
}

/// Runs one sweep point in a spawned thread with the default stack size, in THIS process.
fn depth_direct(family: &str, entry: &str, n: usize) -> Result<String, String> {
    let text = depth_text(family, entry, n).ok_or_else(|| format!("unknown family/entry {family}/{entry}"))?;
    let len = text.len();
    let entry_s = entry.to_string();
    let t0 = std::time::Instant::now();
    let h = std::thread::Builder::new().name("c15-depth".into()).spawn(move || -> (bool, String) {
        let img = |r: Result<(), ParseError>| -> (bool, String) {
            match r {
                Ok(()) => (true, "Ok".into()),
                Err(e) => (span_inside(e.span, &text), format!("Err({}) span {}..{} of {}", match e.kind { ParseErrorKind::TooDeep => "TooDeep".to_string(), k => short(&format!("{k:?}")) }, e.span.start.0, e.span.end.0, text.len())),
            }
        };
        match entry_s.as_str() {
            "parse_expr" => img(parse_expr(&text).map(drop)),
            "parse_all_select" => img(parse_all(&text).map(drop)),
            _ => img(parse(&text).map(drop)),
        }
    }).map_err(|e| format!("spawn: {e}"))?;
    let r = h.join();
    let el = t0.elapsed();
    match r {
        Ok((ok, img)) => {
            let msg = format!("{family}/{entry} n={n} ({len} bytes): {img} in {el:?}");
            if ok && el.as_secs() < 30 { Ok(msg) } else { Err(msg) }
        },
        Err(_) => Err(format!("{family}/{entry} n={n} ({len} bytes): parser thread panicked")),
    }
}

/// Sweep point evaluation that survives a stack overflow of the code under test.
fn depth_eval(family: &str, entry: &str, n: usize) -> Result<String, String> {
    if n <= INPROC_MAX { return depth_direct(family, entry, n); }
    let exe = std::env::current_exe().map_err(|e| format!("current_exe: {e}"))?;
    let case = json!({"family": family, "entry": entry, "n": n, "direct": true});
    let out = std::process::Command::new(exe).args(["replay", "c15_parser", "C15.depth.guard", &case.to_string()])
        .stdin(std::process::Stdio::null()).output().map_err(|e| format!("cannot spawn child: {e}"))?;
    let stdout = String::from_utf8_lossy(&out.stdout).trim().to_string();
    let stderr = String::from_utf8_lossy(&out.stderr).trim().replace('\n', " | ");
    match out.status.code() {
        Some(0) => Ok(stdout.trim_start_matches("HOLDS: ").to_string()),
        Some(1) => Err(stdout.trim_start_matches("FAILS: ").to_string()),
        Some(c) => Err(format!("{family}/{entry} n={n}: child exit code {c}: {stdout} {stderr}")),
        None => {
            use std::os::unix::process::ExitStatusExt;
            Err(format!("{family}/{entry} n={n} ({} bytes): the process was KILLED by signal {:?} while parsing in a default-stack thread (stack exhausted); stderr: {}",
                        depth_text(family, entry, n).map_or(0, |t| t.len()), out.status.signal(), short(&stderr)))
        },
    }
}

fn check_depth(rep: &mut Report, family: &str, entry: &str, n: usize) {
    if depth_text(family, entry, n).is_none() { return; }
    let r = depth_eval(family, entry, n);
    rep.eval(n > 64);
    rep.check("C15.depth.guard", r.is_ok(), &|| json!({"family": family, "entry": entry, "n": n}), &|| r.clone().err().unwrap_or_default());
    if n == 100_000 && family == "paren" { rep.sample(json!({"family": family, "entry": entry, "n": n, "result": r.clone().unwrap_or_else(|e| e)})); }
}

// ---------------------------------------------------------------------------------------------
// C15.precedence.*
// ---------------------------------------------------------------------------------------------

const BINOPS: [BinaryOp; 19] = [
    BinaryOp::Or, BinaryOp::And, BinaryOp::Eq, BinaryOp::Ne, BinaryOp::Lt, BinaryOp::Le, BinaryOp::Gt, BinaryOp::Ge, BinaryOp::BitOr, BinaryOp::BitXor,
    BinaryOp::BitAnd, BinaryOp::Shl, BinaryOp::Shr, BinaryOp::Add, BinaryOp::Sub, BinaryOp::Concat, BinaryOp::Mul, BinaryOp::Div, BinaryOp::Mod,
];
/// one operator per documented precedence level (thorough, height 4)
const LEVEL_REPS: [BinaryOp; 9] = [BinaryOp::Or, BinaryOp::And, BinaryOp::Lt, BinaryOp::BitOr, BinaryOp::BitXor, BinaryOp::BitAnd, BinaryOp::Shr, BinaryOp::Sub, BinaryOp::Div];
const UNOPS: [UnaryOp; 3] = [UnaryOp::Not, UnaryOp::Neg, UnaryOp::BitNot];

/// The documented table (expr.rs header lines 7-18 and the book's "Binding Power Table"), transcribed once.
fn doc_level(op: BinaryOp) -> u8 {
    match op {
        BinaryOp::Or => 1,
        BinaryOp::And => 2,
        BinaryOp::Eq | BinaryOp::Ne | BinaryOp::Lt | BinaryOp::Le | BinaryOp::Gt | BinaryOp::Ge => 3,
        BinaryOp::BitOr => 4,
        BinaryOp::BitXor => 5,
        BinaryOp::BitAnd => 6,
        BinaryOp::Shl | BinaryOp::Shr => 7,
        BinaryOp::Add | BinaryOp::Sub | BinaryOp::Concat => 8,
        BinaryOp::Mul | BinaryOp::Div | BinaryOp::Mod => 9,
    }
}

fn bin_lexeme(op: BinaryOp) -> &'static str {
    match op {
        BinaryOp::Add => "+", BinaryOp::Sub => "-", BinaryOp::Mul => "*", BinaryOp::Div => "/", BinaryOp::Mod => "%", BinaryOp::Eq => "=",
        BinaryOp::Ne => "!=", BinaryOp::Lt => "<", BinaryOp::Le => "<=", BinaryOp::Gt => ">", BinaryOp::Ge => ">=", BinaryOp::And => "AND",
        BinaryOp::Or => "OR", BinaryOp::Concat => "||", BinaryOp::BitAnd => "&", BinaryOp::BitOr => "|", BinaryOp::BitXor => "^",
        BinaryOp::Shl => "<<", BinaryOp::Shr => ">>",
    }
}
fn un_lexeme(op: UnaryOp) -> &'static str { match op { UnaryOp::Not => "NOT", UnaryOp::Neg => "-", UnaryOp::BitNot => "~" } }
fn bin_from_name(s: &str) -> Option<BinaryOp> { BINOPS.iter().copied().find(|o| format!("{o:?}") == s) }
fn un_from_name(s: &str) -> Option<UnaryOp> { UNOPS.iter().copied().find(|o| format!("{o:?}") == s) }

#[derive(Clone, PartialEq, Debug)]
enum T { Leaf(String), Un(UnaryOp, Box<T>), Bin(Box<T>, BinaryOp, Box<T>), Other(String) }

fn leaf_name(i: usize) -> String {
    const N: [&str; 8] = ["a", "b", "c", "d", "e2", "f", "g", "h"];
    if i < 8 { N[i].to_string() } else { format!("v{i}") }
}

/// Gives the leaves the names a, b, c, d, ... in left-to-right order.
fn label(t: &T, k: &mut usize) -> T {
    match t {
        T::Leaf(_) => { let r = T::Leaf(leaf_name(*k)); *k += 1; r },
        T::Un(o, x) => T::Un(*o, Box::new(label(x, k))),
        T::Bin(l, o, r) => { let l2 = label(l, k); let r2 = label(r, k); T::Bin(Box::new(l2), *o, Box::new(r2)) },
        T::Other(s) => T::Other(s.clone()),
    }
}

fn print_min(t: &T, out: &mut String) {
    match t {
        T::Leaf(n) | T::Other(n) => out.push_str(n),
        T::Un(o, x) => {
            out.push_str(un_lexeme(*o));
            out.push(' ');
            if matches!(**x, T::Bin(..)) { out.push('('); print_min(x, out); out.push(')'); } else { print_min(x, out); }
        },
        T::Bin(l, o, r) => {
            let lv = doc_level(*o);
            // left-associative: the left operand needs parentheses only if it binds strictly weaker
            let lp = matches!(**l, T::Bin(_, lo, _) if doc_level(lo) < lv);
            // ... the right operand also when it binds equally
            let rp = matches!(**r, T::Bin(_, ro, _) if doc_level(ro) <= lv);
            if lp { out.push('('); } print_min(l, out); if lp { out.push(')'); }
            out.push(' '); out.push_str(bin_lexeme(*o)); out.push(' ');
            if rp { out.push('('); } print_min(r, out); if rp { out.push(')'); }
        },
    }
}

fn print_full(t: &T, out: &mut String) {
    match t {
        T::Leaf(n) | T::Other(n) => out.push_str(n),
        T::Un(o, x) => { out.push('('); out.push_str(un_lexeme(*o)); out.push(' '); print_full(x, out); out.push(')'); },
        T::Bin(l, o, r) => { out.push('('); print_full(l, out); out.push(' '); out.push_str(bin_lexeme(*o)); out.push(' '); print_full(r, out); out.push(')'); },
    }
}

fn strip(e: &Expr) -> T {
    match &e.kind {
        ExprKind::Ident(i) => T::Leaf(i.name.clone()),
        ExprKind::Unary(o, x) => T::Un(*o, Box::new(strip(x))),
        ExprKind::Binary(l, o, r) => T::Bin(Box::new(strip(l)), *o, Box::new(strip(r))),
        k => T::Other(short(&format!("{k:?}"))),
    }
}

fn tree_json(t: &T) -> Value {
    match t {
        T::Leaf(n) => json!(n),
        T::Other(n) => json!({"other": n}),
        T::Un(o, x) => json!([format!("{o:?}"), tree_json(x)]),
        T::Bin(l, o, r) => json!([tree_json(l), format!("{o:?}"), tree_json(r)]),
    }
}

fn tree_from_json(v: &Value) -> Option<T> {
    match v {
        Value::String(s) => Some(T::Leaf(s.clone())),
        Value::Array(a) if a.len() == 2 => Some(T::Un(un_from_name(a[0].as_str()?)?, Box::new(tree_from_json(&a[1])?))),
        Value::Array(a) if a.len() == 3 => Some(T::Bin(Box::new(tree_from_json(&a[0])?), bin_from_name(a[1].as_str()?)?, Box::new(tree_from_json(&a[2])?))),
        _ => None,
    }
}

fn via_expr(text: &str) -> Result<T, String> {
    match no_panic(|| parse_expr(text)) {
        Ok(Ok(e)) => Ok(strip(&e)),
        Ok(Err(e)) => Err(format!("parse_expr error: {e}")),
        Err(p) => Err(format!("parse_expr PANIC: {p}")),
    }
}

fn via_stmt(text: &str) -> Result<T, String> {
    let q = format!("SELECT {text}");
    match no_panic(|| parse(&q)) {
        Ok(Ok(st)) => match st.kind {
            StatementKind::Select(sel) if sel.columns.len() == 1 && sel.columns[0].alias.is_none() && sel.from.is_none() && sel.where_clause.is_none() => Ok(strip(&sel.columns[0].expr)),
            k => Err(format!("parse({q:?}) is not a one-column SELECT: {}", short(&format!("{k:?}")))),
        },
        Ok(Err(e)) => Err(format!("parse error: {e}")),
        Err(p) => Err(format!("parse PANIC: {p}")),
    }
}

/// Err(detail) = the obligation fails for this (labelled) tree.
fn prec_eval(t: &T, stmt: bool) -> Result<(), String> {
    let mut m = String::new();
    print_min(t, &mut m);
    let mut f = String::new();
    print_full(t, &mut f);
    let go = |txt: &str| if stmt { via_stmt(txt) } else { via_expr(txt) };
    let a = go(&m);
    if a.as_ref() != Ok(t) {
        return Err(format!("minimal print {m:?} parses to {} but the documented table dictates {}", a.map_or_else(|e| e, |x| tree_json(&x).to_string()), tree_json(t)));
    }
    let b = go(&f);
    if b.as_ref() != Ok(t) {
        return Err(format!("fully parenthesised print {f:?} parses to {} instead of {}", b.map_or_else(|e| e, |x| tree_json(&x).to_string()), tree_json(t)));
    }
    Ok(())
}

fn check_tree(rep: &mut Report, shape: &T, with_stmt: bool) {
    let mut k = 0;
    let t = label(shape, &mut k);
    rep.eval(matches!(t, T::Bin(..) | T::Un(..)));
    let r = prec_eval(&t, false);
    rep.check("C15.precedence.trees", r.is_ok(), &|| json!({"tree": tree_json(&t)}), &|| r.clone().err().unwrap_or_default());
    if with_stmt {
        rep.eval(matches!(t, T::Bin(..) | T::Un(..)));
        let r = prec_eval(&t, true);
        rep.check("C15.precedence.stmt", r.is_ok(), &|| json!({"tree": tree_json(&t)}), &|| r.clone().err().unwrap_or_default());
    }
}

/// all tree shapes of height <= h (leaf = height 1) over the given operators
fn shapes(h: usize, bins: &[BinaryOp], uns: &[UnaryOp]) -> Vec<T> {
    let mut cur = vec![T::Leaf(String::new())];
    for _ in 1..h {
        let mut next = vec![T::Leaf(String::new())];
        for x in &cur { for u in uns { next.push(T::Un(*u, Box::new(x.clone()))); } }
        for l in &cur { for r in &cur { for o in bins { next.push(T::Bin(Box::new(l.clone()), *o, Box::new(r.clone()))); } } }
        cur = next;
    }
    cur
}

fn random_tree(rng: &mut Rng, h: usize) -> T {
    if h <= 1 || rng.below(6) == 0 { return T::Leaf(String::new()); }
    if rng.below(5) == 0 { return T::Un(UNOPS[rng.below(3) as usize], Box::new(random_tree(rng, h - 1))); }
    let l = random_tree(rng, h - 1);
    let r = random_tree(rng, h - 1);
    T::Bin(Box::new(l), BINOPS[rng.below(19) as usize], Box::new(r))
}

/// (lexeme, expected operator) incl. alternative spellings
fn op_mapping_eval(lex: &str, op: &str) -> Result<(), String> {
    if let Some(b) = bin_from_name(op) {
        let want = T::Bin(Box::new(T::Leaf("a".into())), b, Box::new(T::Leaf("b".into())));
        for stmt in [false, true] {
            let txt = format!("a {lex} b");
            let got = if stmt { via_stmt(&txt) } else { via_expr(&txt) };
            if got.as_ref() != Ok(&want) { return Err(format!("{txt:?} (stmt={stmt}) parses to {got:?}, expected {want:?}")); }
        }
        if b.precedence() != doc_level(b) || !b.is_left_assoc() { return Err(format!("BinaryOp::{b:?}.precedence() = {} (documented level {}), is_left_assoc = {}", b.precedence(), doc_level(b), b.is_left_assoc())); }
        if format!("{b}") != bin_lexeme(b) { return Err(format!("Display of {b:?} is {:?}, documented lexeme {:?}", format!("{b}"), bin_lexeme(b))); }
        Ok(())
    } else if let Some(u) = un_from_name(op) {
        let want = T::Un(u, Box::new(T::Leaf("a".into())));
        for stmt in [false, true] {
            let txt = format!("{lex} a");
            let got = if stmt { via_stmt(&txt) } else { via_expr(&txt) };
            if got.as_ref() != Ok(&want) { return Err(format!("{txt:?} (stmt={stmt}) parses to {got:?}, expected {want:?}")); }
        }
        Ok(())
    } else { Err(format!("unknown operator name {op}")) }
}

// ---------------------------------------------------------------------------------------------
// C15.text.equiv
// ---------------------------------------------------------------------------------------------
mod equiv {
    use crate::fw::no_panic;
    use query_router::{QueryResult, QueryRouter};
    use relational_engine::{Column, ColumnType, Condition, Row, Schema, Value as RV};
    use std::collections::HashMap;

    /// (family, entries): `execute` is the entry point the gRPC server calls; `execute_parsed` the AST path.
    pub const FAMILIES: [(&str, &[&str]); 7] = [
        ("select_where", &["execute_parsed", "execute"]),
        ("update", &["execute_parsed", "execute"]),
        ("delete", &["execute_parsed"]),
        ("insert", &["execute_parsed"]),
        ("create", &["execute_parsed"]),
        ("node_edge", &["execute_parsed"]),
        ("embed", &["execute_parsed"]),
    ];

    fn rows_img(rows: &[Row]) -> String {
        let mut v: Vec<String> = rows.iter().map(|row| {
            let mut kv: Vec<String> = row.values.iter().map(|(k, v)| format!("{k}={v:?}")).collect();
            kv.sort();
            format!("#{}:{}", row.id, kv.join(","))
        }).collect();
        v.sort();
        format!("{v:?}")
    }

    /// whole observable view of the three engines
    pub fn state_img(r: &QueryRouter) -> String {
        let mut tables = r.relational().list_tables();
        tables.sort();
        let t: Vec<String> = tables.iter().map(|t| format!("{t}{:?}:{}", r.relational().get_schema(t).map(|s| s.columns.iter().map(|c| format!("{}:{:?}:{}", c.name, c.column_type, c.nullable)).collect::<Vec<_>>()).ok(),
            r.relational().select(t, Condition::True).map_or_else(|e| format!("ERR {e}"), |rows| rows_img(&rows)))).collect();
        let mut keys = r.vector().list_keys();
        keys.sort();
        let e: Vec<String> = keys.iter().map(|k| format!("{k}={:?}", r.vector().get_embedding(k).ok())).collect();
        format!("tables={t:?} graph_nodes={} graph_edges={} embeddings={e:?}", r.graph().node_count(), r.graph().edge_count())
    }

    /// identical pre-state on both routers, built with direct engine calls only
    pub fn seeded() -> Result<QueryRouter, String> {
        let r = QueryRouter::new();
        let schema = Schema::new(vec![Column::new("id", ColumnType::Int), Column::new("name", ColumnType::String), Column::new("age", ColumnType::Int)]);
        r.relational().create_table("t", schema).map_err(|e| e.to_string())?;
        for (id, name, age) in [(1, "ann", 30), (2, "bob", 17), (3, "cy", 45), (4, "di", 17)] {
            let mut m = HashMap::new();
            m.insert("id".to_string(), RV::Int(id));
            m.insert("name".to_string(), RV::String(name.to_string()));
            m.insert("age".to_string(), RV::Int(age));
            r.relational().insert("t", m).map_err(|e| e.to_string())?;
        }
        Ok(r)
    }

    /// WHERE text and the condition that the documented precedence (AND binds tighter than OR, parentheses group) dictates.
    fn conds(i: usize) -> Option<(&'static str, Condition)> {
        let n = |v: i64| RV::Int(v);
        let c = |s: &str| s.to_string();
        Some(match i {
            0 => ("age = 17", Condition::Eq(c("age"), n(17))),
            1 => ("age > 17 AND id < 3", Condition::Gt(c("age"), n(17)).and(Condition::Lt(c("id"), n(3)))),
            2 => ("id = 1 OR id = 2 AND age = 17", Condition::Eq(c("id"), n(1)).or(Condition::Eq(c("id"), n(2)).and(Condition::Eq(c("age"), n(17))))),
            3 => ("(id = 1 OR id = 3) AND age = 30", Condition::Eq(c("id"), n(1)).or(Condition::Eq(c("id"), n(3))).and(Condition::Eq(c("age"), n(30)))),
            4 => ("age >= 30", Condition::Ge(c("age"), n(30))),
            5 => ("age != 17", Condition::Ne(c("age"), n(17))),
            6 => ("age <= 17 OR id = 3", Condition::Le(c("age"), n(17)).or(Condition::Eq(c("id"), n(3)))),
            7 => ("name = 'bob'", Condition::Eq(c("name"), RV::String(c("bob")))),
            8 => ("age = 17 AND id = 2 OR id = 3", Condition::Eq(c("age"), n(17)).and(Condition::Eq(c("id"), n(2))).or(Condition::Eq(c("id"), n(3)))),
            9 => ("id = 1 OR (id = 2 AND age = 17)", Condition::Eq(c("id"), n(1)).or(Condition::Eq(c("id"), n(2)).and(Condition::Eq(c("age"), n(17))))),
            _ => return None,
        })
    }

    fn res_img(r: &Result<QueryResult, query_router::RouterError>) -> String {
        match r {
            Ok(QueryResult::Rows(rows)) => format!("Rows{}", rows_img(rows)),
            Ok(QueryResult::Count(n)) => format!("Count({n})"),
            Ok(QueryResult::Ids(v)) => format!("Ids({v:?})"),
            Ok(QueryResult::Empty) => "Empty".to_string(),
            Ok(o) => format!("{o:?}"),
            Err(e) => format!("ERR {e}"),
        }
    }

    pub fn run_text(r: &QueryRouter, entry: &str, q: &str) -> Result<Result<QueryResult, query_router::RouterError>, String> {
        let rr = std::panic::AssertUnwindSafe(r);
        no_panic(move || if entry == "execute" { rr.execute(q) } else { rr.execute_parsed(q) })
    }

    /// None = no such case; Some(Err) = the text path and the direct path differ.
    pub fn eval(family: &str, i: usize, entry: &str) -> Option<Result<String, String>> {
        let Some((_, entries)) = FAMILIES.iter().find(|(f, _)| *f == family) else { return None; };
        if !entries.contains(&entry) { return None; }
        let n_cases = match family { "select_where" | "update" | "delete" => 10, _ => 1 };
        if i >= n_cases { return None; }
        Some((|| {
            let a = seeded()?;
            let b = seeded()?;
            let text = |q: &str| -> String { match run_text(&a, entry, q) { Ok(r) => res_img(&r), Err(p) => format!("PANIC {p}") } };
            let (what, ra, rb): (String, String, String) = match family {
                "select_where" => {
                    let (txt, cond) = conds(i).ok_or("cond")?;
                    let q = format!("SELECT * FROM t WHERE {txt}");
                    let ra = text(&q);
                    let rb = b.relational().select("t", cond).map_or_else(|e| format!("ERR {e}"), |rows| format!("Rows{}", rows_img(&rows)));
                    (q, ra, rb)
                },
                "update" => {
                    let (txt, cond) = conds(i).ok_or("cond")?;
                    let q = format!("UPDATE t SET age = 99 WHERE {txt}");
                    let ra = text(&q);
                    let mut set = HashMap::new();
                    set.insert("age".to_string(), RV::Int(99));
                    let rb = b.relational().update("t", cond, set).map_or_else(|e| format!("ERR {e}"), |n| format!("Count({n})"));
                    (q, ra, rb)
                },
                "delete" => {
                    let (txt, cond) = conds(i).ok_or("cond")?;
                    let q = format!("DELETE FROM t WHERE {txt}");
                    let ra = text(&q);
                    let rb = b.relational().delete_rows("t", cond).map_or_else(|e| format!("ERR {e}"), |n| format!("Count({n})"));
                    (q, ra, rb)
                },
                "insert" => {
                    let q = "INSERT INTO t (id, name, age) VALUES (5, 'eve', 22)".to_string();
                    let ra = text(&q);
                    let mut m = HashMap::new();
                    m.insert("id".to_string(), RV::Int(5));
                    m.insert("name".to_string(), RV::String("eve".into()));
                    m.insert("age".to_string(), RV::Int(22));
                    let rb = b.relational().insert("t", m).map_or_else(|e| format!("ERR {e}"), |id| format!("Ids({:?})", vec![id]));
                    (q, ra, rb)
                },
                "create" => {
                    let q = "CREATE TABLE u (id INT, name TEXT)".to_string();
                    let ra = text(&q);
                    let rb = b.relational().create_table("u", Schema::new(vec![Column::new("id", ColumnType::Int).nullable(), Column::new("name", ColumnType::String).nullable()])).map_or_else(|e| format!("ERR {e}"), |()| "Empty".to_string());
                    (q, ra, rb)
                },
                "node_edge" => {
                    let r1 = text("NODE CREATE person {name: 'ann'}");
                    let r2 = text("NODE CREATE person {name: 'bob'}");
                    let mut p1 = HashMap::new(); p1.insert("name".to_string(), graph_engine::PropertyValue::String("ann".into()));
                    let mut p2 = HashMap::new(); p2.insert("name".to_string(), graph_engine::PropertyValue::String("bob".into()));
                    let d1 = b.graph().create_node("person", p1).map_err(|e| e.to_string())?;
                    let d2 = b.graph().create_node("person", p2).map_err(|e| e.to_string())?;
                    let r3 = text(&format!("EDGE CREATE {d1} -> {d2} : knows"));
                    let e = b.graph().create_edge(d1, d2, "knows", HashMap::new(), true).map_err(|e| e.to_string())?;
                    let view = |r: &QueryRouter| -> String {
                        format!("{:?} {:?} out={:?} in={:?}",
                            r.graph().get_node(d1).map(|n| (n.labels, n.properties.into_iter().collect::<std::collections::BTreeMap<_, _>>())).map_err(|e| e.to_string()),
                            r.graph().get_node(d2).map(|n| (n.labels, n.properties.into_iter().collect::<std::collections::BTreeMap<_, _>>())).map_err(|e| e.to_string()),
                            r.graph().neighbors(d1, Some("knows"), graph_engine::Direction::Outgoing, None).map(|v| v.iter().map(|n| n.id).collect::<Vec<_>>()).map_err(|e| e.to_string()),
                            r.graph().neighbors(d1, Some("knows"), graph_engine::Direction::Incoming, None).map(|v| v.iter().map(|n| n.id).collect::<Vec<_>>()).map_err(|e| e.to_string()))
                    };
                    ("NODE CREATE x2 + EDGE CREATE".to_string(), format!("{r1} {r2} {r3} {}", view(&a)), format!("Ids([{d1}]) Ids([{d2}]) Ids([{e}]) {}", view(&b)))
                },
                "embed" => {
                    let r1 = text("EMBED STORE 'k1' [1.0, 0.0, 0.5]");
                    let r2 = text("EMBED STORE 'k2' [0.0, 1.0, 0.25]");
                    b.vector().store_embedding("k1", vec![1.0, 0.0, 0.5]).map_err(|e| e.to_string())?;
                    b.vector().store_embedding("k2", vec![0.0, 1.0, 0.25]).map_err(|e| e.to_string())?;
                    ("EMBED STORE x2".to_string(), format!("{r1} {r2}"), "Empty Empty".to_string())
                },
                _ => return Err("family".into()),
            };
            let (sa, sb) = (state_img(&a), state_img(&b));
            if ra == rb && sa == sb { Ok(format!("{entry}({what:?}): same result and same engine state as the direct call")) }
            else { Err(format!("{entry}({what:?}) => {ra}; direct engine call dictated by the documented grammar/precedence => {rb}; state after text: {sa}; state after direct: {sb}")) }
        })())
    }

    /// C15.total.execute: text execution never panics. Err = panic message.
    pub fn total_eval(entry: &str, q: &str) -> Result<String, String> {
        let r = seeded()?;
        match run_text(&r, entry, q) {
            Ok(res) => Ok(format!("{entry}({q:?}) => {}", super::short(&res_img(&res)))),
            Err(p) => Err(format!("{entry}({q:?}) PANICKED: {p}")),
        }
    }
}


// ---------------------------------------------------------------------------------------------
// C15.precedence.postfix — the whole expression grammar (binary, unary, postfix / special forms)
// ---------------------------------------------------------------------------------------------
mod postfix {
    use super::{bin_from_name, bin_lexeme, doc_level, leaf_name, short, span_inside, un_from_name, un_lexeme, BINOPS, LEVEL_REPS, UNOPS};
    use crate::fw::{no_panic, Rng};
    use neumann_parser::{parse, parse_expr, BinaryOp, Expr, ExprKind, InList, Literal, ParseError, StatementKind, TableRefKind, UnaryOp};
    use serde_json::{json, Value};

    /// Expression tree over EVERY operator of the expression grammar.
    #[derive(Clone, PartialEq, Debug)]
    pub enum P {
        Leaf(String),
        /// literal printed verbatim (1, 's', NULL, TRUE)
        Lit(String),
        Un(UnaryOp, Box<P>),
        Bin(Box<P>, BinaryOp, Box<P>),
        /// x IS [NOT] NULL
        IsNull(Box<P>, bool),
        /// x [NOT] IN (e, ...)
        In(Box<P>, Vec<P>, bool),
        /// x [NOT] BETWEEN low AND high
        Between(Box<P>, Box<P>, Box<P>, bool),
        /// x [NOT] LIKE pattern
        Like(Box<P>, Box<P>, bool),
        /// x.name
        Qual(Box<P>, String),
        /// name([DISTINCT] args)
        Call(String, bool, Vec<P>),
        /// CASE [operand] WHEN c THEN r ... [ELSE e] END
        Case(Option<Box<P>>, Vec<(P, P)>, Option<Box<P>>),
        /// CAST(x AS type) — only the statement grammar has it
        Cast(Box<P>, String),
        Array(Vec<P>),
        Tuple(Vec<P>),
        /// x [NOT] IN (SELECT 1) — only the statement grammar has sub-queries
        InSub(Box<P>, bool),
        /// EXISTS (SELECT 1) — statement grammar only
        Exists,
        Other(String),
    }

    // ---- the DOCUMENTED table (expr.rs header lines 7-18), transcribed independently of the binding-power functions:
    //   levels 1..9 binary (see `doc_level`), all left-associative; 10 unary NOT - ~; 11 postfix (IS NULL, IN, BETWEEN, LIKE, `.`),
    //   i.e. a postfix form binds TIGHTER than every unary and binary operator.  Function calls are listed at level 11 too but are
    //   syntactically closed (name + parenthesised arguments), like CASE..END, CAST(..), [..] and (.., ..): they never need parentheses.
    const LV_UNARY: u8 = 10;
    const LV_POSTFIX: u8 = 11;
    const LV_ATOM: u8 = 12;

    fn level(t: &P) -> u8 {
        match t {
            P::Bin(_, o, _) => doc_level(*o),
            P::Un(..) => LV_UNARY,
            P::IsNull(..) | P::In(..) | P::InSub(..) | P::Between(..) | P::Like(..) | P::Qual(..) => LV_POSTFIX,
            _ => LV_ATOM,
        }
    }
    /// postfix forms whose text ENDS with an operand (the table is silent on how two level-11 forms associate there)
    fn right_open(t: &P) -> bool { matches!(t, P::Like(..) | P::Between(..)) }
    /// does the subtree contain an AND operator or a BETWEEN (its text would be ambiguous in front of BETWEEN's own AND)?
    fn has_and(t: &P) -> bool {
        match t {
            P::Leaf(_) | P::Lit(_) | P::Other(_) | P::Exists => false,
            P::Un(_, x) | P::IsNull(x, _) | P::Qual(x, _) | P::Cast(x, _) | P::InSub(x, _) => has_and(x),
            P::Bin(l, o, r) => *o == BinaryOp::And || has_and(l) || has_and(r),
            P::In(x, l, _) => has_and(x) || l.iter().any(has_and),
            P::Between(..) => true,
            P::Like(x, y, _) => has_and(x) || has_and(y),
            P::Call(_, _, a) | P::Array(a) | P::Tuple(a) => a.iter().any(has_and),
            P::Case(o, w, e) => o.as_deref().is_some_and(has_and) || w.iter().any(|(c, r)| has_and(c) || has_and(r)) || e.as_deref().is_some_and(has_and),
        }
    }
    /// does the tree use a form that only the statement grammar has (CAST, sub-queries)?
    pub fn has_cast(t: &P) -> bool {
        match t {
            P::Leaf(_) | P::Lit(_) | P::Other(_) => false,
            P::Cast(..) | P::InSub(..) | P::Exists => true,
            P::Un(_, x) | P::IsNull(x, _) | P::Qual(x, _) => has_cast(x),
            P::Bin(l, _, r) | P::Like(l, r, _) => has_cast(l) || has_cast(r),
            P::In(x, l, _) => has_cast(x) || l.iter().any(has_cast),
            P::Between(x, l, h, _) => has_cast(x) || has_cast(l) || has_cast(h),
            P::Call(_, _, a) | P::Array(a) | P::Tuple(a) => a.iter().any(has_cast),
            P::Case(o, w, e) => o.as_deref().is_some_and(has_cast) || w.iter().any(|(c, r)| has_cast(c) || has_cast(r)) || e.as_deref().is_some_and(has_cast),
        }
    }

    /// Full: every operator application is parenthesised (the grouping the table dictates, made explicit).
    /// Min:  only the parentheses the table dictates, plus those at places where the table is silent or the current grammar is
    ///       known to be stricter than the table (operands of LIKE / BETWEEN that are not atoms).
    /// Bare: Min without the parentheses that the table does NOT dictate: (a) a unary operator, or a binary expression without AND,
    ///       as BETWEEN's lower bound (enclosed by BETWEEN .. AND), a unary operator as LIKE pattern / upper bound (one derivation
    ///       only) and (b) two level-11 forms meeting at a right-open operand (`a LIKE b IS NULL`: the table gives no associativity
    ///       -> `ambiguous`).
    #[derive(Clone, Copy, PartialEq, Debug)]
    pub enum Mode { Full, Min, Bare }

    pub struct Pr { pub out: String, pub dropped: bool, pub ambiguous: bool }

    fn wrap(t: &P, m: Mode, w: &mut Pr, parens: bool) {
        if parens { w.out.push('('); }
        pr(t, m, w);
        if parens { w.out.push(')'); }
    }
    /// operand at an ENCLOSED position (between delimiters): never needs parentheses
    fn enclosed(t: &P, m: Mode, w: &mut Pr) { pr(t, m, w); }
    fn list(items: &[P], m: Mode, w: &mut Pr) {
        for (i, x) in items.iter().enumerate() { if i > 0 { w.out.push_str(", "); } enclosed(x, m, w); }
    }
    /// the tested (left) operand of a postfix form
    fn tested(x: &P, m: Mode, w: &mut Pr) {
        let lx = level(x);
        if m == Mode::Full { return pr(x, m, w); }
        if lx < LV_POSTFIX { return wrap(x, m, w, true); }
        if lx == LV_POSTFIX && right_open(x) {
            if m == Mode::Bare { w.dropped = true; w.ambiguous = true; return wrap(x, m, w, false); }
            return wrap(x, m, w, true);
        }
        wrap(x, m, w, false)
    }
    /// LIKE pattern / BETWEEN upper bound: the text of the form ends with this operand
    fn right_operand(x: &P, m: Mode, w: &mut Pr) {
        let lx = level(x);
        if m == Mode::Full || lx == LV_ATOM { return pr(x, m, w); }
        if lx < LV_UNARY { return wrap(x, m, w, true); }
        if m == Mode::Bare { w.dropped = true; if lx == LV_POSTFIX { w.ambiguous = true; } return wrap(x, m, w, false); }
        wrap(x, m, w, true)
    }
    /// BETWEEN lower bound: enclosed by BETWEEN .. AND
    fn low_operand(x: &P, m: Mode, w: &mut Pr) {
        if m == Mode::Full || level(x) == LV_ATOM { return pr(x, m, w); }
        if m == Mode::Bare && !has_and(x) { w.dropped = true; return wrap(x, m, w, false); }
        wrap(x, m, w, true)
    }

    fn pr(t: &P, m: Mode, w: &mut Pr) {
        let full = m == Mode::Full && level(t) < LV_ATOM;
        if full { w.out.push('('); }
        match t {
            P::Leaf(n) | P::Lit(n) | P::Other(n) => w.out.push_str(n),
            P::Un(o, x) => {
                w.out.push_str(un_lexeme(*o));
                w.out.push(' ');
                wrap(x, m, w, m != Mode::Full && level(x) < LV_UNARY);
            },
            P::Bin(l, o, r) => {
                let lv = doc_level(*o);
                wrap(l, m, w, m != Mode::Full && level(l) < lv);
                w.out.push(' '); w.out.push_str(bin_lexeme(*o)); w.out.push(' ');
                wrap(r, m, w, m != Mode::Full && level(r) <= lv);
            },
            P::IsNull(x, neg) => { tested(x, m, w); w.out.push_str(if *neg { " IS NOT NULL" } else { " IS NULL" }); },
            P::In(x, l, neg) => { tested(x, m, w); w.out.push_str(if *neg { " NOT IN (" } else { " IN (" }); list(l, m, w); w.out.push(')'); },
            P::Between(x, lo, hi, neg) => {
                tested(x, m, w);
                w.out.push_str(if *neg { " NOT BETWEEN " } else { " BETWEEN " });
                low_operand(lo, m, w);
                w.out.push_str(" AND ");
                right_operand(hi, m, w);
            },
            P::Like(x, p, neg) => { tested(x, m, w); w.out.push_str(if *neg { " NOT LIKE " } else { " LIKE " }); right_operand(p, m, w); },
            P::Qual(x, n) => { tested(x, m, w); w.out.push('.'); w.out.push_str(n); },
            P::Call(n, d, a) => { w.out.push_str(n); w.out.push('('); if *d { w.out.push_str("DISTINCT "); } list(a, m, w); w.out.push(')'); },
            P::Case(o, wh, e) => {
                w.out.push_str("CASE");
                if let Some(o) = o { w.out.push(' '); enclosed(o, m, w); }
                for (c, r) in wh { w.out.push_str(" WHEN "); enclosed(c, m, w); w.out.push_str(" THEN "); enclosed(r, m, w); }
                if let Some(e) = e { w.out.push_str(" ELSE "); enclosed(e, m, w); }
                w.out.push_str(" END");
            },
            P::Cast(x, ty) => { w.out.push_str("CAST("); enclosed(x, m, w); w.out.push_str(" AS "); w.out.push_str(&ty.to_uppercase()); w.out.push(')'); },
            P::Array(a) => { w.out.push('['); list(a, m, w); w.out.push(']'); },
            P::Tuple(a) => { w.out.push('('); list(a, m, w); w.out.push(')'); },
            P::InSub(x, neg) => { tested(x, m, w); w.out.push_str(if *neg { " NOT IN (SELECT 1)" } else { " IN (SELECT 1)" }); },
            P::Exists => w.out.push_str("EXISTS (SELECT 1)"),
        }
        if full { w.out.push(')'); }
    }

    pub fn print(t: &P, m: Mode) -> Pr {
        let mut w = Pr { out: String::new(), dropped: false, ambiguous: false };
        pr(t, m, &mut w);
        w
    }

    /// is the sub-query exactly `SELECT 1`?
    fn select_one(s: &neumann_parser::SelectStmt) -> bool {
        s.columns.len() == 1 && s.columns[0].alias.is_none() && matches!(s.columns[0].expr.kind, ExprKind::Literal(Literal::Integer(1))) && s.from.is_none() && s.where_clause.is_none()
            && s.group_by.is_empty() && s.having.is_none() && s.order_by.is_empty() && s.limit.is_none() && s.offset.is_none() && !s.distinct
    }

    pub fn strip(e: &Expr) -> P {
        let b = |x: &Expr| Box::new(strip(x));
        match &e.kind {
            ExprKind::Wildcard => P::Lit("*".to_string()),
            ExprKind::In { expr, list: InList::Subquery(q), negated } if select_one(q) => P::InSub(b(expr), *negated),
            ExprKind::Exists(q) if select_one(q) => P::Exists,
            ExprKind::Ident(i) => P::Leaf(i.name.clone()),
            ExprKind::Literal(l) => P::Lit(match l {
                Literal::Null => "NULL".to_string(),
                Literal::Boolean(v) => if *v { "TRUE".to_string() } else { "FALSE".to_string() },
                Literal::Integer(n) => n.to_string(),
                Literal::Float(f) => format!("{f:?}"),
                Literal::String(s) => format!("'{s}'"),
            }),
            ExprKind::Unary(o, x) => P::Un(*o, b(x)),
            ExprKind::Binary(l, o, r) => P::Bin(b(l), *o, b(r)),
            ExprKind::IsNull { expr, negated } => P::IsNull(b(expr), *negated),
            ExprKind::In { expr, list: InList::Values(v), negated } => P::In(b(expr), v.iter().map(strip).collect(), *negated),
            ExprKind::Between { expr, low, high, negated } => P::Between(b(expr), b(low), b(high), *negated),
            ExprKind::Like { expr, pattern, negated } => P::Like(b(expr), b(pattern), *negated),
            ExprKind::Qualified(x, n) => P::Qual(b(x), n.name.clone()),
            ExprKind::Call(c) => P::Call(c.name.name.clone(), c.distinct, c.args.iter().map(strip).collect()),
            ExprKind::Case(c) => P::Case(c.operand.as_deref().map(|x| Box::new(strip(x))), c.when_clauses.iter().map(|w| (strip(&w.condition), strip(&w.result))).collect(), c.else_clause.as_deref().map(|x| Box::new(strip(x)))),
            ExprKind::Cast(x, ty) => P::Cast(b(x), format!("{ty:?}")),
            ExprKind::Array(a) => P::Array(a.iter().map(strip).collect()),
            ExprKind::Tuple(a) => P::Tuple(a.iter().map(strip).collect()),
            k => P::Other(short(&format!("{k:?}"))),
        }
    }

    pub fn to_json(t: &P) -> Value {
        let l = |a: &[P]| Value::Array(a.iter().map(to_json).collect());
        match t {
            P::Leaf(n) => json!(n),
            P::Lit(n) => json!({"lit": n}),
            P::Other(n) => json!({"other": n}),
            P::Un(o, x) => json!([format!("{o:?}"), to_json(x)]),
            P::Bin(a, o, b) => json!([to_json(a), format!("{o:?}"), to_json(b)]),
            P::IsNull(x, n) => json!({"is_null": to_json(x), "neg": n}),
            P::In(x, v, n) => json!({"in": to_json(x), "list": l(v), "neg": n}),
            P::Between(x, lo, hi, n) => json!({"between": to_json(x), "low": to_json(lo), "high": to_json(hi), "neg": n}),
            P::Like(x, p, n) => json!({"like": to_json(x), "pat": to_json(p), "neg": n}),
            P::Qual(x, n) => json!({"qual": to_json(x), "name": n}),
            P::Call(n, d, a) => json!({"call": n, "distinct": d, "args": l(a)}),
            P::Case(o, w, e) => json!({"case": o.as_deref().map(to_json), "when": w.iter().map(|(c, r)| json!([to_json(c), to_json(r)])).collect::<Vec<_>>(), "else": e.as_deref().map(to_json)}),
            P::Cast(x, ty) => json!({"cast": to_json(x), "ty": ty}),
            P::Array(a) => json!({"array": l(a)}),
            P::Tuple(a) => json!({"tuple": l(a)}),
            P::InSub(x, n) => json!({"in_subquery": to_json(x), "neg": n}),
            P::Exists => json!({"exists": true}),
        }
    }

    pub fn from_json(v: &Value) -> Option<P> {
        let b = |x: &Value| from_json(x).map(Box::new);
        let l = |x: &Value| x.as_array()?.iter().map(from_json).collect::<Option<Vec<P>>>();
        let neg = |o: &serde_json::Map<String, Value>| o.get("neg").and_then(Value::as_bool).unwrap_or(false);
        match v {
            Value::String(s) => Some(P::Leaf(s.clone())),
            Value::Array(a) if a.len() == 2 => Some(P::Un(un_from_name(a[0].as_str()?)?, b(&a[1])?)),
            Value::Array(a) if a.len() == 3 => Some(P::Bin(b(&a[0])?, bin_from_name(a[1].as_str()?)?, b(&a[2])?)),
            Value::Object(o) => {
                if let Some(x) = o.get("lit") { return Some(P::Lit(x.as_str()?.to_string())); }
                if let Some(x) = o.get("other") { return Some(P::Other(x.as_str()?.to_string())); }
                if let Some(x) = o.get("is_null") { return Some(P::IsNull(b(x)?, neg(o))); }
                if let Some(x) = o.get("in") { return Some(P::In(b(x)?, l(o.get("list")?)?, neg(o))); }
                if let Some(x) = o.get("between") { return Some(P::Between(b(x)?, b(o.get("low")?)?, b(o.get("high")?)?, neg(o))); }
                if let Some(x) = o.get("like") { return Some(P::Like(b(x)?, b(o.get("pat")?)?, neg(o))); }
                if let Some(x) = o.get("qual") { return Some(P::Qual(b(x)?, o.get("name")?.as_str()?.to_string())); }
                if let Some(x) = o.get("call") { return Some(P::Call(x.as_str()?.to_string(), o.get("distinct").and_then(Value::as_bool).unwrap_or(false), l(o.get("args")?)?)); }
                if let Some(x) = o.get("case") {
                    let wh = o.get("when")?.as_array()?.iter().map(|p| { let p = p.as_array()?; if p.len() != 2 { return None; } Some((from_json(&p[0])?, from_json(&p[1])?)) }).collect::<Option<Vec<_>>>()?;
                    let op = if x.is_null() { None } else { Some(b(x)?) };
                    let el = match o.get("else") { None | Some(Value::Null) => None, Some(e) => Some(b(e)?) };
                    return Some(P::Case(op, wh, el));
                }
                if let Some(x) = o.get("cast") { return Some(P::Cast(b(x)?, o.get("ty")?.as_str()?.to_string())); }
                if let Some(x) = o.get("array") { return Some(P::Array(l(x)?)); }
                if let Some(x) = o.get("tuple") { return Some(P::Tuple(l(x)?)); }
                if let Some(x) = o.get("in_subquery") { return Some(P::InSub(b(x)?, neg(o))); }
                if o.get("exists").is_some() { return Some(P::Exists); }
                None
            },
            _ => None,
        }
    }

    // ---- the two entry points
    const WHERE_PREFIX: &str = "SELECT * FROM t WHERE ";

    /// Ok(tree) | Err((error class, start relative to the expression text, span inside the whole input, message))
    type Parsed = Result<P, (String, i64, bool, String)>;

    fn err_img(e: &ParseError, input: &str, prefix: usize) -> (String, i64, bool, String) {
        let class = match &e.kind {
            neumann_parser::ParseErrorKind::UnexpectedToken { .. } => "UnexpectedToken",
            neumann_parser::ParseErrorKind::UnexpectedEof { .. } => "UnexpectedEof",
            neumann_parser::ParseErrorKind::InvalidSyntax(_) => "InvalidSyntax",
            neumann_parser::ParseErrorKind::TooDeep => "TooDeep",
            _ => "Other",
        };
        (class.to_string(), i64::from(e.span.start.0) - prefix as i64, span_inside(e.span, input), format!("{e} @ {}..{} of {}", e.span.start.0, e.span.end.0, input.len()))
    }

    fn via_expr(text: &str) -> Result<Parsed, String> {
        match no_panic(|| parse_expr(text)) {
            Ok(Ok(e)) => Ok(Ok(strip(&e))),
            Ok(Err(e)) => Ok(Err(err_img(&e, text, 0))),
            Err(p) => Err(format!("parse_expr({text:?}) PANICKED: {p}")),
        }
    }

    fn via_where(text: &str) -> Result<Parsed, String> {
        let q = format!("{WHERE_PREFIX}{text}");
        match no_panic(|| parse(&q)) {
            Ok(Ok(st)) => match st.kind {
                StatementKind::Select(sel) if sel.where_clause.is_some() && sel.columns.len() == 1 && matches!(sel.columns[0].expr.kind, ExprKind::Wildcard)
                    && sel.from.as_ref().is_some_and(|f| f.joins.is_empty() && matches!(&f.table.kind, TableRefKind::Table(i) if i.name == "t") && f.table.alias.is_none())
                    && sel.group_by.is_empty() && sel.having.is_none() && sel.order_by.is_empty() && sel.limit.is_none() && sel.offset.is_none() && !sel.distinct =>
                    match sel.where_clause.as_deref() { Some(w) => Ok(Ok(strip(w))), None => Err("no WHERE".into()) },
                k => Err(format!("parse({q:?}) is not `SELECT * FROM t WHERE <one expression>`: {}", short(&format!("{k:?}")))),
            },
            Ok(Err(e)) => Ok(Err(err_img(&e, &q, WHERE_PREFIX.len()))),
            Err(p) => Err(format!("parse({q:?}) PANICKED: {p}")),
        }
    }

    fn img(r: &Parsed) -> String {
        match r { Ok(t) => to_json(t).to_string(), Err((c, at, _, m)) => format!("ERROR[{c} at expression offset {at}: {m}]") }
    }

    /// Evaluates the obligation for one labelled tree; Ok(number of parser calls) | Err(what was observed vs. dictated).
    pub fn eval(t: &P) -> Result<u32, String> {
        let stmt_only = has_cast(t);
        let mut calls = 0u32;
        let want = to_json(t).to_string();
        for mode in [Mode::Min, Mode::Full, Mode::Bare] {
            let p = print(t, mode);
            if mode == Mode::Bare && !p.dropped { continue; }
            let text = p.out;
            let re = via_expr(&text)?;
            let rw = via_where(&text)?;
            calls += 2;
            for (entry, r) in [("parse_expr", &re), ("parse(SELECT * FROM t WHERE ..)", &rw)] {
                // an error must always carry a position inside the input
                if let Err((_, _, false, m)) = r { return Err(format!("{entry} on the {mode:?} form {text:?}: error position outside the input: {m}")); }
                let strict = mode != Mode::Bare && !(stmt_only && entry == "parse_expr");
                let ok = match r {
                    Ok(got) if got == t => true,
                    // two level-11 forms at a right-open operand: any derivation of the SAME text that respects the table
                    Ok(got) if mode == Mode::Bare && p.ambiguous => print(got, Mode::Bare).out == text,
                    Ok(_) => false,
                    Err(_) => !strict,
                };
                if !ok {
                    return Err(format!("{entry} on the {mode:?} form {text:?} gives {} but the documented table dictates {want}{}", img(r),
                        if strict { "" } else { " (or a parse error positioned inside the input)" }));
                }
            }
            // both grammars must agree (same tree, or same error class at the same place); CAST exists in the statement grammar only
            if !stmt_only {
                let same = match (&re, &rw) {
                    (Ok(a), Ok(b)) => a == b,
                    (Err((c1, at1, _, _)), Err((c2, at2, _, _))) => c1 == c2 && at1 == at2,
                    _ => false,
                };
                if !same { return Err(format!("the two expression parsers disagree on the {mode:?} form {text:?}: parse_expr => {}; statement parser (WHERE) => {}", img(&re), img(&rw))); }
            }
        }
        Ok(calls)
    }

    // ---- enumeration
    /// node constructors
    #[derive(Clone, Debug)]
    pub enum K { Bin(BinaryOp), Un(UnaryOp), IsNull(bool), In(usize, bool), Between(bool), Like(bool), Qual, Call(&'static str, bool, usize), CountStar, CaseSearched, CaseSimpleElse, Cast, Array(usize), Tuple(usize), InSub(bool), Exists }

    impl K {
        pub fn arity(&self) -> usize {
            match self {
                K::Bin(_) | K::Like(_) | K::CaseSearched => 2,
                K::Un(_) | K::IsNull(_) | K::Qual | K::Cast | K::InSub(_) => 1,
                K::CountStar | K::Exists => 0,
                K::In(n, _) => 1 + n,
                K::Between(_) => 3,
                K::Call(_, _, n) | K::Array(n) | K::Tuple(n) => *n,
                K::CaseSimpleElse => 4,
            }
        }
        pub fn build(&self, mut a: Vec<P>) -> P {
            assert_eq!(a.len(), self.arity());
            let mut next = || Box::new(a.remove(0));
            match self {
                K::Bin(o) => { let l = next(); let r = next(); P::Bin(l, *o, r) },
                K::Un(o) => P::Un(*o, next()),
                K::IsNull(n) => P::IsNull(next(), *n),
                K::In(_, n) => { let x = next(); P::In(x, a, *n) },
                K::Between(n) => { let x = next(); let lo = next(); let hi = next(); P::Between(x, lo, hi, *n) },
                K::Like(n) => { let x = next(); let p = next(); P::Like(x, p, *n) },
                K::Qual => P::Qual(next(), "q1".to_string()),
                K::Call(name, d, _) => P::Call((*name).to_string(), *d, a),
                K::CaseSearched => { let c = next(); let r = next(); P::Case(None, vec![(*c, *r)], None) },
                K::CaseSimpleElse => { let o = next(); let c = next(); let r = next(); let e = next(); P::Case(Some(o), vec![(*c, *r)], Some(e)) },
                K::Cast => P::Cast(next(), "Int".to_string()),
                K::Array(_) => P::Array(a),
                K::Tuple(_) => P::Tuple(a),
                K::CountStar => P::Call("COUNT".to_string(), false, vec![P::Lit("*".to_string())]),
                K::InSub(n) => P::InSub(next(), *n),
                K::Exists => P::Exists,
            }
        }
    }

    /// every special (non binary / unary) form of the grammar
    pub fn special_forms() -> Vec<K> {
        vec![K::IsNull(false), K::IsNull(true), K::In(0, false), K::In(1, false), K::In(2, false), K::In(1, true), K::Between(false), K::Between(true),
             K::Like(false), K::Like(true), K::Qual, K::Call("fn1", false, 0), K::Call("fn1", false, 1), K::Call("fn1", false, 2), K::Call("SUM", false, 1),
             K::Call("COUNT", true, 1), K::CountStar, K::CaseSearched, K::CaseSimpleElse, K::Cast, K::Array(2), K::Tuple(2), K::InSub(false), K::InSub(true), K::Exists]
    }
    pub fn ctors(all_binary: bool) -> Vec<K> {
        let mut v: Vec<K> = if all_binary { BINOPS.iter().map(|o| K::Bin(*o)).collect() } else { LEVEL_REPS.iter().map(|o| K::Bin(*o)).collect() };
        v.extend(UNOPS.iter().map(|o| K::Un(*o)));
        v.extend(special_forms());
        v
    }
    pub fn hole() -> P { P::Leaf(String::new()) }

    /// leaf + every constructor of `ks` over leaves (height <= 2)
    pub fn height2(ks: &[K]) -> Vec<P> {
        let mut v = vec![hole()];
        for k in ks { v.push(k.build(vec![hole(); k.arity()])); }
        v
    }

    /// Calls `f` on every tree `k(children)` where the children are taken from `sub`: all combinations for arity <= 2, for larger
    /// arities all combinations at every PAIR of operand positions (the others are leaves).
    pub fn over(k: &K, sub: &[P], f: &mut dyn FnMut(P)) {
        let n = k.arity();
        match n {
            0 => f(k.build(vec![])),
            1 => for x in sub { f(k.build(vec![x.clone()])); },
            2 => for x in sub { for y in sub { f(k.build(vec![x.clone(), y.clone()])); } },
            _ => {
                let mut seen = std::collections::HashSet::new();
                for i in 0..n { for j in i + 1..n { for x in sub { for y in sub {
                    let mut a = vec![hole(); n];
                    a[i] = x.clone();
                    a[j] = y.clone();
                    let t = k.build(a);
                    if seen.insert(format!("{t:?}")) { f(t); }
                } } } }
            },
        }
    }

    /// one operand position gets a tree of `sub`, the others are leaves
    pub fn one_hole(k: &K, sub: &[P], f: &mut dyn FnMut(P)) {
        let n = k.arity();
        for i in 0..n { for x in sub { let mut a = vec![hole(); n]; a[i] = x.clone(); f(k.build(a)); } }
    }

    /// names the leaves a, b, c, ... from left to right
    pub fn label(t: &P, k: &mut usize) -> P {
        let b = |x: &P, k: &mut usize| Box::new(label(x, k));
        match t {
            P::Leaf(_) => { let r = P::Leaf(leaf_name(*k)); *k += 1; r },
            P::Lit(s) => P::Lit(s.clone()),
            P::Other(s) => P::Other(s.clone()),
            P::Un(o, x) => P::Un(*o, b(x, k)),
            P::Bin(l, o, r) => { let l2 = b(l, k); let r2 = b(r, k); P::Bin(l2, *o, r2) },
            P::IsNull(x, n) => P::IsNull(b(x, k), *n),
            P::In(x, v, n) => { let x2 = b(x, k); P::In(x2, v.iter().map(|y| label(y, k)).collect(), *n) },
            P::Between(x, lo, hi, n) => { let x2 = b(x, k); let l2 = b(lo, k); let h2 = b(hi, k); P::Between(x2, l2, h2, *n) },
            P::Like(x, p, n) => { let x2 = b(x, k); let p2 = b(p, k); P::Like(x2, p2, *n) },
            P::Qual(x, n) => P::Qual(b(x, k), n.clone()),
            P::Call(n, d, a) => P::Call(n.clone(), *d, a.iter().map(|y| label(y, k)).collect()),
            P::Case(o, w, e) => {
                let o2 = o.as_deref().map(|x| Box::new(label(x, k)));
                let w2 = w.iter().map(|(c, r)| { let c2 = label(c, k); let r2 = label(r, k); (c2, r2) }).collect();
                let e2 = e.as_deref().map(|x| Box::new(label(x, k)));
                P::Case(o2, w2, e2)
            },
            P::Cast(x, ty) => P::Cast(b(x, k), ty.clone()),
            P::Array(a) => P::Array(a.iter().map(|y| label(y, k)).collect()),
            P::Tuple(a) => P::Tuple(a.iter().map(|y| label(y, k)).collect()),
            P::InSub(x, n) => P::InSub(b(x, k), *n),
            P::Exists => P::Exists,
        }
    }

    /// seeded random tree of height <= h over all constructors; literals as some leaves (never directly under `.`)
    pub fn random(rng: &mut Rng, h: usize, ks: &[K], lit_ok: bool) -> P {
        if h <= 1 || rng.below(6) == 0 {
            if lit_ok && rng.below(4) == 0 { return P::Lit(["1", "'s'", "NULL", "TRUE", "42"][rng.below(5) as usize].to_string()); }
            return hole();
        }
        // half of the inner nodes binary / unary, half special forms
        let k = if rng.below(2) == 0 { let i = rng.below(22) as usize; if i < 19 { K::Bin(BINOPS[i]) } else { K::Un(UNOPS[i - 19]) } } else { ks[rng.below(ks.len() as u64) as usize].clone() };
        let n = k.arity();
        let kids: Vec<P> = (0..n).map(|i| random(rng, h - 1, ks, !(matches!(k, K::Qual) && i == 0))).collect();
        k.build(kids)
    }
}


// ---------------------------------------------------------------------------------------------
// C15.text.equiv.join_page — SELECT with every join kind x every subset of {WHERE, ORDER BY, LIMIT, OFFSET}
// ---------------------------------------------------------------------------------------------
mod page {
    use super::equiv::run_text;
    use query_router::{QueryResult, QueryRouter};
    use relational_engine::{Column, ColumnType, Condition, Row, Schema, Value as RV};
    use serde_json::{json, Value};
    use std::collections::HashMap;

    /// (spelling, engine call) — every join kind / spelling of `Parser::try_parse_join`
    pub const JOINS: [(&str, &str); 10] = [
        ("JOIN", "inner"), ("INNER JOIN", "inner"), ("LEFT JOIN", "left"), ("LEFT OUTER JOIN", "left"), ("RIGHT JOIN", "right"), ("RIGHT OUTER JOIN", "right"),
        ("FULL JOIN", "full"), ("FULL OUTER JOIN", "full"), ("CROSS JOIN", "cross"), ("NATURAL JOIN", "natural"),
    ];
    /// join condition variants: (id, on_a, on_b)
    const CONDS: [(&str, &str, &str); 4] = [("on_k", "k", "k"), ("using_k", "k", "k"), ("on_id", "aid", "bid"), ("alias_on_k", "k", "k")];

    /// pre-state, built with direct engine calls only: t (4 rows, from the text.equiv fixture), ta(aid, k, x) and tb(bid, k, y) with
    /// duplicate keys on both sides and two unmatched rows on each side
    pub fn fixture() -> Result<QueryRouter, String> {
        let r = super::equiv::seeded()?;
        for (t, idc, sc, rows) in [("ta", "aid", "x", [(1, 10, "p"), (2, 20, "q"), (3, 20, "r"), (4, 40, "s"), (6, 60, "t")]),
                                   ("tb", "bid", "y", [(1, 10, "u"), (2, 20, "v"), (3, 30, "w"), (5, 20, "z"), (7, 70, "y")])] {
            let schema = Schema::new(vec![Column::new(idc, ColumnType::Int), Column::new("k", ColumnType::Int), Column::new(sc, ColumnType::String)]);
            r.relational().create_table(t, schema).map_err(|e| e.to_string())?;
            for (id, k, s) in rows {
                let mut m = HashMap::new();
                m.insert(idc.to_string(), RV::Int(id));
                m.insert("k".to_string(), RV::Int(k));
                m.insert(sc.to_string(), RV::String(s.to_string()));
                r.relational().insert(t, m).map_err(|e| e.to_string())?;
            }
        }
        // tn(id, v): v is NULL in two rows
        r.relational().create_table("tn", Schema::new(vec![Column::new("id", ColumnType::Int), Column::new("v", ColumnType::Int).nullable()])).map_err(|e| e.to_string())?;
        for (id, v) in [(1, Some(5)), (2, None), (3, Some(7)), (4, None), (5, Some(1))] {
            let mut m = HashMap::new();
            m.insert("id".to_string(), RV::Int(id));
            m.insert("v".to_string(), v.map_or(RV::Null, RV::Int));
            r.relational().insert("tn", m).map_err(|e| e.to_string())?;
        }
        Ok(r)
    }

    // SQL three-valued logic (None = unknown): a comparison with a missing / NULL operand is unknown, a row is kept iff TRUE
    fn and3(a: Option<bool>, b: Option<bool>) -> Option<bool> { match (a, b) { (Some(false), _) | (_, Some(false)) => Some(false), (Some(true), Some(true)) => Some(true), _ => None } }
    fn or3(a: Option<bool>, b: Option<bool>) -> Option<bool> { match (a, b) { (Some(true), _) | (_, Some(true)) => Some(true), (Some(false), Some(false)) => Some(false), _ => None } }

    /// WHERE shapes on a joined row: (text, predicate on the pair)
    fn join_where(i: u64, la: &str, lb: &str, p: &Pair) -> Option<(String, bool)> {
        let aid = int_of(p.0.as_ref(), "aid");
        let bid = int_of(p.1.as_ref(), "bid");
        let (a, b) = (|f: &dyn Fn(i64) -> bool| aid.map(f), |f: &dyn Fn(i64) -> bool| bid.map(f));
        let (txt, v): (String, Option<bool>) = match i {
            0 => (String::new(), Some(true)),
            1 => (format!("{la}.aid > 1"), a(&|x| x > 1)),
            2 => (format!("{lb}.bid <= 2"), b(&|x| x <= 2)),
            3 => (format!("{la}.aid > 1 AND {lb}.bid <= 2"), and3(a(&|x| x > 1), b(&|x| x <= 2))),
            4 => (format!("{la}.aid = 1 OR {lb}.bid = 5"), or3(a(&|x| x == 1), b(&|x| x == 5))),
            // AND binds tighter than OR
            5 => (format!("{la}.aid = 1 OR {la}.aid = 2 AND {lb}.bid = 5"), or3(a(&|x| x == 1), and3(a(&|x| x == 2), b(&|x| x == 5)))),
            6 => (format!("({la}.aid = 1 OR {la}.aid = 2) AND {lb}.bid = 2"), and3(or3(a(&|x| x == 1), a(&|x| x == 2)), b(&|x| x == 2))),
            7 => (format!("{lb}.bid IS NULL"), Some(bid.is_none())),
            8 => (format!("NOT ({la}.aid = 1)"), a(&|x| x == 1).map(|t| !t)),
            _ => return None,
        };
        Some((txt, v == Some(true)))
    }

    type Pair = (Option<Row>, Option<Row>);

    fn int_of(r: Option<&Row>, col: &str) -> Option<i64> { match r?.get(col)? { RV::Int(i) => Some(*i), _ => None } }

    /// the direct engine call that the grammar dictates for the join kind
    fn direct_join(r: &QueryRouter, kind: &str, on_a: &str, on_b: &str) -> Result<Vec<Pair>, String> {
        let e = r.relational();
        let s = |v: Vec<(Row, Row)>| v.into_iter().map(|(a, b)| (Some(a), Some(b))).collect::<Vec<Pair>>();
        match kind {
            "inner" => e.join("ta", "tb", on_a, on_b).map(s),
            "left" => e.left_join("ta", "tb", on_a, on_b).map(|v| v.into_iter().map(|(a, b)| (Some(a), b)).collect()),
            "right" => e.right_join("ta", "tb", on_a, on_b).map(|v| v.into_iter().map(|(a, b)| (a, Some(b))).collect()),
            "full" => e.full_join("ta", "tb", on_a, on_b),
            "cross" => e.cross_join("ta", "tb").map(s),
            "natural" => e.natural_join("ta", "tb").map(s),
            _ => return Err(format!("unknown join kind {kind}")),
        }.map_err(|e| format!("ERR {e}"))
    }

    /// observable content of a joined row: every column of both sides under `<table or alias>.<column>`, incl. `_id`
    fn pair_img(p: &Pair, la: &str, lb: &str) -> String {
        let mut kv = vec![];
        for (r, l) in [(&p.0, la), (&p.1, lb)] {
            if let Some(r) = r {
                kv.push(format!("{l}._id={:?}", RV::Int(i64::try_from(r.id).unwrap_or(i64::MAX))));
                for (c, v) in &r.values { kv.push(format!("{l}.{c}={v:?}")); }
            }
        }
        kv.sort();
        kv.join(",")
    }
    fn joined_row_img(r: &Row) -> String {
        let mut kv: Vec<String> = r.values.iter().map(|(k, v)| format!("{k}={v:?}")).collect();
        kv.sort();
        kv.join(",")
    }
    fn plain_row_img(r: &Row) -> String { format!("#{}:{}", r.id, joined_row_img(r)) }

    fn opt_usize(v: &Value) -> Result<Option<usize>, String> {
        if v.is_null() { Ok(None) } else { v.as_u64().map(|n| Some(n as usize)).ok_or_else(|| format!("not a number: {v}")) }
    }

    fn page<T>(v: Vec<T>, limit: Option<usize>, offset: Option<usize>) -> Vec<T> {
        v.into_iter().skip(offset.unwrap_or(0)).take(limit.unwrap_or(usize::MAX)).collect()
    }

    /// None-last ascending comparison of optional integers
    fn cmp_nl(a: Option<i64>, b: Option<i64>) -> std::cmp::Ordering {
        match (a, b) { (Some(x), Some(y)) => x.cmp(&y), (Some(_), None) => std::cmp::Ordering::Less, (None, Some(_)) => std::cmp::Ordering::Greater, (None, None) => std::cmp::Ordering::Equal }
    }

    struct Built { text: String, expected: Result<Vec<String>, String>, full_size: usize, full_set: Vec<String>, ordered: bool, joined: bool }

    /// Builds the statement text and the expected rows (the direct engine call on `b`, filtered / sorted / paged as the text dictates).
    fn build(case: &Value, b: &QueryRouter) -> Result<Built, String> {
        let family = case["family"].as_str().ok_or("family")?;
        let wh = case["where"].as_u64().ok_or("where")?;
        let order = case["order"].as_u64().ok_or("order")?;
        let limit = opt_usize(&case["limit"])?;
        let offset = opt_usize(&case["offset"])?;
        let mut tail = String::new();
        let mut joined_override = false;
        let (head, mut rows, ordered): (String, Result<Vec<String>, String>, bool);
        if family == "plain" {
            let (wtxt, cond) = match wh { 0 => ("", Condition::True), 1 => (" WHERE age >= 17", Condition::Ge("age".into(), RV::Int(17))), 2 => (" WHERE age = 17", Condition::Eq("age".into(), RV::Int(17))), _ => return Err("where".into()) };
            head = format!("SELECT * FROM t{wtxt}");
            let mut full = b.relational().select("t", cond).map_err(|e| format!("ERR {e}"));
            if let Ok(v) = &mut full {
                match order {
                    0 => {},
                    1 => { tail.push_str(" ORDER BY id"); v.sort_by_key(|r| int_of(Some(r), "id")); },
                    2 => { tail.push_str(" ORDER BY id DESC"); v.sort_by_key(|r| std::cmp::Reverse(int_of(Some(r), "id"))); },
                    3 => { tail.push_str(" ORDER BY age DESC, id"); v.sort_by_key(|r| (std::cmp::Reverse(int_of(Some(r), "age")), int_of(Some(r), "id"))); },
                    _ => return Err("order".into()),
                }
            }
            rows = full.map(|v| v.iter().map(plain_row_img).collect());
            ordered = order != 0;
        } else if family == "join" {
            let jtxt = case["join"].as_str().ok_or("join")?;
            let kind = JOINS.iter().find(|(s, _)| *s == jtxt).ok_or("unknown join spelling")?.1;
            let cid = case["cond"].as_str().ok_or("cond")?;
            let (la, lb, from_a, from_b, ctxt, on_a, on_b) = if kind == "cross" || kind == "natural" {
                if !cid.is_empty() { return Err("CROSS / NATURAL JOIN take no condition".into()); }
                ("ta", "tb", "ta", "tb", String::new(), "", "")
            } else {
                let (_, on_a, on_b) = *CONDS.iter().find(|(c, _, _)| *c == cid).ok_or("unknown cond")?;
                match cid {
                    "using_k" => ("ta", "tb", "ta", "tb", " USING (k)".to_string(), on_a, on_b),
                    "alias_on_k" => ("l", "r", "ta AS l", "tb AS r", " ON l.k = r.k".to_string(), on_a, on_b),
                    _ => ("ta", "tb", "ta", "tb", format!(" ON ta.{on_a} = tb.{on_b}"), on_a, on_b),
                }
            };
            let wtxt = match join_where(wh, la, lb, &(None, None)) { Some((t, _)) if t.is_empty() => String::new(), Some((t, _)) => format!(" WHERE {t}"), None => return Err("where".into()) };
            head = format!("SELECT * FROM {from_a} {jtxt} {from_b}{ctxt}{wtxt}");
            let mut full = direct_join(b, kind, on_a, on_b);
            if let Ok(v) = &mut full {
                // SQL: a comparison with a missing (NULL) side is not true
                v.retain(|p| join_where(wh, la, lb, p).is_some_and(|(_, keep)| keep));
                let key = |p: &Pair| (int_of(p.0.as_ref(), "aid"), int_of(p.1.as_ref(), "bid"));
                match order {
                    0 => {},
                    // ascending on the unique key (aid, bid); the position of NULL keys never matters for LEFT / RIGHT (a NULL is alone
                    // in its group), for FULL it is stated explicitly
                    1 => match kind {
                        "right" => { tail.push_str(&format!(" ORDER BY {lb}.bid, {la}.aid")); v.sort_by(|p, q| cmp_nl(key(p).1, key(q).1).then(cmp_nl(key(p).0, key(q).0))); },
                        "full" => { tail.push_str(&format!(" ORDER BY {la}.aid NULLS LAST, {lb}.bid NULLS LAST")); v.sort_by(|p, q| cmp_nl(key(p).0, key(q).0).then(cmp_nl(key(p).1, key(q).1))); },
                        _ => { tail.push_str(&format!(" ORDER BY {la}.aid, {lb}.bid")); v.sort_by(|p, q| cmp_nl(key(p).0, key(q).0).then(cmp_nl(key(p).1, key(q).1))); },
                    },
                    // descending, only where no key is NULL
                    2 => {
                        if !matches!(kind, "inner" | "cross" | "natural") { return Err("order 2 is defined for joins without NULL keys only".into()); }
                        tail.push_str(&format!(" ORDER BY {lb}.bid DESC, {la}.aid DESC"));
                        v.sort_by(|p, q| key(q).1.cmp(&key(p).1).then(key(q).0.cmp(&key(p).0)));
                    },
                    _ => return Err("order".into()),
                }
            }
            rows = full.map(|v| v.iter().map(|p| pair_img(p, la, lb)).collect());
            ordered = order != 0;
        } else if family == "order_nulls" {
            let dir = case["dir"].as_str().filter(|d| matches!(*d, "ASC" | "DESC")).ok_or("dir")?;
            let nulls = case["nulls"].as_str().filter(|d| matches!(*d, "FIRST" | "LAST")).ok_or("nulls")?;
            // (sort key or NULL, unique second key, row image)
            let keyed: Result<Vec<(Option<i64>, Option<i64>, String)>, String> = match case["source"].as_str().ok_or("source")? {
                "table" => {
                    head = "SELECT * FROM tn".to_string();
                    tail.push_str(&format!(" ORDER BY v {dir} NULLS {nulls}, id"));
                    b.relational().select("tn", Condition::True).map_err(|e| format!("ERR {e}")).map(|v| v.iter().map(|r| (int_of(Some(r), "v"), int_of(Some(r), "id"), plain_row_img(r))).collect())
                },
                "left_join" => {
                    head = "SELECT * FROM ta LEFT JOIN tb ON ta.k = tb.k".to_string();
                    tail.push_str(&format!(" ORDER BY tb.bid {dir} NULLS {nulls}, ta.aid"));
                    direct_join(b, "left", "k", "k").map(|v| v.iter().map(|p| (int_of(p.1.as_ref(), "bid"), int_of(p.0.as_ref(), "aid"), pair_img(p, "ta", "tb"))).collect())
                },
                _ => return Err("source".into()),
            };
            joined_override = case["source"] == "left_join";
            rows = keyed.map(|mut v| {
                v.sort_by(|x, y| {
                    let by_null = match (x.0.is_none(), y.0.is_none()) { (true, false) => if nulls == "FIRST" { std::cmp::Ordering::Less } else { std::cmp::Ordering::Greater }, (false, true) => if nulls == "FIRST" { std::cmp::Ordering::Greater } else { std::cmp::Ordering::Less }, _ => std::cmp::Ordering::Equal };
                    let by_val = if dir == "ASC" { x.0.cmp(&y.0) } else { y.0.cmp(&x.0) };
                    by_null.then(by_val).then(x.1.cmp(&y.1))
                });
                v.into_iter().map(|x| x.2).collect()
            });
            ordered = true;
        } else { return Err(format!("unknown family {family}")); }
        if let Some(n) = limit { tail.push_str(&format!(" LIMIT {n}")); }
        if let Some(m) = offset { tail.push_str(&format!(" OFFSET {m}")); }
        let (full_size, full_set) = match &rows { Ok(v) => { let mut s = v.clone(); s.sort(); (v.len(), s) }, Err(_) => (0, vec![]) };
        if let Ok(v) = rows { rows = Ok(page(v, limit, offset)); }
        Ok(Built { text: format!("{head}{tail}"), expected: rows, full_size, full_set, ordered, joined: family == "join" || joined_override })
    }

    /// size of the unpaged result of the case (for the LIMIT / OFFSET grid)
    pub fn full_size(case: &Value, b: &QueryRouter) -> Result<usize, String> { build(case, b).map(|x| x.full_size) }

    /// two routers with the identical pre-state: `a` executes the text, `b` the direct engine calls
    pub struct Ctx { a: QueryRouter, b: QueryRouter, img: String }
    impl Ctx {
        pub fn new() -> Result<Self, String> {
            let (a, b) = (fixture()?, fixture()?);
            let img = super::equiv::state_img(&a);
            if img != super::equiv::state_img(&b) { return Err("the two fixtures differ".into()); }
            Ok(Self { a, b, img })
        }
        /// is the pre-state still in place on both routers?
        pub fn intact(&self) -> bool { super::equiv::state_img(&self.a) == self.img && super::equiv::state_img(&self.b) == self.img }
    }

    /// Err = the text path and the direct path differ (fresh routers).
    pub fn eval(case: &Value) -> Result<String, String> { eval_in(case, &Ctx::new()?) }

    /// Same on given routers whose state is the pre-state (every statement of this family is read-only, which is checked).
    pub fn eval_in(case: &Value, ctx: &Ctx) -> Result<String, String> {
        let entry = case["entry"].as_str().ok_or("entry")?;
        let (a, b) = (&ctx.a, &ctx.b);
        let before = ctx.img.clone();
        let bt = build(case, b)?;
        let got = match run_text(a, entry, &bt.text) {
            Err(p) => return Err(format!("{entry}({:?}) PANICKED: {p}", bt.text)),
            Ok(Ok(QueryResult::Rows(rows))) => Ok(rows.iter().map(|r| if bt.joined { joined_row_img(r) } else { plain_row_img(r) }).collect::<Vec<String>>()),
            Ok(Ok(o)) => Err(format!("{o:?}")),
            Ok(Err(e)) => Err(format!("ERR {e}")),
        };
        let after = super::equiv::state_img(a);
        // The legacy `execute` grammar has no ORDER BY: refusing such a statement (an error, state untouched) is not a
        // different answer.  What the property excludes is a result that differs from the direct call.
        let refused_outside_grammar = entry == "execute" && case["order"].as_u64().unwrap_or(0) != 0 && matches!(&got, Err(g) if g.starts_with("ERR "));
        let same = refused_outside_grammar || match (&got, &bt.expected) {
            (Ok(g), Ok(x)) => g == x,
            (Err(g), Err(x)) => g == x,
            _ => false,
        };
        if refused_outside_grammar && before == after && after == super::equiv::state_img(b) {
            return Ok(format!("{entry}({:?}): refused ({}), ORDER BY is outside the legacy grammar; state unchanged", bt.text, got.as_ref().err().cloned().unwrap_or_default()));
        }
        if same && before == after && after == super::equiv::state_img(b) {
            return Ok(format!("{entry}({:?}): {} row(s) of {}, same rows in the same order as the direct call, state unchanged", bt.text, bt.expected.as_ref().map_or(0, Vec::len), bt.full_size));
        }
        // what exactly differs
        let mut why = vec![];
        if let (Ok(g), Ok(x)) = (&got, &bt.expected) {
            if g.len() != x.len() { why.push(format!("{} row(s) instead of {}", g.len(), x.len())); }
            if g.iter().any(|r| bt.full_set.binary_search(r).is_err()) { why.push("a row that is not in the unpaged result".to_string()); }
            let (mut gs, mut xs) = (g.clone(), x.clone());
            gs.sort(); xs.sort();
            if gs == xs && g != x { why.push(if bt.ordered { "right rows, wrong order".to_string() } else { "right rows, but not in the engine's own order".to_string() }); }
            else if g.len() == x.len() && gs != xs { why.push("wrong page of the result".to_string()); }
        }
        if before != after { why.push("the statement changed the engine state".to_string()); }
        Err(format!("{entry}({:?}) => {}; direct engine call + {} => {} [{}]", bt.text,
            got.as_ref().map_or_else(Clone::clone, |g| format!("Rows{g:?}")),
            if bt.ordered { "sort on the unique key + skip(OFFSET).take(LIMIT)" } else { "skip(OFFSET).take(LIMIT) in the engine's order" },
            bt.expected.as_ref().map_or_else(Clone::clone, |x| format!("Rows{x:?}")), why.join("; ")))
    }

    fn grid(size: usize) -> Vec<usize> {
        let mut v = vec![0, 1, 2, size.saturating_sub(1), size, size + 1];
        v.sort_unstable();
        v.dedup();
        v
    }

    /// every case of the family (the grid depends on the size of the unpaged result, computed with direct engine calls)
    pub fn cases() -> Result<Vec<(&'static str, Value)>, String> {
        let b = fixture()?;
        let mut out: Vec<(&'static str, Value)> = vec![];
        let mut shapes: Vec<Value> = vec![];
        for (jtxt, kind) in JOINS {
            let conds: Vec<&str> = match kind {
                "cross" | "natural" => vec![""],
                _ if jtxt.contains("OUTER") => vec!["on_k"],
                _ => if matches!(jtxt, "JOIN" | "LEFT JOIN" | "FULL JOIN") { vec!["on_k", "using_k", "on_id", "alias_on_k"] } else { vec!["on_k", "using_k", "on_id"] },
            };
            for c in conds { for wh in 0..3 { for order in 0..3 {
                if order == 2 && !matches!(kind, "inner" | "cross" | "natural") { continue; }
                shapes.push(json!({"family": "join", "join": jtxt, "cond": c, "where": wh, "order": order, "entry": "execute_parsed"}));
            } } }
        }
        for wh in 0..3 { for order in 0..4 { shapes.push(json!({"family": "plain", "where": wh, "order": order, "entry": "execute_parsed"})); } }
        // the legacy grammar of `execute` has SELECT * FROM t [WHERE c] [LIMIT n] only
        for wh in 0..3 { shapes.push(json!({"family": "plain", "where": wh, "order": 0, "entry": "execute"})); }
        for sh in shapes {
            let mut probe = sh.clone();
            probe["limit"] = Value::Null;
            probe["offset"] = Value::Null;
            let g = grid(full_size(&probe, &b)?);
            let legacy = sh["entry"] == "execute";
            let mut lims: Vec<Value> = vec![Value::Null];
            lims.extend(g.iter().map(|n| json!(n)));
            let mut offs: Vec<Value> = vec![Value::Null];
            if !legacy { offs.extend(g.iter().map(|n| json!(n))); }
            for l in &lims { for o in &offs {
                let mut c = sh.clone();
                c["limit"] = l.clone();
                c["offset"] = o.clone();
                out.push(("C15.text.equiv.join_page", c));
            } }
        }
        // compound / non-comparison WHERE on a joined row (every join kind, unpaged)
        for jtxt in ["JOIN", "LEFT JOIN", "RIGHT JOIN", "FULL JOIN", "CROSS JOIN", "NATURAL JOIN"] {
            let c = if matches!(jtxt, "CROSS JOIN" | "NATURAL JOIN") { "" } else { "on_k" };
            for wh in 3..9 { out.push(("C15.text.equiv.join_where", json!({"family": "join", "join": jtxt, "cond": c, "where": wh, "order": 0, "limit": null, "offset": null, "entry": "execute_parsed"}))); }
        }
        // explicit NULLS FIRST / LAST in both directions, on a nullable column and on the missing side of an outer join
        for source in ["table", "left_join"] { for dir in ["ASC", "DESC"] { for nulls in ["FIRST", "LAST"] { for limit in [Value::Null, json!(2)] {
            out.push(("C15.text.equiv.order_nulls", json!({"family": "order_nulls", "source": source, "dir": dir, "nulls": nulls, "where": 0, "order": 1, "limit": limit, "offset": null, "entry": "execute_parsed"})));
        } } } }
        // `execute` (the entry point the gRPC server calls) on the paging / ordering clauses its legacy grammar lacks
        for (order, limit, offset) in [(0, json!(1), json!(1)), (0, Value::Null, json!(1)), (0, json!(2), json!(0)), (1, Value::Null, Value::Null), (2, json!(2), Value::Null)] {
            out.push(("C15.text.equiv.legacy_page", json!({"family": "plain", "where": 0, "order": order, "limit": limit, "offset": offset, "entry": "execute"})));
        }
        // the whole LIMIT x OFFSET grid (0..=size+1 and absent) through `execute`, unordered
        for l in 0..=6u64 { for o in 0..=6u64 {
            let (limit, offset) = (if l == 6 { Value::Null } else { json!(l) }, if o == 6 { Value::Null } else { json!(o) });
            if (l, o) == (1, 1) || (l, o) == (6, 1) || (l, o) == (2, 0) || (l, o) == (6, 6) { continue; } // listed above / no paging clause
            out.push(("C15.text.equiv.legacy_page", json!({"family": "plain", "where": 0, "order": 0, "limit": limit, "offset": offset, "entry": "execute"})));
        } }
        Ok(out)
    }
}

// ---------------------------------------------------------------------------------------------
// C15.text.equiv.graph_algo — GRAPH algorithm statements, NEIGHBORS, PATH, FIND NODE / EDGE vs the direct graph_engine call
// ---------------------------------------------------------------------------------------------
mod galgo {
    use super::equiv::run_text;
    use graph_engine::{CentralityConfig, CommunityConfig, Direction, GraphEngine, GraphError, PageRankConfig, PropertyValue};
    use query_router::{QueryResult, QueryRouter};
    use serde_json::{json, Value};
    use std::collections::{BTreeMap, BTreeSet, HashMap};

    pub const OB: &str = "C15.text.equiv.graph_algo";
    const TOL: f64 = 1e-9;
    /// how many direct answers the text answer is compared with before it counts as different (the engine may break ties by hash order)
    const TRIES: usize = 8;
    /// (label, name)
    const NODES: [(&str, &str); 8] = [("hubn", "h"), ("plain", "a"), ("plain", "b"), ("plain", "c"), ("sinkn", "s"), ("plain", "d"), ("plain", "e"), ("plain", "f")];
    /// hub h -> a, b, c; sink s <- a, b, c; chain c -> d -> e; 2-cycle e <-> f; two edge types
    const EDGES: [(usize, usize, &str); 10] = [(0, 1, "follows"), (0, 2, "follows"), (0, 3, "follows"), (1, 4, "follows"), (2, 4, "follows"), (3, 4, "likes"),
                                               (3, 5, "follows"), (5, 6, "follows"), (6, 7, "likes"), (7, 6, "follows")];
    /// index of a node that does not exist
    const MISSING: u64 = 99;
    const MISSING_ID: u64 = 999_999;

    pub struct Fx { pub r: QueryRouter, pub ids: Vec<u64>, pub img: String }

    pub fn graph_img(g: &GraphEngine) -> String {
        let mut n: Vec<String> = g.all_nodes().iter().map(|x| format!("{}:{:?}:{:?}", x.id, x.labels, x.properties.iter().collect::<BTreeMap<_, _>>())).collect();
        n.sort();
        let mut e: Vec<String> = g.all_edges().iter().map(|x| format!("{}:{}->{}:{}:{}", x.id, x.from, x.to, x.edge_type, x.directed)).collect();
        e.sort();
        format!("nodes={n:?} edges={e:?}")
    }

    pub fn fixture() -> Result<Fx, String> {
        let r = QueryRouter::new();
        let mut ids = vec![];
        for (label, name) in NODES {
            let mut p = HashMap::new();
            p.insert("name".to_string(), PropertyValue::String(name.to_string()));
            ids.push(r.graph().create_node(label, p).map_err(|e| e.to_string())?);
        }
        for (a, b, t) in EDGES { r.graph().create_edge(ids[a], ids[b], t, HashMap::new(), true).map_err(|e| e.to_string())?; }
        let img = graph_img(r.graph());
        Ok(Fx { r, ids, img })
    }

    /// statement head and its optional clauses in the documented order: (case key, values used by the enumeration)
    fn clauses(stmt: &str) -> Option<(&'static str, Vec<(&'static str, Vec<Value>)>)> {
        let dir = ("direction", vec![json!("OUTGOING"), json!("INCOMING"), json!("BOTH")]);
        let et = ("edge_type", vec![json!("follows")]);
        Some(match stmt {
            "pagerank" => ("GRAPH PAGERANK", vec![("damping", vec![json!(0.5)]), ("tolerance", vec![json!(0.001)]), ("iterations", vec![json!(3)]), dir, et]),
            "betweenness" => ("GRAPH BETWEENNESS CENTRALITY", vec![("sampling", vec![json!(0.5), json!(1.0)]), dir, et]),
            "closeness" => ("GRAPH CLOSENESS CENTRALITY", vec![dir, et]),
            "eigenvector" => ("GRAPH EIGENVECTOR CENTRALITY", vec![("iterations", vec![json!(5)]), ("tolerance", vec![json!(0.01)]), dir, et]),
            "louvain" => ("GRAPH LOUVAIN COMMUNITIES", vec![("resolution", vec![json!(0.5)]), ("passes", vec![json!(1)]), dir, et]),
            "label_propagation" => ("GRAPH LABEL PROPAGATION", vec![("iterations", vec![json!(2)]), dir, et]),
            _ => return None,
        })
    }
    pub const ALGOS: [&str; 6] = ["pagerank", "betweenness", "closeness", "eigenvector", "louvain", "label_propagation"];

    fn num_text(v: &Value) -> Result<String, String> {
        if let Some(i) = v.as_u64() { return Ok(i.to_string()); }
        let f = v.as_f64().filter(|f| f.is_finite() && *f >= 0.0).ok_or("clause value must be a non-negative number")?;
        let t = format!("{f}");
        Ok(if t.contains('.') { t } else { format!("{t}.0") })
    }
    fn direction(v: &Value) -> Result<Option<Direction>, String> {
        Ok(match v.as_str() { None if v.is_null() => None, Some("OUTGOING") => Some(Direction::Outgoing), Some("INCOMING") => Some(Direction::Incoming), Some("BOTH") => Some(Direction::Both), _ => return Err("direction".into()) })
    }
    fn opt_str(v: &Value) -> Result<Option<String>, String> {
        if v.is_null() { return Ok(None); }
        v.as_str().filter(|s| !s.is_empty() && s.chars().all(|c| c.is_ascii_alphanumeric() || c == '_')).map(|s| Some(s.to_string())).ok_or_else(|| "identifier expected".to_string())
    }
    fn opt_f64(v: &Value) -> Result<Option<f64>, String> { if v.is_null() { Ok(None) } else { v.as_f64().map(Some).ok_or_else(|| "number expected".to_string()) } }
    fn opt_usize(v: &Value) -> Result<Option<usize>, String> { if v.is_null() { Ok(None) } else { v.as_u64().map(|n| Some(n as usize)).ok_or_else(|| "non-negative integer expected".to_string()) } }
    fn node_id(v: &Value, fx: &Fx) -> Result<u64, String> {
        let i = v.as_u64().ok_or("node index")?;
        if i == MISSING { Ok(MISSING_ID) } else { fx.ids.get(i as usize).copied().ok_or_else(|| "node index out of range".to_string()) }
    }

    /// the statement text of a case
    pub fn text(case: &Value, fx: &Fx) -> Result<String, String> {
        let stmt = case["stmt"].as_str().ok_or("stmt")?;
        if let Some((head, cl)) = clauses(stmt) {
            let mut parts = vec![];
            for (key, _) in &cl {
                let v = &case[*key];
                if v.is_null() { continue; }
                parts.push(match *key {
                    "direction" => { direction(v)?; v.as_str().unwrap_or("").to_string() },
                    "edge_type" => format!("EDGE TYPE {}", opt_str(v)?.unwrap_or_default()),
                    k => format!("{} {}", k.to_uppercase(), num_text(v)?),
                });
            }
            if case["rev"].as_bool() == Some(true) { parts.reverse(); }
            return Ok(std::iter::once(head.to_string()).chain(parts).collect::<Vec<_>>().join(" "));
        }
        let lim = |v: &Value| -> Result<String, String> { Ok(opt_usize(v)?.map_or(String::new(), |n| format!(" LIMIT {n}"))) };
        Ok(match stmt {
            "neighbors" => format!("NEIGHBORS {}{}{}", node_id(&case["node"], fx)?, direction(&case["direction"])?.map_or(String::new(), |_| format!(" {}", case["direction"].as_str().unwrap_or(""))),
                                   opt_str(&case["edge_type"])?.map_or(String::new(), |t| format!(" : {t}"))),
            "path" => format!("PATH {}{} -> {}{}", if case["shortest"].as_bool() == Some(true) { "SHORTEST " } else { "" }, node_id(&case["from"], fx)?, node_id(&case["to"], fx)?, lim(&case["limit"])?),
            "find_node" => format!("FIND NODE{}{}", opt_str(&case["label"])?.map_or(String::new(), |l| format!(" {l}")), lim(&case["limit"])?),
            "find_edge" => format!("FIND EDGE{}{}", opt_str(&case["edge_type"])?.map_or(String::new(), |l| format!(" {l}")), lim(&case["limit"])?),
            _ => return Err(format!("unknown stmt {stmt}")),
        })
    }

    fn close(a: f64, b: f64) -> bool { a == b || (a - b).abs() <= TOL }
    fn close_opt(a: Option<f64>, b: Option<f64>) -> bool { match (a, b) { (Some(x), Some(y)) => close(x, y), (None, None) => true, _ => false } }
    fn scores_diff(text: &[(u64, f64)], direct: &HashMap<u64, f64>) -> Vec<String> {
        let mut why = vec![];
        let t: BTreeMap<u64, f64> = text.iter().copied().collect();
        if t.len() != text.len() { why.push("a node is listed twice".to_string()); }
        if t.keys().copied().collect::<BTreeSet<_>>() != direct.keys().copied().collect::<BTreeSet<_>>() {
            why.push(format!("node sets differ: text {:?}, direct {:?}", t.keys().collect::<Vec<_>>(), direct.keys().collect::<BTreeSet<_>>()));
        }
        let bad: Vec<String> = t.iter().filter_map(|(n, s)| direct.get(n).filter(|d| !close(*s, **d)).map(|d| format!("node {n}: text {s} / direct {d}"))).collect();
        if !bad.is_empty() { why.push(format!("scores differ by more than 1e-9: {}", bad.join(", "))); }
        why
    }
    fn sorted_members(m: &HashMap<u64, Vec<u64>>) -> BTreeMap<u64, Vec<u64>> { m.iter().map(|(k, v)| { let mut v = v.clone(); v.sort_unstable(); (*k, v) }).collect() }
    fn res_short(r: &Result<QueryResult, query_router::RouterError>) -> String {
        match r { Ok(o) => super::short(&format!("{o:?}")), Err(e) => format!("ERR {e}") }
    }
    /// `diff` compares the text answer with ONE fresh direct answer (empty = equal); equal to one of TRIES direct answers is enough
    fn some_direct_answer_matches(mut diff: impl FnMut() -> Result<Vec<String>, Vec<String>>) -> Result<(), Vec<String>> {
        let mut last = vec![];
        for _ in 0..TRIES {
            let w = diff()?;
            if w.is_empty() { return Ok(()); }
            last = w;
        }
        Err(last)
    }

    /// Runs the direct engine call the case dictates and compares it with the text result.  Ok(summary) / Err(differences).
    fn compare(case: &Value, fx: &Fx, got: &Result<QueryResult, query_router::RouterError>) -> Result<String, Vec<String>> {
        let g = fx.r.graph();
        let stmt = case["stmt"].as_str().unwrap_or("");
        let e1 = |e: String| vec![e];
        let dir = direction(&case["direction"]).map_err(e1)?;
        let et = opt_str(&case["edge_type"]).map_err(e1)?;
        // no clause written: the statement must also equal `engine.call(None)`
        let none_written = clauses(stmt).is_some_and(|(_, cl)| cl.iter().all(|(k, _)| case[*k].is_null()));
        let mut why: Vec<String> = vec![];
        let summary;
        match stmt {
            "pagerank" => {
                let mut c = PageRankConfig::default();
                if let Some(x) = opt_f64(&case["damping"]).map_err(e1)? { c.damping = x; }
                if let Some(x) = opt_f64(&case["tolerance"]).map_err(e1)? { c.tolerance = x; }
                if let Some(x) = opt_usize(&case["iterations"]).map_err(e1)? { c.max_iterations = x; }
                if let Some(d) = dir { c.direction = d; }
                if et.is_some() { c.edge_type = et.clone(); }
                summary = format!("pagerank({c:?}){}", if none_written { " and pagerank(None)" } else { "" });
                let Ok(QueryResult::PageRank(t)) = got else { return Err(vec![format!("the text result is {}, expected a PageRank result [direct: {summary}]", res_short(got))]) };
                let mut cfgs = vec![Some(c)];
                if none_written { cfgs.push(None); }
                for cfg in cfgs {
                    if let Err(w) = some_direct_answer_matches(|| {
                        let d = g.pagerank(cfg.clone()).map_err(|e| vec![format!("direct pagerank failed: {e}")])?;
                        let mut w = scores_diff(&t.items.iter().map(|i| (i.node_id, i.score)).collect::<Vec<_>>(), &d.scores);
                        if t.iterations != d.iterations || t.converged != d.converged || !close(t.convergence, d.convergence) {
                            w.push(format!("iterations/converged/convergence: text {}/{}/{} vs direct {}/{}/{}", t.iterations, t.converged, t.convergence, d.iterations, d.converged, d.convergence));
                        }
                        Ok(w)
                    }) { why.extend(w); }
                }
            },
            "betweenness" | "closeness" | "eigenvector" => {
                let mut c = CentralityConfig::default();
                if let Some(x) = opt_f64(&case["sampling"]).map_err(e1)? { c.sampling_ratio = x; }
                if let Some(x) = opt_f64(&case["tolerance"]).map_err(e1)? { c.tolerance = x; }
                if let Some(x) = opt_usize(&case["iterations"]).map_err(e1)? { c.max_iterations = x; }
                if let Some(d) = dir { c.direction = d; }
                if et.is_some() { c.edge_type = et.clone(); }
                summary = format!("{stmt}_centrality({c:?}){}", if none_written { " and (None)" } else { "" });
                let call = |cfg: Option<CentralityConfig>| match stmt { "betweenness" => g.betweenness_centrality(cfg), "closeness" => g.closeness_centrality(cfg), _ => g.eigenvector_centrality(cfg) };
                let Ok(QueryResult::Centrality(t)) = got else { return Err(vec![format!("the text result is {}, expected a Centrality result [direct: {summary}]", res_short(got))]) };
                let mut cfgs = vec![Some(c)];
                if none_written { cfgs.push(None); }
                for cfg in cfgs {
                    if let Err(w) = some_direct_answer_matches(|| {
                        let d = call(cfg.clone()).map_err(|e| vec![format!("direct {stmt}_centrality failed: {e}")])?;
                        let mut w = scores_diff(&t.items.iter().map(|i| (i.node_id, i.score)).collect::<Vec<_>>(), &d.scores);
                        if format!("{:?}", t.centrality_type) != format!("{:?}", d.centrality_type) || t.iterations != d.iterations || t.converged != d.converged || t.sample_count != d.sample_count {
                            w.push(format!("type/iterations/converged/sample_count: text {:?}/{:?}/{:?}/{:?} vs direct {:?}/{:?}/{:?}/{:?}", t.centrality_type, t.iterations, t.converged, t.sample_count, d.centrality_type, d.iterations, d.converged, d.sample_count));
                        }
                        Ok(w)
                    }) { why.extend(w); }
                }
            },
            "louvain" | "label_propagation" => {
                let mut c = CommunityConfig::default();
                if let Some(x) = opt_f64(&case["resolution"]).map_err(e1)? { c.resolution = x; }
                if let Some(x) = opt_usize(&case["passes"]).map_err(e1)? { c.max_passes = x; }
                if let Some(x) = opt_usize(&case["iterations"]).map_err(e1)? { c.max_iterations = x; }
                if let Some(d) = dir { c.direction = d; }
                if et.is_some() { c.edge_type = et.clone(); }
                summary = format!("{stmt}({c:?}){}", if none_written { " and (None)" } else { "" });
                let call = |cfg: Option<CommunityConfig>| if stmt == "louvain" { g.louvain_communities(cfg) } else { g.label_propagation(cfg) };
                let Ok(QueryResult::Communities(t)) = got else { return Err(vec![format!("the text result is {}, expected a Communities result [direct: {summary}]", res_short(got))]) };
                let t_comm: BTreeMap<u64, u64> = t.items.iter().map(|i| (i.node_id, i.community_id)).collect();
                if t_comm.len() != t.items.len() { why.push("a node is listed twice".to_string()); }
                let mut cfgs = vec![Some(c)];
                if none_written { cfgs.push(None); }
                // The engine visits the nodes in a per-call random order (`get_all_node_ids` collects a HashSet), so ties are broken
                // differently from call to call and no finite number of direct calls enumerates the admissible answers.  When none of
                // the direct answers equals the text answer, the text answer is held to what EVERY admissible answer satisfies:
                // it is a partition of the direct call's node set with consistent member lists and count.
                let structurally_valid = |d_nodes: &BTreeSet<u64>| {
                    let keys: BTreeSet<u64> = t_comm.keys().copied().collect();
                    let listed: Vec<u64> = t.members.values().flatten().copied().collect();
                    keys == *d_nodes && t_comm.len() == t.items.len() && listed.len() == keys.len()
                        && t.members.iter().all(|(cid, l)| l.iter().all(|n| t_comm.get(n) == Some(cid)))
                        && t.community_count == t.members.len()
                };
                for cfg in cfgs {
                    let mut d_nodes: BTreeSet<u64> = BTreeSet::new();
                    if let Err(w) = some_direct_answer_matches(|| {
                        let d = call(cfg.clone()).map_err(|e| vec![format!("direct {stmt} failed: {e}")])?;
                        d_nodes = d.communities.keys().copied().collect();
                        let mut w = vec![];
                        let d_comm: BTreeMap<u64, u64> = d.communities.iter().map(|(k, v)| (*k, *v)).collect();
                        if t_comm != d_comm { w.push(format!("community assignment: text {t_comm:?} vs direct {d_comm:?}")); }
                        if sorted_members(&t.members) != sorted_members(&d.members) { w.push(format!("members: text {:?} vs direct {:?}", sorted_members(&t.members), sorted_members(&d.members))); }
                        if t.community_count != d.community_count || t.passes != d.passes || t.iterations != d.iterations || !close_opt(t.modularity, d.modularity) {
                            w.push(format!("count/passes/iterations/modularity: text {}/{:?}/{:?}/{:?} vs direct {}/{:?}/{:?}/{:?}", t.community_count, t.passes, t.iterations, t.modularity, d.community_count, d.passes, d.iterations, d.modularity));
                        }
                        Ok(w)
                    }) { if !structurally_valid(&d_nodes) { why.extend(w); why.push("and the text answer is not a consistent partition of the node set".to_string()); } }
                }
            },
            "neighbors" => {
                let id = node_id(&case["node"], fx).map_err(e1)?;
                let dd = dir.unwrap_or(Direction::Outgoing);
                summary = format!("neighbors({id}, {et:?}, {dd:?}, None)");
                let d = g.neighbors(id, et.as_deref(), dd, None).map(|v| v.iter().map(|n| n.id).collect::<BTreeSet<u64>>());
                match (got, &d) {
                    (Ok(QueryResult::Ids(t)), Ok(d)) => {
                        let ts: BTreeSet<u64> = t.iter().copied().collect();
                        if ts.len() != t.len() { why.push(format!("a neighbour is listed twice: {t:?}")); }
                        if ts != *d { why.push(format!("text {ts:?} vs direct {d:?}")); }
                    },
                    (Err(_), Err(_)) => {},
                    _ => why.push(format!("text {} vs direct {:?}", res_short(got), d.as_ref().map_err(ToString::to_string))),
                }
            },
            "path" => {
                let (a, b) = (node_id(&case["from"], fx).map_err(e1)?, node_id(&case["to"], fx).map_err(e1)?);
                if let Some(n) = opt_usize(&case["limit"]).map_err(e1)? {
                    if n < NODES.len() { return Err(vec!["PATH .. LIMIT n is only a case for n >= the node count (what LIMIT bounds is not specified)".to_string()]); }
                }
                summary = format!("find_path({a}, {b}, None)");
                if let Err(w) = some_direct_answer_matches(|| {
                    let d = match g.find_path(a, b, None) { Ok(p) => Ok(p.nodes), Err(GraphError::PathNotFound) => Ok(vec![]), Err(e) => Err(e.to_string()) };
                    Ok(match (got, &d) {
                        (Ok(QueryResult::Path(t)), Ok(d)) if t == d => vec![],
                        // several shortest paths: which one is returned depends on the engine's per-call node order
                        (Ok(QueryResult::Path(t)), Ok(d)) if t.len() == d.len() && t.first() == d.first() && t.last() == d.last() => vec![],
                        (Err(_), Err(_)) => vec![],
                        _ => vec![format!("text {} vs direct {d:?}", res_short(got))],
                    })
                }) { why.extend(w); }
            },
            "find_node" | "find_edge" => {
                let limit = opt_usize(&case["limit"]).map_err(e1)?;
                // id -> the fields the unified item must show
                let full: BTreeMap<String, BTreeMap<String, String>> = if stmt == "find_node" {
                    let label = opt_str(&case["label"]).map_err(e1)?;
                    let nodes = match &label { Some(l) => g.find_nodes_by_label(l).map_err(|e| vec![format!("direct find_nodes_by_label failed: {e}")])?, None => g.all_nodes() };
                    nodes.iter().map(|n| {
                        let mut f = BTreeMap::new();
                        f.insert("label".to_string(), n.labels.join(":"));
                        if let Some(PropertyValue::String(x)) = n.properties.get("name") { f.insert("name".to_string(), x.clone()); }
                        (n.id.to_string(), f)
                    }).collect()
                } else {
                    let edges = match &et { Some(t) => g.find_edges_by_type(t).map_err(|e| vec![format!("direct find_edges_by_type failed: {e}")])?, None => g.all_edges() };
                    edges.iter().map(|e| (e.id.to_string(), [("from".to_string(), e.from.to_string()), ("to".to_string(), e.to.to_string()), ("type".to_string(), e.edge_type.clone())].into_iter().collect())).collect()
                };
                let want_n = limit.map_or(full.len(), |n| n.min(full.len()));
                summary = format!("{} -> {want_n} of {} item(s)", if stmt == "find_node" { "find_nodes_by_label / all_nodes" } else { "find_edges_by_type / all_edges" }, full.len());
                let Ok(QueryResult::Unified(t)) = got else { return Err(vec![format!("the text result is {}, expected a Unified result [direct: {summary}]", res_short(got))]) };
                let ids: BTreeSet<&String> = t.items.iter().map(|i| &i.id).collect();
                if ids.len() != t.items.len() { why.push("an item is listed twice".to_string()); }
                if t.items.len() != want_n { why.push(format!("{} item(s), expected {want_n} (direct call: {}, LIMIT {limit:?})", t.items.len(), full.len())); }
                for i in &t.items {
                    match full.get(&i.id) {
                        None => why.push(format!("item {} is not in the direct answer {:?}", i.id, full.keys().collect::<Vec<_>>())),
                        Some(f) => for (k, v) in f { if i.data.get(k) != Some(v) { why.push(format!("item {}: field {k} = {:?}, direct {v:?}", i.id, i.data.get(k))); } },
                    }
                }
            },
            _ => return Err(vec![format!("unknown stmt {stmt}")]),
        }
        if why.is_empty() { Ok(summary) } else { why.push(format!("[direct: {summary}]")); Err(why) }
    }

    /// Err = the text path and the direct path differ (or the statement changed the graph)
    pub fn eval_in(case: &Value, fx: &Fx) -> Result<String, String> {
        let q = text(case, fx)?;
        let got = match run_text(&fx.r, "execute_parsed", &q) { Ok(r) => r, Err(p) => return Err(format!("execute_parsed({q:?}) PANICKED: {p}")) };
        let cmp = compare(case, fx, &got);
        let after = graph_img(fx.r.graph());
        match cmp {
            Ok(sum) if after == fx.img => Ok(format!("execute_parsed({q:?}) == {sum}; graph unchanged")),
            Ok(_) => Err(format!("execute_parsed({q:?}) changed the graph: {after} (before: {})", fx.img)),
            Err(why) => Err(format!("execute_parsed({q:?}) => {}; differs from the direct graph_engine call: {}{}", res_short(&got), why.join(" | "), if after == fx.img { "" } else { " | and the statement changed the graph" })),
        }
    }
    pub fn eval(case: &Value) -> Result<String, String> { eval_in(case, &fixture()?) }

    pub fn cases() -> Vec<Value> {
        let mut out = vec![];
        for stmt in ALGOS {
            let (_, cl) = clauses(stmt).expect("algo");
            // every subset of the optional clauses x every value of the written ones
            let mut combos: Vec<Vec<(&str, Value)>> = vec![vec![]];
            for (key, vals) in &cl {
                let mut next = vec![];
                for c in &combos {
                    next.push(c.clone());
                    for v in vals { let mut d = c.clone(); d.push((*key, v.clone())); next.push(d); }
                }
                combos = next;
            }
            for c in combos {
                let mut j = json!({"stmt": stmt});
                for (k, v) in &c { j[*k] = v.clone(); }
                out.push(j.clone());
                if c.len() >= 2 { j["rev"] = json!(true); out.push(j); }
            }
        }
        let dirs = [Value::Null, json!("OUTGOING"), json!("INCOMING"), json!("BOTH")];
        for node in (0..NODES.len() as u64).chain([MISSING]) { for d in &dirs { for t in [Value::Null, json!("follows"), json!("likes")] {
            out.push(json!({"stmt": "neighbors", "node": node, "direction": d, "edge_type": t}));
        } } }
        for a in 0..NODES.len() as u64 { for b in 0..NODES.len() as u64 { for shortest in [false, true] { for limit in [Value::Null, json!(16)] {
            out.push(json!({"stmt": "path", "from": a, "to": b, "shortest": shortest, "limit": limit}));
        } } } }
        out.push(json!({"stmt": "path", "from": 0, "to": MISSING, "shortest": false, "limit": null}));
        out.push(json!({"stmt": "path", "from": MISSING, "to": 4, "shortest": true, "limit": null}));
        for limit in [Value::Null, json!(0), json!(2), json!(100)] {
            for l in [Value::Null, json!("hubn"), json!("plain"), json!("nolabel")] { out.push(json!({"stmt": "find_node", "label": l, "limit": limit})); }
            for t in [Value::Null, json!("follows"), json!("likes"), json!("notype")] { out.push(json!({"stmt": "find_edge", "edge_type": t, "limit": limit})); }
        }
        out
    }
}
// ---------------------------------------------------------------------------------------------

const OBS: [(&str, &str); 16] = [
    ("C15.text.equiv.cached", "QueryRouter::execute_parsed with init_cache() vs the same router without a query cache (read, write, read)"),
    ("C15.text.equiv.graph_algo", "QueryRouter::execute_parsed (exec_graph_algorithm / exec_neighbors / exec_path / exec_find) vs GraphEngine::{pagerank, betweenness_centrality, closeness_centrality, eigenvector_centrality, louvain_communities, label_propagation, neighbors, find_path, find_nodes_by_label, find_edges_by_type, all_nodes, all_edges}"),
    ("C15.text.equiv.join_where", "QueryRouter::execute_parsed (exec_select_with_joins / evaluate_join_condition) vs RelationalEngine join family + filter"),
    ("C15.text.equiv.order_nulls", "QueryRouter::execute_parsed (sort_rows / compare_values_with_nulls) vs RelationalEngine::{select,left_join} + sort"),
    ("C15.text.equiv.legacy_page", "QueryRouter::execute (execute_select) vs RelationalEngine::select + sort / skip / take"),
    ("C15.precedence.postfix", "neumann_parser::parse_expr (ExprParser::parse_postfix / parse_between_expr / parse_like_expr / parse_in_expr) and neumann_parser::parse (Parser::parse_postfix_expr ...)"),
    ("C15.text.equiv.join_page", "QueryRouter::execute_parsed (exec_select / exec_select_with_joins) vs RelationalEngine::{select,join,left_join,right_join,full_join,cross_join,natural_join}"),
    ("C15.total.execute", "QueryRouter::{execute,execute_parsed}"),
    ("C15.total.bytes", "neumann_parser::{tokenize,parse,parse_all,parse_expr}"),
    ("C15.determinism", "neumann_parser::{tokenize,parse,parse_all,parse_expr}"),
    ("C15.depth.guard", "ExprParser::parse_expr_bp / Parser::parse_expr_bp"),
    ("C15.precedence.trees", "neumann_parser::parse_expr"),
    ("C15.precedence.stmt", "neumann_parser::parse (Parser::parse_expr_bp)"),
    ("C15.op.mapping", "current_binary_op / BinaryOp::precedence"),
    ("C15.text.equiv", "QueryRouter::execute"),
    ("C15.depth.flat", "parse / parse_expr on flat operator chains <= 4 KB"),
];

const OP_LEXEMES: [(&str, &str); 25] = [
    ("+", "Add"), ("-", "Sub"), ("*", "Mul"), ("/", "Div"), ("%", "Mod"), ("=", "Eq"), ("!=", "Ne"), ("<>", "Ne"), ("<", "Lt"), ("<=", "Le"), (">", "Gt"),
    (">=", "Ge"), ("AND", "And"), ("and", "And"), ("OR", "Or"), ("||", "Concat"), ("&", "BitAnd"), ("|", "BitOr"), ("^", "BitXor"), ("<<", "Shl"), (">>", "Shr"),
    ("NOT", "Not"), ("!", "Not"), ("-", "Neg"), ("~", "BitNot"),
];


// ---------------------------------------------------------------------------------------------
// C15.text.equiv.cached: the router's query cache changes speed only
mod cached {
    use super::*;
    use query_router::QueryRouter;
    use tensor_checkpoint::CheckpointConfig;
    use tensor_store::TensorStore;

    pub const OB: &str = "C15.text.equiv.cached";
    /// cacheable read statements (SELECT / SIMILAR / NEIGHBORS / PATH)
    pub const READS: [&str; 6] = ["SELECT * FROM t", "SELECT * FROM t WHERE id = 2", "NEIGHBORS 1 OUTGOING", "NEIGHBORS 3 INCOMING", "PATH 1 -> 3", "SIMILAR 'e1' LIMIT 3"];
    /// one statement of every family that changes tables, graph or embeddings (the last one needs the checkpoint of the fixture)
    pub const WRITES: [&str; 12] = [
        "INSERT INTO t (id, name) VALUES (9, 'zed')", "UPDATE t SET name = 'x' WHERE id = 2", "DELETE FROM t WHERE id = 2", "DROP TABLE t",
        "NODE CREATE person {name: 'dan'}", "EDGE CREATE 1 -> 3 : knows", "EDGE CREATE 3 -> 2 : knows", "NODE DELETE 2",
        "EMBED STORE 'e9' [0.5, 0.5, 0.0]", "EMBED STORE 'e1' [0.0, 0.0, 1.0]", "EMBED DELETE 'e2'", "ROLLBACK TO 'base'",
    ];
    const SETUP: [&str; 11] = [
        "CREATE TABLE t (id INT, name TEXT)", "INSERT INTO t (id, name) VALUES (1, 'ann')", "INSERT INTO t (id, name) VALUES (2, 'bob')",
        "NODE CREATE person {name: 'ann'}", "NODE CREATE person {name: 'bob'}", "NODE CREATE person {name: 'cy'}", "EDGE CREATE 1 -> 2 : knows",
        "EMBED STORE 'e1' [1.0, 0.0, 0.5]", "EMBED STORE 'e2' [0.0, 1.0, 0.25]", "CHECKPOINT 'base'", "INSERT INTO t (id, name) VALUES (3, 'cy')",
    ];

    fn router(cache: bool) -> Result<QueryRouter, String> {
        let mut r = QueryRouter::with_shared_store(TensorStore::new());
        r.init_blob().map_err(|e| format!("init_blob: {e}"))?;
        r.init_checkpoint_with_config(CheckpointConfig::new().with_auto_checkpoint(false).with_interactive_confirm(false)).map_err(|e| format!("init_checkpoint: {e}"))?;
        if cache { r.init_cache(); }
        for q in SETUP { r.execute_parsed(q).map_err(|e| format!("setup {q:?}: {e}"))?; }
        Ok(r)
    }
    fn show(r: &QueryRouter, q: &str) -> String { match no_panic(std::panic::AssertUnwindSafe(|| r.execute_parsed(q))) { Ok(Ok(v)) => format!("{v:?}"), Ok(Err(e)) => format!("ERR {e}"), Err(p) => format!("PANIC {p}") } }

    /// read (fills the cache), write, the same read again: a router WITH the query cache must answer every step like a
    /// router without one that executed the same statements
    pub fn eval(case: &Value) -> Result<String, String> {
        let (ri, wi) = (case["read"].as_u64().ok_or("read")? as usize, case["write"].as_u64().ok_or("write")? as usize);
        let (read, write) = (*READS.get(ri).ok_or("read index")?, *WRITES.get(wi).ok_or("write index")?);
        let (c, n) = (router(true)?, router(false)?);
        let mut steps = vec![];
        for q in [read, read, write, read, read] {
            let (a, b) = (show(&c, q), show(&n, q));
            if a != b { return Err(format!("after {steps:?}: {q:?} with the query cache => {a}; without => {b}")); }
            steps.push(q);
        }
        Ok(format!("{read:?}, {write:?}, {read:?}: the cached router answers like the uncached one"))
    }
    pub fn cases() -> Vec<Value> {
        let mut out = vec![];
        for r in 0..READS.len() { for w in 0..WRITES.len() { out.push(json!({"read": r, "write": w})); } }
        out
    }
}

pub fn run(tier: Tier, seed: u64) -> Report {
    let thorough = tier == Tier::Thorough;
    let maxlen = if thorough { 4 } else { 3 };
    let mut rep = Report::new("c15_parser",
        &format!("total/determinism: all strings of <= {maxlen} symbols over a 40-symbol alphabet (letters a S E, digits, blank, newline, both quotes, backslash, brackets, punctuation, all operator characters, e-acute, NUL) + 48 statement/clause keyword prefixes x all strings of <= 2 symbols{}; depth: 16 nesting families x 4 entry points (parse_expr, parse/parse_all of SELECT e, parse of SELECT..WHERE e) x n in {{1,2,63,64,65,66,200 in-process; 1000,10000,100000 in a child process}}, flat chains n in {{100,2000}}; precedence: all 10121 trees of height <= 3 over 19 binary + 3 unary operators, minimal and full parentheses, via parse_expr and via parse(\"SELECT e\"){}; 25 operator lexemes; text.equiv: 7 statement families (10 WHERE shapes for SELECT/UPDATE/DELETE) through execute_parsed and, where the text is valid in both languages, through execute = 54 statements against the direct engine call; precedence.postfix: all 60543 expression trees of height <= 3 over the whole expression grammar (19 binary, 3 unary, 25 postfix/special forms: IS [NOT] NULL, [NOT] IN list/sub-query, [NOT] BETWEEN, [NOT] LIKE, qualified name, calls, CASE, CAST, EXISTS, array, tuple; operands of height 2 over one binary operator per level, all unary, all special forms; every pair of operand positions for arity >= 3) in minimal / full / bare parenthesisation through parse_expr and parse(\"SELECT * FROM t WHERE e\") incl. agreement of the two{}; text.equiv.join_page: 10 join spellings x ON/USING/alias conditions x 3 WHERE x 2-3 ORDER BY shapes x (LIMIT, OFFSET) in {{absent,0,1,2,size-1,size,size+1}}^2 on 5x5-row tables with duplicate and unmatched keys + plain SELECT grid = 7518 statements, row-by-row in order against the engine's join family; join_where 36, order_nulls 16, legacy_page 5 statements; text.equiv.graph_algo: on an 8-node asymmetric directed graph (hub, sink, chain, 2-cycle, 2 edge types) every subset of the optional clauses (x each direction, forward and reversed clause order) of GRAPH PAGERANK / BETWEENNESS / CLOSENESS / EIGENVECTOR CENTRALITY / LOUVAIN COMMUNITIES / LABEL PROPAGATION, NEIGHBORS for 9 ids x 4 directions x 3 type filters, PATH [SHORTEST] a -> b [LIMIT 16] for all 64 ordered pairs, FIND NODE / EDGE x 4 filters x 4 limits, against the direct graph_engine call on the same router; total.execute: 6 statement prefixes x all strings of <= 3 symbols over {{a,1,blank,=,quote,' AND ',' OR ',dotless-i,e-acute,fi-ligature}} = 6666 texts",
                 if thorough { " + 20000 seeded keyword-soup strings up to 4 KB (not exhaustive)" } else { "" },
                 if thorough { "; height 4 over one operator per precedence level + unary minus (10.9 M trees, parse_expr, exhaustive) + 20000 seeded random trees of height <= 8 over all operators (not exhaustive)" } else { "" },
                 if thorough { " + height 4 with one operand of height 3 (2.76 M trees) + 30000 seeded random trees of height <= 8 with literal leaves (not exhaustive)" } else { "" }),
        true, &["neumann_parser::tokenize", "parse", "parse_all", "parse_expr", "query_router::QueryRouter::execute"]);
    for (o, f) in OBS { rep.declare(o, f); }
    for n in 0..8 { assert!(matches!(via_expr(&leaf_name(n)), Ok(T::Leaf(_))), "leaf name is not a plain identifier"); }

    // --- total / determinism
    {
        let mut f = |s: &str| check_total(&mut rep, s);
        all_strings(maxlen, &mut f);
        let mut tails: Vec<String> = vec![];
        all_strings(2, &mut |s| tails.push(s.to_string()));
        for p in PREFIXES { for t in &tails { f(&format!("{p} {t}")); if !t.is_empty() { f(&format!("{p}{t}")); } } }
        for s in ["SELECT * FROM users WHERE id = 1", "SELECT 1; SELECT 2", "/* /* */", "/*", "--", "'\\", "\"\\", "1e", "1e+", "1.", "99999999999999999999", "1e999", "a.*", "(1).*", "a.", "\u{e9}\u{e9}", "'\u{e9}", "CASE", "CASE WHEN", "a IS", "a IS NOT", "a NOT", "a BETWEEN 1", "a BETWEEN 1 AND", "EXISTS", "EXISTS (", "CAST(1 AS", "SELECT CAST(1 AS"] { f(s); }
    }
    rep.sample(json!({"input": "'\\"}));
    if thorough {
        let words = ["SELECT", "FROM", "WHERE", "AND", "OR", "NOT", "IN", "BETWEEN", "LIKE", "IS", "NULL", "CASE", "WHEN", "THEN", "ELSE", "END", "EXISTS", "CAST", "AS", "INSERT", "INTO", "VALUES", "UPDATE", "SET", "DELETE", "CREATE", "TABLE", "NODE", "EDGE", "EMBED", "SIMILAR", "FIND", "ENTITY", "JOIN", "ON", "GROUP", "BY", "ORDER", "LIMIT", "(", ")", "[", "]", "{", "}", ",", ";", ".", ":", "*", "=", "<", ">", "!", "+", "-", "/", "%", "|", "&", "^", "~", "'", "\"", "\\", "a", "t", "1", "2.5", "'s'", "\u{e9}", "\0", "->", "--", "/*", "*/"];
        let mut rng = Rng(seed ^ 0xC15);
        for _ in 0..20000 {
            let cap = if rng.below(10) == 0 { 900 } else { 40 };
            let n = rng.below(cap) as usize;
            let mut s = String::new();
            for _ in 0..n { s.push_str(words[rng.below(words.len() as u64) as usize]); if rng.below(4) != 0 { s.push(' '); } if s.len() > 4096 { break; } }
            check_total(&mut rep, &s);
        }
    }

    // --- depth guard
    for fam in EXPR_FAMILIES.iter().chain(STMT_FAMILIES.iter()) {
        for entry in ENTRIES {
            for n in [1usize, 2, 63, 64, 65, 66, 200, 1000, 10_000, 100_000] { check_depth(&mut rep, fam, entry, n); }
        }
    }
    for entry in ["parse_expr", "parse_select"] {
        for n in [100usize, 2000] {
            let r = depth_eval("flat_add", entry, n);
            rep.eval(true);
            rep.check("C15.depth.flat", r.is_ok(), &|| json!({"family": "flat_add", "entry": entry, "n": n}), &|| r.clone().err().unwrap_or_default());
        }
    }

    // --- precedence
    let s3 = shapes(3, &BINOPS, &UNOPS);
    for t in &s3 { check_tree(&mut rep, t, true); }
    rep.sample(json!({"tree": [["a", "Or", "b"], "And", ["Neg", "c"]], "minimal": "(a OR b) AND - c"}));
    for (lex, op) in OP_LEXEMES {
        let r = op_mapping_eval(lex, op);
        rep.eval(true);
        rep.check("C15.op.mapping", r.is_ok(), &|| json!({"lexeme": lex, "op": op}), &|| r.clone().err().unwrap_or_default());
    }
    if thorough {
        let r3 = shapes(3, &LEVEL_REPS, &[UnaryOp::Neg]);
        for x in &r3 { check_tree(&mut rep, &T::Un(UnaryOp::Neg, Box::new(x.clone())), false); }
        for l in &r3 { for r in &r3 { for o in LEVEL_REPS { check_tree(&mut rep, &T::Bin(Box::new(l.clone()), o, Box::new(r.clone())), false); } } }
        let mut rng = Rng(seed ^ 0xC15_7EE);
        for _ in 0..20000 { let t = random_tree(&mut rng, 8); check_tree(&mut rep, &t, true); }
    }

    // --- precedence of the postfix / special forms (whole expression grammar), both parsers
    {
        let check_p = |rep: &mut Report, shape: postfix::P| {
            let mut k = 0;
            let t = postfix::label(&shape, &mut k);
            let r = postfix::eval(&t);
            for _ in 0..r.as_ref().map_or(2, |n| *n) { rep.eval(true); }
            rep.check("C15.precedence.postfix", r.is_ok(), &|| json!({"tree": postfix::to_json(&t)}), &|| r.clone().err().unwrap_or_default());
        };
        // height <= 3: every constructor (all 19 binary, 3 unary, 21 special forms) over every height-2 tree (one binary operator per level)
        let inner = postfix::height2(&postfix::ctors(false));
        for t in &inner { check_p(&mut rep, t.clone()); }
        for k in postfix::ctors(true) { postfix::over(&k, &inner, &mut |t| check_p(&mut rep, t)); }
        rep.sample(json!({"tree": postfix::to_json(&postfix::P::Bin(Box::new(postfix::P::Between(Box::new(postfix::P::Leaf("a".into())), Box::new(postfix::P::Leaf("b".into())), Box::new(postfix::P::Leaf("c".into())), false)), BinaryOp::Mul, Box::new(postfix::P::Leaf("d".into())))), "minimal": "a BETWEEN b AND c * d"}));
        if thorough {
            // height 4: every constructor with ONE operand of height <= 3 (built like above over one binary operator per level)
            let ks = postfix::ctors(false);
            let mut h3: Vec<postfix::P> = vec![];
            for k in &ks { postfix::over(k, &inner, &mut |t| h3.push(t)); }
            for k in &ks { postfix::one_hole(k, &h3, &mut |t| check_p(&mut rep, t)); }
            let sp = postfix::special_forms();
            let mut rng = Rng(seed ^ 0xC15_F0F);
            for _ in 0..30000 { let t = postfix::random(&mut rng, 8, &sp, true); check_p(&mut rep, t); }
        }
    }

    // --- text equivalence
    for (fam, entries) in equiv::FAMILIES {
        for entry in entries {
            let mut i = 0;
            while let Some(r) = equiv::eval(fam, i, entry) {
                rep.eval(true);
                rep.check("C15.text.equiv", r.is_ok(), &|| json!({"family": fam, "i": i, "entry": entry}), &|| r.clone().err().unwrap_or_default());
                i += 1;
            }
        }
    }
    // --- joins x {WHERE, ORDER BY, LIMIT, OFFSET}, plain SELECT paging
    let mut ctx: Option<page::Ctx> = None;
    match page::cases() {
        Ok(cases) => for (ob, c) in cases {
            // the statements are read-only: the routers are shared while their state is verified to be the pre-state; a failure
            // is re-evaluated on fresh routers (= what `replay` does)
            if ctx.as_ref().map_or(true, |x| !x.intact()) { ctx = page::Ctx::new().ok(); }
            let mut r = match &ctx { Some(x) => page::eval_in(&c, x), None => Err("cannot build the fixture with direct engine calls".to_string()) };
            if r.is_err() { let fresh = page::eval(&c); if fresh.is_ok() { r = r.map_err(|e| format!("{e} [only after earlier SELECTs on the same router; holds on fresh routers]")); } else { r = fresh; } }
            rep.eval(!(c["limit"].is_null() && c["offset"].is_null()));
            rep.check(ob, r.is_ok(), &|| c.clone(), &|| r.clone().err().unwrap_or_default());
        },
        Err(e) => rep.check("C15.text.equiv.join_page", false, &|| json!({"fixture": true}), &|| format!("cannot build the fixture / case list with direct engine calls: {e}")),
    }
    rep.sample(json!({"family": "join", "join": "LEFT JOIN", "cond": "on_k", "where": 0, "order": 0, "limit": 2, "offset": 1, "entry": "execute_parsed"}));
    // --- graph statement families vs the direct graph_engine call (read-only: one shared fixture, a failure is re-evaluated on a fresh one)
    match galgo::fixture() {
        Ok(fx) => for c in galgo::cases() {
            let mut r = galgo::eval_in(&c, &fx);
            if r.is_err() { let fresh = galgo::eval(&c); if fresh.is_ok() { r = r.map_err(|e| format!("{e} [only after earlier statements on the same router; holds on a fresh router]")); } else { r = fresh; } }
            rep.eval(true);
            rep.check(galgo::OB, r.is_ok(), &|| c.clone(), &|| r.clone().err().unwrap_or_default());
        },
        Err(e) => rep.check(galgo::OB, false, &|| json!({"fixture": true}), &|| format!("cannot build the graph fixture with direct engine calls: {e}")),
    }
    rep.sample(json!({"stmt": "pagerank", "damping": 0.5, "direction": "INCOMING", "edge_type": "follows", "rev": true}));
    // --- the query cache changes speed only
    for c in cached::cases() {
        let r = cached::eval(&c);
        rep.eval(true);
        rep.check(cached::OB, r.is_ok(), &|| c.clone(), &|| r.clone().err().unwrap_or_default());
    }
    rep.sample(json!({"read": 2, "write": 5}));
    // --- text execution is total (no panic) on WHERE-clause soup incl. characters whose upper-case form has another byte length
    {
        const SYM: [&str; 10] = ["a", "1", " ", "=", "'", " AND ", " OR ", "\u{131}", "\u{e9}", "\u{fb01}"];
        let mut tails: Vec<String> = vec![String::new()];
        let mut layer: Vec<String> = vec![String::new()];
        for _ in 0..3 { let mut nx = vec![]; for t in &layer { for y in SYM { nx.push(format!("{t}{y}")); } } tails.extend(nx.iter().cloned()); layer = nx; }
        for (entry, pres) in [("execute_parsed", &["SELECT * FROM t WHERE ", "DELETE FROM t WHERE "][..]), ("execute", &["SELECT * FROM t WHERE ", "UPDATE t SET age = 1 WHERE ", "DELETE t WHERE ", "SELECT t WHERE "][..])] {
            for pre in pres {
                for t in &tails {
                    let q = format!("{pre}{t}");
                    let r = equiv::total_eval(entry, &q);
                    rep.eval(!t.is_empty());
                    rep.check("C15.total.execute", r.is_ok(), &|| json!({"entry": entry, "text": q}), &|| r.clone().err().unwrap_or_default());
                }
            }
        }
    }
    rep
}

pub fn replay(ob: &str, case: &Value) -> Result<String, String> {
    match ob {
        "C15.total.bytes" | "C15.determinism" => {
            let s = case["input"].as_str().ok_or("case.input missing")?;
            let (total, det, detail) = eval_total(s);
            let ok = if ob == "C15.determinism" { det } else { total };
            if ok { Ok(format!("{s:?}: no panic, spans inside the input, deterministic={det}")) } else { Err(detail) }
        },
        "C15.depth.guard" | "C15.depth.flat" => {
            let fam = case["family"].as_str().ok_or("case.family missing")?;
            let entry = case["entry"].as_str().ok_or("case.entry missing")?;
            let n = case["n"].as_u64().ok_or("case.n missing")? as usize;
            if case.get("direct").and_then(Value::as_bool) == Some(true) { depth_direct(fam, entry, n) } else { depth_eval(fam, entry, n) }
        },
        "C15.precedence.trees" | "C15.precedence.stmt" => {
            let t = tree_from_json(&case["tree"]).ok_or("case.tree malformed")?;
            prec_eval(&t, ob == "C15.precedence.stmt").map(|()| format!("{} round-trips", case["tree"]))
        },
        "C15.op.mapping" => op_mapping_eval(case["lexeme"].as_str().ok_or("lexeme")?, case["op"].as_str().ok_or("op")?).map(|()| "maps".to_string()),
        "C15.text.equiv" => equiv::eval(case["family"].as_str().ok_or("family")?, case["i"].as_u64().ok_or("i")? as usize, case["entry"].as_str().ok_or("entry")?).ok_or("no such case")?,
        "C15.precedence.postfix" => {
            let t = postfix::from_json(&case["tree"]).ok_or("case.tree malformed")?;
            postfix::eval(&t).map(|n| format!("{}: minimal {:?} / full / bare forms give the dictated tree in both parsers ({n} parser calls)", case["tree"], postfix::print(&t, postfix::Mode::Min).out))
        },
        "C15.text.equiv.join_page" | "C15.text.equiv.join_where" | "C15.text.equiv.order_nulls" | "C15.text.equiv.legacy_page" => page::eval(case),
        "C15.text.equiv.graph_algo" => galgo::eval(case),
        "C15.debug.query" => {
            let r = page::fixture()?;
            let q = case["text"].as_str().ok_or("text")?;
            Ok(format!("{:?}", equiv::run_text(&r, case["entry"].as_str().unwrap_or("execute_parsed"), q)))
        },
        "C15.debug.expr" => {
            let q = case["text"].as_str().ok_or("text")?;
            Ok(format!("expr: {:?}\nstmt: {:?}", parse_expr(q).map(|e| postfix::to_json(&postfix::strip(&e)).to_string()), parse(&format!("SELECT * FROM t WHERE {q}")).map(|s| match s.kind { StatementKind::Select(x) => x.where_clause.map(|w| postfix::to_json(&postfix::strip(&w)).to_string()), _ => None })))
        },
        "C15.text.equiv.cached" => cached::eval(case),
        "C15.total.execute" => equiv::total_eval(case["entry"].as_str().ok_or("entry")?, case["text"].as_str().ok_or("text")?),
        _ => Err(format!("unknown obligation {ob}")),
    }
}
