//! C17 (bounded): gossip membership CRDT `LWWMembershipState`.
//!
//! converges  - every multiset of <= 3 states over 2 members x incarnation 0..=2 x timestamp 0..=2 x
//!              {Healthy, Degraded, Failed, Unknown} (72 states) and every multiset of 4 states over a reduced
//!              alphabet is merged into a fresh state in EVERY distinct permutation, EVERY batching (every
//!              composition of the delivery into consecutive merge calls: one call, one call per state, every
//!              split) and with every single state delivered twice (at every position; one call / one call per
//!              state).  All deliveries must produce the view of the reference delivery (one merge call,
//!              canonical order): per member the same (health, incarnation, timestamp), same member set; the
//!              reference winner of a member is one of its delivered states and no delivered state supersedes it.
//! monotone   - every sequence of <= 3 operations over merge(batch) / suspect / fail / refute / mark_healthy /
//!              update_local(incarnation >= stored): after each call no member disappears, no recorded
//!              incarnation decreases and lamport_time does not decrease; fail / suspect leave every
//!              incarnation as it was (C17.fail.bound).
//! clock      - every sequence of <= 3 clock-relevant calls with values around u64::MAX: no panic, lamport_time
//!              never decreases, tick() returns the stored clock.
use crate::fw::{no_panic, Report, Rng, Tier};
use serde_json::{json, Value};
use std::panic::AssertUnwindSafe;
use tensor_chain::gossip::{GossipNodeState, LWWMembershipState};
use tensor_chain::membership::NodeHealth;

const MEMBERS: [&str; 3] = ["n0", "n1", "n2"];
const HEALTHS: [NodeHealth; 4] = [NodeHealth::Healthy, NodeHealth::Degraded, NodeHealth::Failed, NodeHealth::Unknown];
const HNAMES: [&str; 4] = ["Healthy", "Degraded", "Failed", "Unknown"];

const CONV: &str = "C17.merge.converges";
const MONO: &str = "C17.incarnation.monotone";
const FAILB: &str = "C17.fail.bound";
const CLOCK: &str = "C17.clock.no_overflow";

/// (member, health, incarnation, timestamp)
type S = (u8, u8, u64, u64);

fn mk(s: S) -> GossipNodeState {
    GossipNodeState::new(MEMBERS[s.0 as usize].to_string(), HEALTHS[s.1 as usize], s.3, s.2)
}
fn hidx(h: NodeHealth) -> u8 { HEALTHS.iter().position(|x| *x == h).map_or(255, |i| i as u8) }
fn s_json(s: S) -> Value { json!([s.0, HNAMES[s.1 as usize], s.2.to_string(), s.3.to_string()]) }
fn s_parse(v: &Value) -> Result<S, String> {
    let a = v.as_array().ok_or("state must be [member, health, incarnation, timestamp]")?;
    let m = a.first().and_then(Value::as_u64).filter(|m| (*m as usize) < MEMBERS.len()).ok_or("member")? as u8;
    let h = a.get(1).and_then(Value::as_str).and_then(|n| HNAMES.iter().position(|x| *x == n)).ok_or("health")? as u8;
    let num = |i: usize| a.get(i).and_then(|x| x.as_str().and_then(|s| s.parse::<u64>().ok()).or(x.as_u64())).ok_or_else(|| format!("field {i}"));
    Ok((m, h, num(2)?, num(3)?))
}

/// observable view: per member (health, incarnation, timestamp) via `get`, member count via `len` / `all_states`
#[derive(Clone, Copy, PartialEq, Eq, Debug)]
struct View { m: [Option<(u8, u64, u64)>; 3], len: usize, listed: usize }

fn view(l: &LWWMembershipState) -> View {
    let mut m = [None; 3];
    for (i, name) in MEMBERS.iter().enumerate() {
        m[i] = l.get(&(*name).to_string()).map(|s| (hidx(s.health), s.incarnation, s.timestamp));
    }
    let listed = l.all_states().filter(|s| {
        MEMBERS.iter().position(|n| *n == s.node_id).is_some_and(|i| m[i] == Some((hidx(s.health), s.incarnation, s.timestamp)))
    }).count();
    View { m, len: l.len(), listed }
}
fn view_consistent(v: &View) -> bool { let k = v.m.iter().flatten().count(); v.len == k && v.listed == k }

// ------------------------------------------------------------------------------------------------
// convergence

/// deliver `states` in this order; bit i of `cuts` set = a new merge call starts after position i
fn deliver(states: &[GossipNodeState], cuts: u32) -> View {
    let mut l = LWWMembershipState::new();
    if states.is_empty() { l.merge(&[]); }
    let mut start = 0;
    for i in 0..states.len() {
        if i + 1 == states.len() || cuts >> i & 1 == 1 { l.merge(&states[start..=i]); start = i + 1; }
    }
    view(&l)
}

/// reference view is made of delivered states, and no delivered state of the member supersedes the winner
fn reference_sound(r: &View, states: &[GossipNodeState]) -> bool {
    view_consistent(r) && (0..MEMBERS.len()).all(|i| {
        let mine: Vec<&GossipNodeState> = states.iter().filter(|s| s.node_id == MEMBERS[i]).collect();
        match r.m[i] {
            None => mine.is_empty(),
            Some(w) => {
                let Some(ws) = mine.iter().find(|s| (hidx(s.health), s.incarnation, s.timestamp) == w) else { return false };
                !mine.iter().any(|s| s.supersedes(ws))
            },
        }
    })
}

fn next_permutation(a: &mut [usize]) -> bool {
    if a.len() < 2 { return false; }
    let mut i = a.len() - 1;
    while i > 0 && a[i - 1] >= a[i] { i -= 1; }
    if i == 0 { return false; }
    let mut j = a.len() - 1;
    while a[j] <= a[i - 1] { j -= 1; }
    a.swap(i - 1, j);
    a[i..].reverse();
    true
}

struct Alpha { s: Vec<S>, g: Vec<GossipNodeState> }
impl Alpha {
    fn new(members: u8, incs: &[u64], tss: &[u64], healths: &[u8]) -> Self {
        let mut s = vec![];
        for m in 0..members { for &i in incs { for &t in tss { for &h in healths { s.push((m, h, i, t)); } } } }
        let g = s.iter().map(|x| mk(*x)).collect();
        Self { s, g }
    }
}

/// all deliveries of one multiset (sorted alphabet indices)
fn check_multiset(rep: &mut Report, al: &Alpha, ms: &[usize]) {
    let n = ms.len();
    let reference: Vec<GossipNodeState> = ms.iter().map(|&i| al.g[i].clone()).collect();
    let r = deliver(&reference, 0);
    let ref_json = || ms.iter().map(|&i| s_json(al.s[i])).collect::<Vec<_>>();
    rep.eval(n >= 2);
    rep.check(CONV, reference_sound(&r, &reference),
              &|| json!({"reference": ref_json(), "states": ref_json(), "cuts": 0}),
              &|| format!("reference delivery (one merge call) gives {r:?}: not made of undominated delivered states"));
    // pass 1: permutations x batchings; pass 2: the same with one state delivered twice
    for dup in [false, true] {
    let mut perm: Vec<usize> = ms.to_vec();
    let mut states: Vec<GossipNodeState> = Vec::with_capacity(n + 1);
    loop {
        states.clear();
        states.extend(perm.iter().map(|&i| al.g[i].clone()));
        let one = |rep: &mut Report, order: &[usize], states: &[GossipNodeState], cuts: u32| {
            let v = deliver(states, cuts);
            rep.eval(n >= 2);
            rep.check(CONV, v == r,
                      &|| json!({"reference": ref_json(), "states": order.iter().map(|&i| s_json(al.s[i])).collect::<Vec<_>>(), "cuts": cuts}),
                      &|| format!("delivery order {:?} cuts {cuts:#b} gives {v:?}; reference (one call, canonical order) gives {r:?}",
                                  order.iter().map(|&i| al.s[i]).collect::<Vec<_>>()));
        };
        if !dup && n > 0 { for cuts in 0..(1u32 << (n - 1)) { one(rep, &perm, &states, cuts); } }
        // repetition: state i delivered a second time at position j
        if dup { for i in 0..n { for j in 0..=n {
            let mut order = perm.clone();
            order.insert(j, perm[i]);
            let mut ext = states.clone();
            ext.insert(j, states[i].clone());
            one(rep, &order, &ext, 0);
            one(rep, &order, &ext, (1u32 << n) - 1);
        } } }
        if !next_permutation(&mut perm) { break; }
    }
    } // pass
}

fn multisets(rep: &mut Report, al: &Alpha, size: usize, cur: &mut Vec<usize>, from: usize) {
    if cur.len() == size { check_multiset(rep, al, cur); return; }
    for i in from..al.s.len() { cur.push(i); multisets(rep, al, size, cur, i); cur.pop(); }
}

fn replay_conv(case: &Value) -> Result<String, String> {
    let list = |k: &str| -> Result<Vec<S>, String> { case[k].as_array().ok_or(format!("{k} must be an array"))?.iter().map(s_parse).collect() };
    let reference: Vec<GossipNodeState> = list("reference")?.into_iter().map(mk).collect();
    let states: Vec<GossipNodeState> = list("states")?.into_iter().map(mk).collect();
    let cuts = case["cuts"].as_u64().unwrap_or(0) as u32;
    let r = deliver(&reference, 0);
    if !reference_sound(&r, &reference) { return Err(format!("reference delivery gives {r:?}: not made of undominated delivered states")); }
    let v = deliver(&states, cuts);
    if v == r { Ok(format!("both deliveries give {r:?}")) } else { Err(format!("delivery (cuts {cuts:#b}) gives {v:?}, the reference delivery of the same updates gives {r:?}")) }
}

// ------------------------------------------------------------------------------------------------
// local transitions: incarnation / clock monotone

#[derive(Clone, Debug)]
enum MOp { Merge(Vec<S>), Suspect(u8, u64), Fail(u8), Refute(u8, u64), MarkHealthy(u8), UpdateLocal(u8, u8, u64) }

fn mop_json(op: &MOp) -> Value {
    match op {
        MOp::Merge(b) => json!(["merge", b.iter().map(|s| s_json(*s)).collect::<Vec<_>>()]),
        MOp::Suspect(m, i) => json!(["suspect", m, i.to_string()]),
        MOp::Fail(m) => json!(["fail", m]),
        MOp::Refute(m, i) => json!(["refute", m, i.to_string()]),
        MOp::MarkHealthy(m) => json!(["mark_healthy", m]),
        MOp::UpdateLocal(m, h, i) => json!(["update_local", m, HNAMES[*h as usize], i.to_string()]),
    }
}
fn mop_parse(v: &Value) -> Result<MOp, String> {
    let a = v.as_array().ok_or("op must be an array")?;
    let name = a.first().and_then(Value::as_str).ok_or("op name")?;
    let m = || a.get(1).and_then(Value::as_u64).filter(|m| (*m as usize) < MEMBERS.len()).map(|m| m as u8).ok_or("member");
    let num = |i: usize| a.get(i).and_then(|x| x.as_str().and_then(|s| s.parse::<u64>().ok()).or(x.as_u64())).ok_or_else(|| format!("argument {i}"));
    Ok(match name {
        "merge" => MOp::Merge(a.get(1).and_then(Value::as_array).ok_or("batch")?.iter().map(s_parse).collect::<Result<_, _>>()?),
        "suspect" => MOp::Suspect(m()?, num(2)?),
        "fail" => MOp::Fail(m()?),
        "refute" => MOp::Refute(m()?, num(2)?),
        "mark_healthy" => MOp::MarkHealthy(m()?),
        "update_local" => MOp::UpdateLocal(m()?, a.get(2).and_then(Value::as_str).and_then(|n| HNAMES.iter().position(|x| *x == n)).ok_or("health")? as u8, num(3)?),
        _ => return Err(format!("unknown op {name}")),
    })
}

/// precondition of the op in state `l` (only update_local has one: incarnation >= stored)
fn pre_holds(l: &LWWMembershipState, op: &MOp) -> bool {
    match op {
        MOp::UpdateLocal(m, _, inc) => l.get(&MEMBERS[*m as usize].to_string()).is_none_or(|s| *inc >= s.incarnation),
        _ => true,
    }
}

fn apply(l: &mut LWWMembershipState, op: &MOp, batch: &[GossipNodeState]) {
    let name = |m: &u8| MEMBERS[*m as usize].to_string();
    match op {
        MOp::Merge(_) => { l.merge(batch); },
        MOp::Suspect(m, i) => { l.suspect(&name(m), *i); },
        MOp::Fail(m) => { l.fail(&name(m)); },
        MOp::Refute(m, i) => { l.refute(&name(m), *i); },
        MOp::MarkHealthy(m) => { l.mark_healthy(&name(m)); },
        MOp::UpdateLocal(m, h, i) => { l.update_local(name(m), HEALTHS[*h as usize], *i); },
    }
}

/// (monotone ok, fail.bound verdict if the op is fail/suspect)
fn step_verdict(op: &MOp, b: &View, lb: u64, a: &View, la: u64) -> (bool, Option<bool>) {
    let mono = la >= lb && view_consistent(a) && (0..MEMBERS.len()).all(|i| match (b.m[i], a.m[i]) {
        (Some(x), Some(y)) => y.1 >= x.1,
        (Some(_), None) => false,
        _ => true,
    });
    let fb = match op {
        MOp::Fail(_) | MOp::Suspect(..) => Some((0..MEMBERS.len()).all(|i| b.m[i].map(|x| x.1) == a.m[i].map(|x| x.1))),
        _ => None,
    };
    (mono, fb)
}

struct MAlpha { ops: Vec<MOp>, batches: Vec<Vec<GossipNodeState>> }

fn malpha(members: u8, thorough: bool) -> MAlpha {
    let mut ops = vec![];
    let full = Alpha::new(members, &[0, 1, 2], &[0, 1, 2], &[0, 1, 2, 3]);
    for s in &full.s { ops.push(MOp::Merge(vec![*s])); }
    // two-state batches on one member (conflicting observations, ties included) and across members
    let red = Alpha::new(1, &[0, 2], &[0, 2], &[0, 2]);
    for a in &red.s { for b in &red.s { ops.push(MOp::Merge(vec![*a, *b])); } }
    for a in [(0u8, 0u8, 1u64, 1u64), (0, 2, 2, 0)] { for b in [(1u8, 2u8, 0u64, 2u64), (1, 1, 1, 1)] { ops.push(MOp::Merge(vec![a, b])); } }
    if thorough { ops.push(MOp::Merge(vec![])); }
    for m in 0..members {
        for i in 0..=2 { ops.push(MOp::Suspect(m, i)); }
        ops.push(MOp::Fail(m));
        for i in 0..=3 { ops.push(MOp::Refute(m, i)); }
        ops.push(MOp::MarkHealthy(m));
        for h in 0..4 { for i in 0..=2 { ops.push(MOp::UpdateLocal(m, h, i)); } }
    }
    let batches = ops.iter().map(|o| if let MOp::Merge(b) = o { b.iter().map(|s| mk(*s)).collect() } else { vec![] }).collect();
    MAlpha { ops, batches }
}

fn mono_dfs(rep: &mut Report, al: &MAlpha, l: &LWWMembershipState, path: &mut Vec<usize>, maxlen: usize) {
    let b = view(l);
    let lb = l.lamport_time();
    for (k, op) in al.ops.iter().enumerate() {
        if !pre_holds(l, op) { continue; }
        let mut l2 = l.clone();
        apply(&mut l2, op, &al.batches[k]);
        let a = view(&l2);
        let la = l2.lamport_time();
        path.push(k);
        let (mono, fb) = step_verdict(op, &b, lb, &a, la);
        let case = || json!({"ops": path.iter().map(|&i| mop_json(&al.ops[i])).collect::<Vec<_>>()});
        if path.len() == maxlen {
            rep.eval(b.len > 0);
            rep.check(MONO, mono, &case, &|| format!("{op:?}: view {b:?} lamport {lb} -> view {a:?} lamport {la}"));
            if let Some(ok) = fb { rep.check(FAILB, ok, &case, &|| format!("{op:?} changed an incarnation: {b:?} -> {a:?}")); }
        } else { mono_dfs(rep, al, &l2, path, maxlen); }
        path.pop();
    }
}

fn replay_mono(ob: &str, case: &Value) -> Result<String, String> {
    let ops: Vec<MOp> = case["ops"].as_array().ok_or("ops must be an array")?.iter().map(mop_parse).collect::<Result<_, _>>()?;
    let mut l = LWWMembershipState::new();
    let mut applicable = 0;
    for op in &ops {
        if !pre_holds(&l, op) { return Err(format!("precondition of {op:?} (incarnation >= stored) does not hold: not a case of the domain")); }
        let (b, lb) = (view(&l), l.lamport_time());
        let batch: Vec<GossipNodeState> = if let MOp::Merge(bt) = op { bt.iter().map(|s| mk(*s)).collect() } else { vec![] };
        apply(&mut l, op, &batch);
        let (a, la) = (view(&l), l.lamport_time());
        let (mono, fb) = step_verdict(op, &b, lb, &a, la);
        if ob == FAILB {
            if let Some(ok) = fb { applicable += 1; if !ok { return Err(format!("{op:?} changed an incarnation: {b:?} -> {a:?}")); } }
        } else {
            applicable += 1;
            if !mono { return Err(format!("{op:?}: view {b:?} lamport {lb} -> view {a:?} lamport {la}")); }
        }
    }
    if applicable == 0 { return Err(format!("{ob} does not apply to any call of this sequence")); }
    Ok(format!("{ob} holds across {applicable} call(s); final view {:?} lamport {}", view(&l), l.lamport_time()))
}

// ------------------------------------------------------------------------------------------------
// clock near u64::MAX

#[derive(Clone, Debug)]
enum COp { Tick, Sync(u64), Merge(Vec<u64>), UpdateLocal, Suspect, Fail, Refute, MarkHealthy }

const EDGE: [u64; 5] = [0, 1, u64::MAX - 2, u64::MAX - 1, u64::MAX];

fn calpha() -> Vec<COp> {
    let mut v = vec![COp::Tick];
    for x in EDGE { v.push(COp::Sync(x)); }
    for x in EDGE { v.push(COp::Merge(vec![x])); }
    v.push(COp::Merge(vec![u64::MAX, u64::MAX - 1]));
    v.extend([COp::UpdateLocal, COp::Suspect, COp::Fail, COp::Refute, COp::MarkHealthy]);
    v
}
fn cop_json(op: &COp) -> Value {
    match op {
        COp::Tick => json!(["tick"]),
        COp::Sync(x) => json!(["sync_time", x.to_string()]),
        COp::Merge(t) => json!(["merge", t.iter().map(u64::to_string).collect::<Vec<_>>()]),
        COp::UpdateLocal => json!(["update_local"]),
        COp::Suspect => json!(["suspect"]),
        COp::Fail => json!(["fail"]),
        COp::Refute => json!(["refute"]),
        COp::MarkHealthy => json!(["mark_healthy"]),
    }
}
fn cop_parse(v: &Value) -> Result<COp, String> {
    let a = v.as_array().ok_or("op must be an array")?;
    let p = |x: &Value| x.as_str().and_then(|s| s.parse::<u64>().ok()).ok_or("u64 as string");
    Ok(match a.first().and_then(Value::as_str).ok_or("op name")? {
        "tick" => COp::Tick,
        "sync_time" => COp::Sync(p(a.get(1).ok_or("argument")?)?),
        "merge" => COp::Merge(a.get(1).and_then(Value::as_array).ok_or("timestamps")?.iter().map(p).collect::<Result<_, _>>()?),
        "update_local" => COp::UpdateLocal,
        "suspect" => COp::Suspect,
        "fail" => COp::Fail,
        "refute" => COp::Refute,
        "mark_healthy" => COp::MarkHealthy,
        n => return Err(format!("unknown clock op {n}")),
    })
}

/// run the sequence; Err(detail) at the first call that panics, lowers the clock, or (tick) returns another value
fn eval_clock(seq: &[COp]) -> Result<u64, String> {
    let mut l = LWWMembershipState::new();
    let n0 = MEMBERS[0].to_string();
    for (k, op) in seq.iter().enumerate() {
        let before = l.lamport_time();
        let r = no_panic(AssertUnwindSafe(|| -> Option<u64> {
            match op {
                COp::Tick => return Some(l.tick()),
                COp::Sync(x) => l.sync_time(*x),
                COp::Merge(ts) => { let b: Vec<GossipNodeState> = ts.iter().map(|t| mk((0, 0, 0, *t))).collect(); l.merge(&b); },
                COp::UpdateLocal => { let inc = l.get(&n0).map_or(0, |s| s.incarnation); l.update_local(n0.clone(), NodeHealth::Healthy, inc); },
                COp::Suspect => { let inc = l.get(&n0).map_or(0, |s| s.incarnation); l.suspect(&n0, inc); },
                COp::Fail => { l.fail(&n0); },
                COp::Refute => { let inc = l.get(&n0).map_or(0, |s| s.incarnation); l.refute(&n0, inc.saturating_add(1)); },
                COp::MarkHealthy => { l.mark_healthy(&n0); },
            }
            None
        }));
        let after = l.lamport_time();
        match r {
            Err(p) => return Err(format!("call {k} {op:?} at lamport_time {before} panicked: {p}")),
            Ok(ret) => {
                if after < before { return Err(format!("call {k} {op:?}: lamport_time {before} -> {after} (moved backwards)")); }
                if let Some(t) = ret { if t != after { return Err(format!("call {k} tick() returned {t}, lamport_time {after}")); } }
            },
        }
    }
    Ok(l.lamport_time())
}

fn clock_dfs(rep: &mut Report, al: &[COp], cur: &mut Vec<COp>, maxlen: usize) {
    for op in al {
        cur.push(op.clone());
        if cur.len() == maxlen {
            let r = eval_clock(cur);
            rep.eval(true);
            rep.check(CLOCK, r.is_ok(), &|| json!({"clock_ops": cur.iter().map(cop_json).collect::<Vec<_>>()}), &|| format!("{r:?}"));
        } else { clock_dfs(rep, al, cur, maxlen); }
        cur.pop();
    }
}

// ------------------------------------------------------------------------------------------------

pub fn run(tier: Tier, seed: u64) -> Report {
    let thorough = tier == Tier::Thorough;
    let dom = if thorough {
        "converges: every multiset of <= 3 states over 3 members x incarnation 0..=2 x timestamp 0..=2 x 4 healths (108 states) and every multiset of 4 states over 2 members x incarnation 0..=1 x timestamp 0..=1 x 4 healths (32 states), each in every distinct permutation x every batching (all compositions into merge calls) x every single duplicate delivery; plus 20000 seeded multisets of 5-6 states in 40 random deliveries each (not exhaustive). monotone: every op sequence of length <= 3 over 2 members (72 single-state merges, 68 two-state merges, empty merge, suspect, fail, refute, mark_healthy, update_local with incarnation >= stored) and length <= 2 over 3 members. clock: every sequence of <= 3 calls over 17 clock ops with values {0,1,MAX-2,MAX-1,MAX}"
    } else {
        "converges: every multiset of <= 3 states over 2 members x incarnation 0..=2 x timestamp 0..=2 x 4 healths (72 states) and every multiset of 4 states over 2 members x incarnation 0..=1 x timestamp 0..=1 x {Healthy, Failed} (16 states), each in every distinct permutation x every batching (all compositions into merge calls) x every single duplicate delivery. monotone: every op sequence of length <= 3 over 2 members (72 single-state merges, 68 two-state merges, suspect, fail, refute, mark_healthy, update_local with incarnation >= stored). clock: every sequence of <= 3 calls over 17 clock ops with values {0,1,MAX-2,MAX-1,MAX}"
    };
    let mut rep = Report::new("c17_merge", dom, true, &[
        "tensor_chain::gossip::LWWMembershipState::{new, merge, get, all_states, len, lamport_time, tick, sync_time, update_local, suspect, fail, refute, mark_healthy}",
        "tensor_chain::gossip::GossipNodeState::{new, supersedes}",
    ]);
    rep.declare(CONV, "LWWMembershipState::merge");
    rep.declare(MONO, "LWWMembershipState::{merge, suspect, fail, refute, mark_healthy, update_local}");
    rep.declare(FAILB, "LWWMembershipState::{fail, suspect}");
    rep.declare(CLOCK, "LWWMembershipState::{tick, sync_time, merge}");

    // convergence
    let mut cur = vec![];
    let a3 = Alpha::new(if thorough { 3 } else { 2 }, &[0, 1, 2], &[0, 1, 2], &[0, 1, 2, 3]);
    for size in 0..=3 { multisets(&mut rep, &a3, size, &mut cur, 0); }
    let a4 = if thorough { Alpha::new(2, &[0, 1], &[0, 1], &[0, 1, 2, 3]) } else { Alpha::new(2, &[0, 1], &[0, 1], &[0, 2]) };
    multisets(&mut rep, &a4, 4, &mut cur, 0);
    rep.sample(json!({"reference": [s_json((0, 0, 1, 1)), s_json((0, 2, 1, 1))], "states": [s_json((0, 2, 1, 1)), s_json((0, 0, 1, 1))], "cuts": 1}));
    if thorough {
        let mut rng = Rng(seed ^ 0xC17);
        let big = Alpha::new(3, &[0, 1, 2], &[0, 1, 2], &[0, 1, 2, 3]);
        for _ in 0..20_000 {
            let n = 5 + rng.below(2) as usize;
            let mut ms: Vec<usize> = (0..n).map(|_| rng.below(big.s.len() as u64) as usize).collect();
            ms.sort_unstable();
            let reference: Vec<GossipNodeState> = ms.iter().map(|&i| big.g[i].clone()).collect();
            let r = deliver(&reference, 0);
            for _ in 0..40 {
                let mut order = ms.clone();
                for i in (1..order.len()).rev() { order.swap(i, rng.below(i as u64 + 1) as usize); }
                if rng.below(2) == 0 { let d = order[rng.below(n as u64) as usize]; order.insert(rng.below(n as u64 + 1) as usize, d); }
                let cuts = rng.next() as u32 & ((1u32 << (order.len() - 1)) - 1);
                let states: Vec<GossipNodeState> = order.iter().map(|&i| big.g[i].clone()).collect();
                let v = deliver(&states, cuts);
                rep.eval(true);
                rep.check(CONV, v == r && reference_sound(&r, &reference),
                          &|| json!({"reference": ms.iter().map(|&i| s_json(big.s[i])).collect::<Vec<_>>(),
                                     "states": order.iter().map(|&i| s_json(big.s[i])).collect::<Vec<_>>(), "cuts": cuts}),
                          &|| format!("delivery gives {v:?}, reference gives {r:?}"));
            }
        }
    }

    // local transitions
    let mut path = vec![];
    // the last call of every sequence of exactly `len` calls is evaluated (shortest first: minimal failing cases)
    let m2 = malpha(2, thorough);
    for len in 1..=3 { mono_dfs(&mut rep, &m2, &LWWMembershipState::new(), &mut path, len); }
    if thorough { let m3 = malpha(3, true); for len in 1..=2 { mono_dfs(&mut rep, &m3, &LWWMembershipState::new(), &mut path, len); } }
    rep.sample(json!({"ops": [mop_json(&MOp::Merge(vec![(0, 0, 2, 1)])), mop_json(&MOp::Fail(0)), mop_json(&MOp::Refute(0, 3))]}));

    // clock
    let mut ccur = vec![];
    for len in 1..=3 { clock_dfs(&mut rep, &calpha(), &mut ccur, len); }
    rep.sample(json!({"clock_ops": [cop_json(&COp::Sync(u64::MAX - 1)), cop_json(&COp::Tick)]}));
    rep
}

pub fn replay(ob: &str, case: &Value) -> Result<String, String> {
    if case.get("clock_ops").is_some() {
        let seq: Vec<COp> = case["clock_ops"].as_array().ok_or("clock_ops must be an array")?.iter().map(cop_parse).collect::<Result<_, _>>()?;
        eval_clock(&seq).map(|t| format!("no panic, clock never moved backwards; final lamport_time {t}"))
    } else if case.get("ops").is_some() {
        replay_mono(ob, case)
    } else {
        replay_conv(case)
    }
}
