use crate::fw::{Report, Tier};
use serde_json::Value;

pub mod c20_ids;

pub type RunFn = fn(Tier, u64) -> Report;
pub type ReplayFn = fn(&str, &Value) -> Result<String, String>;

pub fn all() -> Vec<(&'static str, RunFn, ReplayFn)> {
    vec![
        ("c20_ids", c20_ids::run, c20_ids::replay),
    ]
}
