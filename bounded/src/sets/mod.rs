use crate::fw::{Report, Tier};
use serde_json::Value;

pub mod c03_2pc;
pub mod c06_search;
pub mod c07_snapshot;
pub mod c12_locks;
pub mod c13_txrecovery;
pub mod c16_chain;
pub mod c17_merge;
pub mod c19_blob;
pub mod c20_ids;

pub type RunFn = fn(Tier, u64) -> Report;
pub type ReplayFn = fn(&str, &Value) -> Result<String, String>;

pub fn all() -> Vec<(&'static str, RunFn, ReplayFn)> {
    vec![
        ("c03_2pc", c03_2pc::run, c03_2pc::replay),
        ("c06_search", c06_search::run, c06_search::replay),
        ("c07_snapshot", c07_snapshot::run, c07_snapshot::replay),
        ("c12_locks", c12_locks::run, c12_locks::replay),
        ("c13_txrecovery", c13_txrecovery::run, c13_txrecovery::replay),
        ("c16_chain", c16_chain::run, c16_chain::replay),
        ("c17_merge", c17_merge::run, c17_merge::replay),
        ("c19_blob", c19_blob::run, c19_blob::replay),
        ("c20_ids", c20_ids::run, c20_ids::replay),
    ]
}
