use crate::fw::{Report, Tier};
use serde_json::Value;

pub mod c01_handlers;
pub mod c02_durable;
pub mod c03_2pc;
pub mod c03_force;
pub mod c04_relq;
pub mod c05_graph;
pub mod c06_search;
pub mod c07_snapshot;
pub mod c08_rollback;
pub mod c09_reltx;
pub mod c10_raftwal;
pub mod c12_locks;
pub mod c13_txrecovery;
pub mod c14_vault;
pub mod c15_parser;
pub mod c16_chain;
pub mod c17_manager;
pub mod c17_merge;
pub mod c18_paths;
pub mod c19_blob;
pub mod c20_frames;
pub mod c20_garbage;
pub mod c20_ids;
pub mod c20_vectors;

pub type RunFn = fn(Tier, u64) -> Report;
pub type ReplayFn = fn(&str, &Value) -> Result<String, String>;

pub fn all() -> Vec<(&'static str, RunFn, ReplayFn)> {
    vec![
        ("c01_handlers", c01_handlers::run, c01_handlers::replay),
        ("c02_durable", c02_durable::run, c02_durable::replay),
        ("c03_2pc", c03_2pc::run, c03_2pc::replay),
        ("c03_force", c03_force::run, c03_force::replay),
        ("c04_relq", c04_relq::run, c04_relq::replay),
        ("c05_graph", c05_graph::run, c05_graph::replay),
        ("c06_search", c06_search::run, c06_search::replay),
        ("c07_snapshot", c07_snapshot::run, c07_snapshot::replay),
        ("c08_rollback", c08_rollback::run, c08_rollback::replay),
        ("c09_reltx", c09_reltx::run, c09_reltx::replay),
        ("c10_raftwal", c10_raftwal::run, c10_raftwal::replay),
        ("c12_locks", c12_locks::run, c12_locks::replay),
        ("c13_txrecovery", c13_txrecovery::run, c13_txrecovery::replay),
        ("c14_vault", c14_vault::run, c14_vault::replay),
        ("c15_parser", c15_parser::run, c15_parser::replay),
        ("c16_chain", c16_chain::run, c16_chain::replay),
        ("c17_manager", c17_manager::run, c17_manager::replay),
        ("c17_merge", c17_merge::run, c17_merge::replay),
        ("c18_paths", c18_paths::run, c18_paths::replay),
        ("c19_blob", c19_blob::run, c19_blob::replay),
        ("c20_frames", c20_frames::run, c20_frames::replay),
        ("c20_garbage", c20_garbage::run, c20_garbage::replay),
        ("c20_ids", c20_ids::run, c20_ids::replay),
        ("c20_vectors", c20_vectors::run, c20_vectors::replay),
    ]
}
