//! C02 (bounded): durable store -- acknowledged writes survive any crash, in order.
//!
//! A crash is modelled WITHOUT hooks: real operations run against a real log file, then a COPY of the
//! file is truncated at a byte offset and the real recovery (`TensorStore::recover`) runs on the copy.
//!
//! Domain (quick / thorough):
//!  * replay.prefix / open.wf / append.visible: every op script of length <= 3 / <= 4 over
//!    2 keys x {put v1, put v2, delete} (universe "meta": metadata-class keys; thorough adds universe
//!    "emb": embedding-class keys whose puts/deletes log several records, scripts <= 3) x EVERY byte
//!    truncation of the log the real writer produced.  The enumeration is prefix-closed, so for a script
//!    of k ops only the cuts behind the end of op k-1 are executed: a cut inside the records of the
//!    first k-1 ops is the very case (prefix script, same cut) that is executed for the prefix.
//!  * append.visible crash chains (thorough): every chain of 2 crash rounds (1 op of {put a v1, put a v2,
//!    del a} per round, every byte cut of the record written in that round) and every chain of
//!    3 crash rounds (1 op of {put a v1, put a v2, del a} per round, cut in {0,4,8,9,len-1,len} relative
//!    to the round's record), each followed by two crash-free reopens.
//!  * put.log_before_apply: every script of length <= 3 over 3 keys (2 durable + 1 cache-class) x 3
//!    kinds, every op observed; plus the same scripts (length <= 2 / <= 3) under a log whose size limit
//!    is reached after i ops (auto_rotate off) so that the log append fails.
//!  * checkpoint.steps: quick: every (s1, s2), |s1| <= 2, |s2| <= 1 over {put a v1, put a v2, del a, put b v1};
//!    thorough: all 6 ops, (|s1| <= 2, |s2| <= 1) and (|s1| <= 1, |s2| = 2), plus the emb universe; on-disk
//!    states: before, A (snapshot written), B (marker appended; plus every byte cut inside the marker),
//!    C (log truncated), C + s2 (plus every byte cut), then the same states of a second checkpoint.
//!  * recovery.fold: every WalEntry sequence of length <= 4 / <= 5 over an 11-symbol alphabet (precondition:
//!    the writer's one-open-transaction protocol); the well-formed sequences <= 4 that contain a TxCommit are
//!    also run end to end (TensorWal::append on a real file, TensorStore::recover).
//!  * rotation.then_checkpoint / rotation.no_checkpoint (quick and thorough): a log whose size limit
//!    (`max_size_bytes`, auto_rotate on) forces `TensorWal::rotate` after a few records.  Steps: ops over
//!    {put a v1, put a v2, del a, put b v1} and CKPT (a completed `checkpoint`).  Shapes:
//!    (a) rotation, more writes, checkpoint, more writes: filler [put a v2, put b v2]; s1; CKPT; s2 with max = size
//!        of the filler's log, so the next append (s1's first record, or the checkpoint marker when s1 = []) rotates;
//!        quick: s1 in {all |s1| <= 1, [0,2], [1,3], [2,0], [3,1]}, |s2| <= 1, and s1 = [put a v1] with all |s2| = 2;
//!        thorough: all |s1| <= 2, |s2| <= 2;
//!    (b) rotation without any checkpoint: s0; s1 with max = size of s0's log; quick: s0 in {[put a v2], filler},
//!        |s1| = 1; thorough: s0 in {[put a v1], [put a v2], filler}, 1 <= |s1| <= 2;
//!    (d) a size limit smaller than one record (the writer rotates, then writes the record whatever its size): x / x; y /
//!        s0; CKPT; x[; y] with max in {size of x's record - 1, 9, 1};
//!    (c) checkpoint followed by rotation: s0; CKPT; x; y with max = size of x's record (y rotates), all x, y;
//!        quick: s0 = [put a v1]; thorough: s0 in {[], [put a v1], [put a v2, put b v1]}; and the same followed by a
//!        second checkpoint and z: [put a v1]; CKPT; x; y; CKPT; z, quick: z in {[], [put a v1], [del a]},
//!        thorough: all |z| <= 1.
//!    Crash = every byte cut of the final log file (prefix-closed: cuts behind the last-but-one op of the current
//!    file) and the uncut file, the rotated files .1/.2 copied next to it; plus, for every rotation the real
//!    store performed, the step boundary inside `rotate` "old log renamed to .1, new log not yet created".
//!    Recovery from the latest snapshot (if a checkpoint completed) + log with the same WalConfig.  Clause (both
//!    ids): the recovered view is the state after p ops for some p >= number of acknowledged ops.  A case is
//!    filed under then_checkpoint when every op acknowledged after the last completed checkpoint sits in the
//!    current log file, under no_checkpoint when a rotation moved acknowledged, not yet checkpointed ops into a
//!    rotated file (`recover` reads only the current file: these cases FAIL on the current tree).
//!  * values.embedding_overwrite (quick and thorough): universe "embx" = keys {k:a (metadata class), emb:a
//!    (embedding class)} x {put P (no `_embedding` field), put E (with a Vector under `_embedding`), delete}:
//!    quick: per key every script of length <= 2 and the scripts E;del;P / E;P;E / P;E;P, thorough: every script
//!    of length <= 3 over both keys, x every byte cut (prefix-closed):
//!    recovered view = state after p >= acknowledged ops (so each key holds its LAST acknowledged value); then
//!    one more acknowledged plain put and a crash-free reopen.  Crash chains: round 1 = put E on either key cut
//!    at every byte of its record group, round 2 = put P on the same key cut at len-1 / len (thorough: put P on
//!    either key or delete, cuts {0,4,8,9,len-1,len}), then two crash-free reopens.
use crate::fw::{no_panic, Report, Tier};
use serde_json::{json, Value};
use std::collections::{BTreeMap, BTreeSet};
use std::path::{Path, PathBuf};
use tensor_store::{ScalarValue, TensorData, TensorStore, TensorValue, TensorWal, WalConfig, WalEntry, WalRecovery};

type Model = BTreeMap<String, TensorData>;

const OB_PREFIX: &str = "C02.replay.prefix";
const OB_WF: &str = "C02.open.wf";
const OB_VIS: &str = "C02.append.visible";
const OB_PUT: &str = "C02.put.log_before_apply";
const OB_CKPT: &str = "C02.checkpoint.steps";
const OB_FOLD: &str = "C02.recovery.fold";
const OB_FOLD_PARTS: &str = "C02.recovery.fold.parts";
const OB_ROTCK: &str = "C02.rotation.then_checkpoint";
const OB_ROTNC: &str = "C02.rotation.no_checkpoint";
const OB_EMBX: &str = "C02.values.embedding_overwrite";

#[derive(Clone, Copy, PartialEq)]
struct Uni { id: &'static str, keys: [&'static str; 3] }
const META: Uni = Uni { id: "meta", keys: ["k:a", "k:b", "_cache:c"] };
const EMB: Uni = Uni { id: "emb", keys: ["emb:a", "emb:b", "_cache:c"] };
/// one metadata-class and one embedding-class key; kind 0 = plain value, kind 1 = value with an `_embedding` field
const EMBX: Uni = Uni { id: "embx", keys: ["k:a", "emb:a", "_cache:c"] };

fn uni_of(v: &Value) -> Uni {
    match v.get("uni").and_then(Value::as_str) { Some("emb") => EMB, Some("embx") => EMBX, _ => META }
}

fn value(uni: Uni, n: i64) -> TensorData {
    let mut d = TensorData::new();
    d.set("v", TensorValue::Scalar(ScalarValue::Int(n)));
    if n == 2 {
        d.set("s", TensorValue::Scalar(ScalarValue::String("two".into())));
        d.set("f", TensorValue::Scalar(ScalarValue::Float(2.5)));
        d.set("b", TensorValue::Scalar(ScalarValue::Bytes(vec![0, 255, 7])));
        d.set("p", TensorValue::Pointer("k:a".into()));
        if uni == EMB || uni == EMBX { d.set("_embedding", TensorValue::Vector(vec![1.0, 0.0, 2.0])); }
    }
    d
}

/// op code: key = code / 3, kind = code % 3 (0 put v1, 1 put v2, 2 delete)
fn op_key(uni: Uni, code: u8) -> &'static str { uni.keys[(code / 3) as usize] }
fn op_is_cache(code: u8) -> bool { code / 3 == 2 }

fn model_apply(uni: Uni, m: &mut Model, code: u8) {
    let k = op_key(uni, code).to_string();
    match code % 3 { 0 => { m.insert(k, value(uni, 1)); }, 1 => { m.insert(k, value(uni, 2)); }, _ => { m.remove(&k); } }
}

fn real_apply(uni: Uni, st: &TensorStore, code: u8) -> Result<(), String> {
    let k = op_key(uni, code);
    match code % 3 {
        0 => st.put_durable(k, value(uni, 1)).map_err(|e| e.to_string()),
        1 => st.put_durable(k, value(uni, 2)).map_err(|e| e.to_string()),
        _ => st.delete_durable(k).map_err(|e| e.to_string()),
    }
}

/// whole observable key/value view (durable classes only: cache keys are documented non-durable)
fn view(st: &TensorStore) -> Result<Model, String> {
    let mut m = Model::new();
    let mut keys = st.scan("");
    keys.sort();
    for k in keys {
        if k.starts_with("_cache:") { continue; }
        match st.get(&k) { Ok(d) => { m.insert(k, d); }, Err(e) => return Err(format!("scan lists {k} but get fails: {e}")) }
    }
    Ok(m)
}

fn show(m: &Model) -> String {
    let mut s = String::from("{");
    for (k, d) in m {
        let v = match d.get("v") { Some(TensorValue::Scalar(ScalarValue::Int(i))) => i.to_string(), other => format!("{other:?}") };
        s.push_str(&format!("{k}=v{v}({}f) ", d.len()));
    }
    s.push('}');
    s
}

fn cfg() -> WalConfig { WalConfig::default() }

/// spec_parse boundaries: end offsets of the whole records (len_le32 ++ crc_le32 ++ payload) of a byte string
fn record_ends(bytes: &[u8]) -> Vec<usize> {
    let mut ends = vec![];
    let mut pos = 0usize;
    while pos + 8 <= bytes.len() {
        let len = u32::from_le_bytes([bytes[pos], bytes[pos + 1], bytes[pos + 2], bytes[pos + 3]]) as usize;
        if pos + 8 + len > bytes.len() { break; }
        pos += 8 + len;
        ends.push(pos);
    }
    ends
}

struct Written { bytes: Vec<u8>, op_ends: Vec<usize>, states: Vec<Model> }

/// run the script on a fresh durable store, return the log bytes, file length after each op and model states
fn write_script(dir: &Path, uni: Uni, script: &[u8]) -> Result<Written, String> {
    let p = dir.join("w.wal");
    let _ = std::fs::remove_file(&p);
    let st = TensorStore::open_durable(&p, cfg()).map_err(|e| format!("open_durable: {e}"))?;
    let mut m = Model::new();
    let mut states = vec![m.clone()];
    let mut op_ends = vec![];
    for &c in script {
        let r = real_apply(uni, &st, c);
        if c % 3 != 2 { r.map_err(|e| format!("put_durable failed on a fresh log: {e}"))?; }
        model_apply(uni, &mut m, c);
        states.push(m.clone());
        op_ends.push(std::fs::metadata(&p).map_err(|e| e.to_string())?.len() as usize);
    }
    drop(st);
    let bytes = std::fs::read(&p).map_err(|e| e.to_string())?;
    if bytes.len() != *op_ends.last().unwrap_or(&0) { return Err("file length changed on drop".into()); }
    Ok(Written { bytes, op_ends, states })
}

struct Out { ob: &'static str, ok: bool, detail: String }
fn out(ob: &'static str, ok: bool, detail: String) -> Out { Out { ob, ok, detail } }

/// crash at byte `cut` of the written log, recover; then one more acknowledged put and a crash-free reopen
fn eval_cut(dir: &Path, uni: Uni, w: &Written, cut: usize) -> Vec<Out> {
    let mut o = vec![];
    let c = dir.join("c.wal");
    std::fs::write(&c, &w.bytes[..cut]).expect("write copy");
    let n = w.op_ends.len();
    let j = w.op_ends.iter().filter(|&&e| e <= cut).count();
    let st = match TensorStore::recover(&c, &cfg(), None) {
        Ok(s) => s,
        Err(e) => { o.push(out(OB_PREFIX, false, format!("recover after cut {cut}/{} fails: {e}", w.bytes.len()))); return o; },
    };
    let v1 = match view(&st) { Ok(v) => v, Err(e) => { o.push(out(OB_PREFIX, false, e)); return o; } };
    let hit = (j..=n).find(|&p| w.states[p] == v1);
    o.push(out(OB_PREFIX, hit.is_some(), format!("cut {cut}/{}: recovered {} ; acknowledged prefix = {j} ops, expected one of the states after {j}..={n} ops, e.g. {}",
        w.bytes.len(), show(&v1), show(&w.states[j]))));
    // open.wf: after the reopen the file is a concatenation of whole records (torn tail gone, nothing else lost)
    let whole = record_ends(&w.bytes).into_iter().filter(|&e| e <= cut).max().unwrap_or(0);
    let flen = std::fs::metadata(&c).map(|m| m.len() as usize).unwrap_or(usize::MAX);
    let on_disk = std::fs::read(&c).unwrap_or_default();
    o.push(out(OB_WF, flen == whole && on_disk[..] == w.bytes[..whole.min(w.bytes.len())],
        format!("cut {cut}: after reopen the file has {flen} bytes, the longest whole-record prefix has {whole}")));
    // append.visible: one more acknowledged write, crash-free reopen
    let extra = value(uni, 3);
    let r = st.put_durable(uni.keys[0], extra.clone());
    drop(st);
    match r {
        Err(e) => o.push(out(OB_VIS, false, format!("cut {cut}: put_durable after recovery not acknowledged: {e}"))),
        Ok(()) => {
            let mut want = v1.clone();
            want.insert(uni.keys[0].to_string(), extra);
            match TensorStore::recover(&c, &cfg(), None) {
                Err(e) => o.push(out(OB_VIS, false, format!("cut {cut}: second recovery after one acknowledged put fails: {e}"))),
                Ok(s2) => {
                    let v2 = view(&s2);
                    o.push(out(OB_VIS, v2.as_ref() == Ok(&want), format!("cut {cut}: second recovery gives {} expected {}", v2.as_ref().map(show).unwrap_or_else(|e| e.clone()), show(&want))));
                },
            }
        },
    }
    o
}

/// successive crash rounds: in each round the store is recovered from the file, must show exactly the surviving
/// writes, runs the round's ops, then the file is cut at base+cut (base = length after recovery's tail repair).
fn eval_rounds(dir: &Path, uni: Uni, rounds: &[(Vec<u8>, usize)]) -> Out {
    let p = dir.join("r.wal");
    let _ = std::fs::remove_file(&p);
    let mut m = Model::new();
    for (ri, (script, cut_rel)) in rounds.iter().enumerate() {
        let st = match TensorStore::recover(&p, &cfg(), None) { Ok(s) => s, Err(e) => return out(OB_VIS, false, format!("round {ri}: recover fails: {e}")) };
        let v = view(&st);
        if v.as_ref() != Ok(&m) { return out(OB_VIS, false, format!("round {ri}: recovered {} expected {}", v.as_ref().map(show).unwrap_or_else(|e| e.clone()), show(&m))); }
        let base = std::fs::metadata(&p).map(|x| x.len() as usize).unwrap_or(0);
        let mut ends = vec![];
        for &c in script {
            let r = real_apply(uni, &st, c);
            if c % 3 != 2 { if let Err(e) = r { return out(OB_VIS, false, format!("round {ri}: put not acknowledged: {e}")); } }
            ends.push(std::fs::metadata(&p).map(|x| x.len() as usize).unwrap_or(0));
        }
        drop(st);
        let total = ends.last().copied().unwrap_or(base);
        let cut = (base + cut_rel).min(total);
        let f = std::fs::OpenOptions::new().write(true).open(&p).expect("open for cut");
        f.set_len(cut as u64).expect("cut");
        drop(f);
        for (i, &c) in script.iter().enumerate() { if ends[i] <= cut { model_apply(uni, &mut m, c); } }
    }
    for pass in 0..2 {
        match TensorStore::recover(&p, &cfg(), None) {
            Err(e) => return out(OB_VIS, false, format!("final reopen {pass}: recover fails: {e}")),
            Ok(s) => { let v = view(&s); if v.as_ref() != Ok(&m) { return out(OB_VIS, false, format!("final reopen {pass}: recovered {} expected {}", v.as_ref().map(show).unwrap_or_else(|e| e.clone()), show(&m))); } },
        }
    }
    out(OB_VIS, true, format!("{} rounds, final state {}", rounds.len(), show(&m)))
}

fn full_view(uni: Uni, st: &TensorStore) -> Vec<Option<TensorData>> { uni.keys.iter().map(|k| st.get(k).ok()).collect() }

fn replay_file(dir: &Path, p: &Path) -> Result<Vec<WalEntry>, String> {
    let c = dir.join("rp.wal");
    std::fs::copy(p, &c).map_err(|e| e.to_string())?;
    let w = TensorWal::open(&c, cfg()).map_err(|e| e.to_string())?;
    w.replay().map_err(|e| e.to_string())
}

/// put.log_before_apply over one script; `limit_after` = Some(i): the log is full after i ops (append must fail)
fn eval_put_script(dir: &Path, uni: Uni, script: &[u8], limit_after: Option<usize>) -> Vec<Out> {
    let mut o = vec![];
    let p = dir.join("p.wal");
    let _ = std::fs::remove_file(&p);
    let mut config = cfg();
    if let Some(i) = limit_after {
        // size of the log after the first i ops, measured with the default configuration
        let w = match write_script(dir, uni, &script[..i]) { Ok(w) => w, Err(e) => { o.push(out(OB_PUT, false, e)); return o; } };
        config.max_size_bytes = w.bytes.len() as u64;
        config.auto_rotate = false;
    }
    let st = match TensorStore::open_durable(&p, config) { Ok(s) => s, Err(e) => { o.push(out(OB_PUT, false, format!("open_durable: {e}"))); return o; } };
    let mut prev_entries: Vec<WalEntry> = vec![];
    for (i, &c) in script.iter().enumerate() {
        let key = op_key(uni, c);
        let before = full_view(uni, &st);
        let s0 = st.wal_status().expect("wal");
        let f0 = std::fs::metadata(&p).map(|m| m.len()).unwrap_or(0);
        let r = real_apply(uni, &st, c);
        let after = full_view(uni, &st);
        let s1 = st.wal_status().expect("wal");
        let f1 = std::fs::metadata(&p).map(|m| m.len()).unwrap_or(0);
        let entries = match replay_file(dir, &p) { Ok(e) => e, Err(e) => { o.push(out(OB_PUT, false, format!("op {i}: log unreadable: {e}"))); return o; } };
        let mut expect_mem = before.clone();
        let ki = (c / 3) as usize;
        expect_mem[ki] = match c % 3 { 0 => Some(value(uni, 1)), 1 => Some(value(uni, 2)), _ => None };
        let log_full = limit_after.is_some_and(|l| i >= l) && !op_is_cache(c);
        let (ok, why) = if op_is_cache(c) {
            // cache-class keys are never logged; memory follows the result
            let mem_ok = if r.is_ok() { after == expect_mem } else { after == before };
            (f1 == f0 && s1.entry_count == s0.entry_count && entries == prev_entries && mem_ok, "cache-class op must not touch the log")
        } else if log_full {
            (r.is_err() && f1 == f0 && s1.entry_count == s0.entry_count && entries == prev_entries && after == before, "log full: must return Err, leave file and memory unchanged")
        } else if r.is_ok() {
            let new: Vec<&WalEntry> = entries.iter().skip(prev_entries.len()).collect();
            let prefix_kept = entries.len() >= prev_entries.len() && entries[..prev_entries.len()] == prev_entries[..];
            let main: Vec<&&WalEntry> = new.iter().filter(|e| matches!(e, WalEntry::MetadataSet { .. } | WalEntry::MetadataDelete { .. })).collect();
            let main_ok = main.len() == 1 && match (c % 3, *main[0]) {
                (2, WalEntry::MetadataDelete { key: k }) => k == key,
                (0 | 1, WalEntry::MetadataSet { key: k, data }) => k == key && Some(data) == expect_mem[ki].as_ref(),
                _ => false,
            };
            let aux_ok = new.iter().all(|e| match e {
                WalEntry::MetadataSet { .. } | WalEntry::MetadataDelete { .. } => true,
                WalEntry::EmbeddingSet { embedding, .. } => c % 3 != 2 && Some(&TensorValue::Vector(embedding.clone())) == expect_mem[ki].as_ref().and_then(|d| d.get("_embedding")),
                WalEntry::EmbeddingDelete { .. } => c % 3 == 2,
                WalEntry::EntityRemove { key: k } => c % 3 == 2 && k == key,
                _ => false,
            });
            let exact_one = uni != META || new.len() == 1;
            (prefix_kept && main_ok && aux_ok && exact_one && matches!(new.last(), Some(WalEntry::MetadataSet { .. } | WalEntry::MetadataDelete { .. }))
                && s1.entry_count == s0.entry_count + new.len() && f1 > f0 && s1.size_bytes == f1 && after == expect_mem,
             "Ok: log must grow by exactly this op's record(s) and memory must reflect the op")
        } else {
            (after == before && entries.len() >= prev_entries.len() && entries[..prev_entries.len()] == prev_entries[..], "Err: memory must be unchanged")
        };
        o.push(out(OB_PUT, ok, format!("op {i} (code {c}, key {key}) -> {r:?}; {why}; file {f0}->{f1}, entry_count {}->{}, size_bytes {}, log entries {}->{}, memory {} -> {}",
            s0.entry_count, s1.entry_count, s1.size_bytes, prev_entries.len(), entries.len(),
            before.iter().map(|x| x.as_ref().map_or("-".into(), |d| d.len().to_string())).collect::<Vec<_>>().join(","),
            after.iter().map(|x| x.as_ref().map_or("-".into(), |d| d.len().to_string())).collect::<Vec<_>>().join(","))));
        prev_entries = entries;
    }
    o
}

fn copy_cut(src_bytes: &[u8], dst: &Path, cut: usize) { std::fs::write(dst, &src_bytes[..cut]).expect("write copy"); }

fn recover_view(wal: &Path, snap: Option<&Path>) -> Result<Model, String> {
    let s = TensorStore::recover(wal, &cfg(), snap).map_err(|e| format!("recover fails: {e}"))?;
    view(&s)
}

/// checkpoint.steps: s1; checkpoint; s2; second checkpoint -- every intermediate on-disk state recovers correctly
fn eval_ckpt(dir: &Path, uni: Uni, s1: &[u8], s2: &[u8]) -> Vec<Out> {
    let mut o = vec![];
    let l = dir.join("k.wal");
    let snap = dir.join("k.snap");
    let c = dir.join("kc.wal");
    let _ = std::fs::remove_file(&l);
    let _ = std::fs::remove_file(&snap);
    let st = match TensorStore::open_durable(&l, cfg()) { Ok(s) => s, Err(e) => { o.push(out(OB_CKPT, false, format!("open_durable: {e}"))); return o; } };
    let mut m = Model::new();
    for &op in s1 { let _ = real_apply(uni, &st, op); model_apply(uni, &mut m, op); }
    let c2 = c.clone();
    let step = move |name: String, wal_bytes: &[u8], cut: usize, snapshot: Option<&Path>, allowed: &[&Model]| -> Out {
        copy_cut(wal_bytes, &c2, cut);
        let got = recover_view(&c2, snapshot);
        let ok = matches!(&got, Ok(g) if allowed.iter().any(|a| *a == g));
        out(OB_CKPT, ok, format!("state {name}: recovered {} expected {}", got.as_ref().map(show).unwrap_or_else(|e| e.clone()),
            allowed.iter().map(|a| show(a)).collect::<Vec<_>>().join(" or ")))
    };
    for round in 0..2 {
        let tag = if round == 0 { "" } else { "2" };
        let log0 = std::fs::read(&l).expect("read log");
        // before the checkpoint starts (old snapshot, if any, + log)
        o.push(step(format!("before{tag}"), &log0, log0.len(), if round == 0 { None } else { Some(&snap) }, &[&m]));
        if round == 0 { o.push(step("before+missing-snapshot-path".into(), &log0, log0.len(), Some(&snap), &[&m])); }
        // A: snapshot written, marker not yet logged (the real save_to_file, same as checkpoint's first step)
        if let Err(e) = st.router().save_to_file(&snap) { o.push(out(OB_CKPT, false, format!("save_to_file: {e}"))); return o; }
        o.push(step(format!("A{tag}:snapshot-written"), &log0, log0.len(), Some(&snap), &[&m]));
        // B: marker appended to the log (real TensorWal::append on a copy), log not yet truncated
        let lb = dir.join("kb.wal");
        std::fs::write(&lb, &log0).expect("copy");
        {
            let mut w = TensorWal::open(&lb, cfg()).expect("open copy");
            if let Err(e) = w.append(&WalEntry::Checkpoint { snapshot_id: round }) { o.push(out(OB_CKPT, false, format!("append marker: {e}"))); return o; }
        }
        let logb = std::fs::read(&lb).expect("read");
        for cut in log0.len()..=logb.len() {
            o.push(step(format!("B{tag}:marker-appended cut {cut}/{}", logb.len()), &logb, cut, Some(&snap), &[&m]));
        }
        // A checkpoint interrupted while writing the snapshot (here: the snapshot path cannot be created, so
        // the real `checkpoint` fails in its snapshot step) must leave disk in a state that still recovers to
        // the live state from the PREVIOUS snapshot + log: the marker may only be logged once the snapshot is safe.
        let bad = dir.join("no-such-dir").join("k.snap");
        match st.checkpoint(&bad) {
            Ok(_) => o.push(out(OB_CKPT, false, format!("state X{tag}: checkpoint to an uncreatable path returned Ok"))),
            Err(_) => {
                let logx = std::fs::read(&l).expect("read log");
                o.push(step(format!("X{tag}:checkpoint-failed-in-snapshot-step"), &logx, logx.len(), if round == 0 { None } else { Some(&snap) }, &[&m]));
            },
        }
        // restore the snapshot file state A for the steps below (the failed attempt must not have touched it)
        // C: the real checkpoint (snapshot + marker + truncate)
        match st.checkpoint(&snap) {
            Err(e) => { o.push(out(OB_CKPT, false, format!("checkpoint: {e}"))); return o; },
            Ok(_) => {},
        }
        let logc = std::fs::read(&l).expect("read log");
        o.push(out(OB_CKPT, logc.is_empty(), format!("state C{tag}: log has {} bytes after checkpoint, expected 0", logc.len())));
        o.push(step(format!("C{tag}:truncated"), &logc, logc.len(), Some(&snap), &[&m]));
        // live store unchanged by the checkpoint
        let live = view(&st);
        o.push(out(OB_CKPT, live.as_ref() == Ok(&m), format!("live store after checkpoint{tag}: {} expected {}", live.as_ref().map(show).unwrap_or_else(|e| e.clone()), show(&m))));
        if round == 1 { break; }
        // C + more writes (and a torn tail at every byte)
        let mut states = vec![m.clone()];
        let mut ends = vec![];
        for &op in s2 {
            let _ = real_apply(uni, &st, op);
            model_apply(uni, &mut m, op);
            states.push(m.clone());
            ends.push(std::fs::metadata(&l).map(|x| x.len() as usize).unwrap_or(0));
        }
        let logw = std::fs::read(&l).expect("read log");
        for cut in 0..=logw.len() {
            let j = ends.iter().filter(|&&e| e <= cut).count();
            let allowed: Vec<&Model> = states[j..].iter().collect();
            o.push(step(format!("C+writes cut {cut}/{}", logw.len()), &logw, cut, Some(&snap), &allowed));
        }
    }
    o
}

// ---------- log rotation ----------

/// step code of a completed checkpoint inside a rotation script (op codes 0..=5 are the durable-key ops)
const CKPT: u8 = 9;

fn rot_cfg(max: u64) -> WalConfig { let mut c = cfg(); c.max_size_bytes = max; c.auto_rotate = true; c }

fn inode(p: &Path) -> u64 { use std::os::unix::fs::MetadataExt; std::fs::metadata(p).map(|m| m.ino()).unwrap_or(0) }

fn rotated(p: &Path, n: usize) -> PathBuf { PathBuf::from(format!("{}.{n}", p.display())) }

/// what the real store left on disk after a rotation script, and the ghost bookkeeping
struct RotRun {
    max: u64,
    log: Vec<u8>,
    has_snap: bool,
    /// model state after 0..=n ops (checkpoints are not ops)
    states: Vec<Model>,
    /// ops acknowledged before the first record of the current log file
    before_seg: usize,
    /// end offsets (in the current log file) of the ops whose record is in it
    seg_ends: Vec<usize>,
    rotations: usize,
    /// the size limit is smaller than a single record of the script (family (d)): the cuts are judged even when the store
    /// did not rotate
    oversize: bool,
    /// a rotation moved acknowledged ops that no completed checkpoint covers into a rotated file
    uncovered_rotated: bool,
    /// ops covered by the last completed checkpoint
    covered: usize,
    /// one check per rotation the real store performed: the step boundary inside `rotate` where the old log
    /// is already renamed to .1 and the new log file does not exist yet
    boundary: Vec<(usize, Out)>,
    /// the op codes (checkpoints left out) and their universe, for `skipping_rotated`
    ops: Vec<u8>,
    uni: Uni,
}

/// diagnosis attached to a failure: is the recovered view exactly "snapshot + the records of the current log file",
/// i.e. what a recovery that never opens the rotated files produces?  (`upto` = ops whose record is in the cut log)
fn skipping_rotated(r: &RotRun, covered: usize, from: usize, lo: usize, hi: usize, got: &Result<Model, String>) -> &'static str {
    let Ok(g) = got else { return "" };
    for q in lo..=hi {
        let mut m = r.states[covered].clone();
        for &c in &r.ops[from.min(q)..q] { model_apply(r.uni, &mut m, c); }
        if &m == g { return " [= snapshot + current log file only: the rotated file(s) were not replayed]"; }
    }
    ""
}

/// crash inside the rotation the store has just performed (files taken as the real rotate left them: .1 = the
/// old log, .2 = the older one, current log absent); every op acknowledged before must be recovered.
/// `covered` = ops contained in the snapshot that is on disk at that moment (`snap_now`: there is one).
fn rot_boundary(dir: &Path, r: &RotRun, step: usize, covered: usize, snap_now: bool) -> Out {
    let l = dir.join("rot.wal");
    let snap = dir.join("rot.snap");
    let c = dir.join("rotc.wal");
    for f in [c.clone(), rotated(&c, 1), rotated(&c, 2), rotated(&c, 3)] { let _ = std::fs::remove_file(f); }
    for k in 1..=2 { if rotated(&l, k).exists() { std::fs::copy(rotated(&l, k), rotated(&c, k)).expect("copy rotated"); } }
    let n = r.states.len() - 1;
    let ob = if n > covered || r.uncovered_rotated { OB_ROTNC } else { OB_ROTCK };
    let got = TensorStore::recover(&c, &rot_cfg(r.max), if snap_now { Some(snap.as_path()) } else { None }).map_err(|e| format!("recover fails: {e}")).and_then(|s| view(&s));
    let ok = got.as_ref() == Ok(&r.states[n]);
    let why = if ok { "" } else { skipping_rotated(r, covered, n, n, n, &got) };
    out(ob, ok, format!("crash inside the rotate of step {step}: old log renamed to .1, new log not yet created (max_size_bytes {}, {covered} of {n} acknowledged ops in the snapshot on disk): recovered {} expected the state after {n} ops {}{why}",
        r.max, got.as_ref().map(show).unwrap_or_else(|e| e.clone()), show(&r.states[n])))
}

fn run_rot(dir: &Path, uni: Uni, script: &[u8], max: u64) -> Result<RotRun, String> {
    let l = dir.join("rot.wal");
    let snap = dir.join("rot.snap");
    for f in [l.clone(), rotated(&l, 1), rotated(&l, 2), rotated(&l, 3), snap.clone()] { let _ = std::fs::remove_file(f); }
    let st = TensorStore::open_durable(&l, rot_cfg(max)).map_err(|e| format!("open_durable: {e}"))?;
    let mut m = Model::new();
    let mut r = RotRun { max, log: vec![], has_snap: false, states: vec![m.clone()], before_seg: 0, seg_ends: vec![], rotations: 0, oversize: false, uncovered_rotated: false, covered: 0, boundary: vec![], ops: vec![], uni };
    let mut ino = inode(&l);
    let mut done = 0usize;
    for (i, &c) in script.iter().enumerate() {
        if c == CKPT {
            st.checkpoint(&snap).map_err(|e| format!("step {i}: checkpoint fails: {e}"))?;
            let now = inode(&l);
            if now != ino {
                // the checkpoint marker rotated the log (the new snapshot is already on disk)
                r.rotations += 1;
                ino = now;
                r.uncovered_rotated = false;
                let b = rot_boundary(dir, &r, i, done, true);
                r.boundary.push((i, b));
            }
            let flen = std::fs::metadata(&l).map_err(|e| e.to_string())?.len();
            if flen != 0 { return Err(format!("step {i}: log has {flen} bytes after a completed checkpoint, expected 0")); }
            r.has_snap = true;
            r.covered = done;
            r.uncovered_rotated = false;
            r.before_seg = done;
            r.seg_ends.clear();
            continue;
        }
        let res = real_apply(uni, &st, c);
        if c % 3 != 2 { res.map_err(|e| format!("step {i}: put_durable not acknowledged although auto_rotate is on: {e}"))?; }
        let now = inode(&l);
        if now != ino {
            // the append of this op rotated the log: everything acknowledged so far now sits in a rotated file
            r.rotations += 1;
            ino = now;
            let b = rot_boundary(dir, &r, i, r.covered, r.has_snap);
            r.boundary.push((i, b));
            if done > r.covered { r.uncovered_rotated = true; }
            r.before_seg = done;
            r.seg_ends.clear();
        }
        done += 1;
        model_apply(uni, &mut m, c);
        r.ops.push(c);
        r.states.push(m.clone());
        r.seg_ends.push(std::fs::metadata(&l).map_err(|e| e.to_string())?.len() as usize);
    }
    // the live store shows the model state
    let live = view(&st);
    if live.as_ref() != Ok(&m) { return Err(format!("live store shows {} expected {}", live.as_ref().map(show).unwrap_or_else(|e| e.clone()), show(&m))); }
    drop(st);
    r.log = std::fs::read(&l).map_err(|e| e.to_string())?;
    if r.log.len() != r.seg_ends.last().copied().unwrap_or(0) { return Err("log length changed on drop".into()); }
    Ok(r)
}

/// first cut that is not already the case (prefix script, same cut)
fn rot_lo(r: &RotRun) -> usize { if r.seg_ends.len() >= 2 { r.seg_ends[r.seg_ends.len() - 2] + 1 } else { 0 } }

/// crash with the current log cut at `cut`, the rotated files as they are; recover from the latest snapshot (if
/// a checkpoint completed) + log
fn eval_rot_cut(dir: &Path, r: &RotRun, cut: usize) -> Option<Out> {
    if r.rotations == 0 && !r.oversize { return None; } // precondition of the family: the script made the log rotate (or a record exceeds the limit)
    let l = dir.join("rot.wal");
    let snap = dir.join("rot.snap");
    let c = dir.join("rotc.wal");
    for f in [c.clone(), rotated(&c, 1), rotated(&c, 2), rotated(&c, 3)] { let _ = std::fs::remove_file(f); }
    let n = r.states.len() - 1;
    std::fs::write(&c, &r.log[..cut]).expect("write copy");
    for k in 1..=2 { if rotated(&l, k).exists() { std::fs::copy(rotated(&l, k), rotated(&c, k)).expect("copy rotated"); } }
    let acked = r.before_seg + r.seg_ends.iter().filter(|&&e| e <= cut).count();
    let ob = if r.uncovered_rotated { OB_ROTNC } else { OB_ROTCK };
    let got = TensorStore::recover(&c, &rot_cfg(r.max), if r.has_snap { Some(snap.as_path()) } else { None }).map_err(|e| format!("recover fails: {e}")).and_then(|s| view(&s));
    let ok = matches!(&got, Ok(g) if r.states[acked..].iter().any(|s| s == g));
    let why = if ok { "" } else { skipping_rotated(r, r.covered, r.before_seg, acked, n, &got) };
    Some(out(ob, ok, format!("cut {cut}/{} of the current log (max_size_bytes {}, {} rotation(s), {} of {n} ops covered by a checkpoint): recovered {} ; acknowledged = {acked} ops, expected one of the states after {acked}..={n} ops, e.g. {}{why}",
        r.log.len(), r.max, r.rotations, r.covered, got.as_ref().map(show).unwrap_or_else(|e| e.clone()), show(&r.states[acked]))))
}

// ---------- recovery fold ----------

/// alphabet: 0 set k0, 1 set k1, 2 del k0, 3 del k1, 4/5/6 begin/commit/abort tx 1, 7/8/9 begin/commit/abort tx 2, 10 checkpoint
const FOLD_SYMS: u8 = 11;
fn fold_entry(sym: u8, pos: usize) -> WalEntry {
    let val = |p: usize| { let mut d = TensorData::new(); d.set("v", TensorValue::Scalar(ScalarValue::Int(p as i64))); d };
    match sym {
        0 => WalEntry::MetadataSet { key: "k:a".into(), data: val(pos) },
        1 => WalEntry::MetadataSet { key: "k:b".into(), data: val(pos) },
        2 => WalEntry::MetadataDelete { key: "k:a".into() },
        3 => WalEntry::MetadataDelete { key: "k:b".into() },
        4 => WalEntry::TxBegin { tx_id: 1 }, 5 => WalEntry::TxCommit { tx_id: 1 }, 6 => WalEntry::TxAbort { tx_id: 1 },
        7 => WalEntry::TxBegin { tx_id: 2 }, 8 => WalEntry::TxCommit { tx_id: 2 }, 9 => WalEntry::TxAbort { tx_id: 2 },
        _ => WalEntry::Checkpoint { snapshot_id: pos as u64 },
    }
}

struct FoldSpec { single: Vec<WalEntry>, committed: Vec<WalEntry>, kept_in_order: Vec<WalEntry>, pending: BTreeSet<u64>, last_ckpt: Option<u64> }

/// Spec fold written from the doc comments. Precondition (the writer's protocol: TransactionAlreadyActive /
/// NoActiveTransaction): at most one transaction is open at a time, commit/abort name the open one, a
/// checkpoint is taken with no transaction open. Returns None when the precondition fails.
fn fold_spec(entries: &[WalEntry]) -> Option<FoldSpec> {
    // well-formedness over the whole log
    let mut open: Option<u64> = None;
    for e in entries {
        match e {
            WalEntry::TxBegin { tx_id } => { if open.is_some() { return None; } open = Some(*tx_id); },
            WalEntry::TxCommit { tx_id } | WalEntry::TxAbort { tx_id } => { if open != Some(*tx_id) { return None; } open = None; },
            WalEntry::Checkpoint { .. } => { if open.is_some() { return None; } },
            _ => {},
        }
    }
    // ops before the last checkpoint marker dropped
    let start = entries.iter().rposition(|e| matches!(e, WalEntry::Checkpoint { .. }));
    let last_ckpt = start.map(|i| match &entries[i] { WalEntry::Checkpoint { snapshot_id } => *snapshot_id, _ => 0 });
    let tail = &entries[start.map_or(0, |i| i + 1)..];
    // ops of uncommitted transactions dropped; committed ones kept at their position in the log
    let mut s = FoldSpec { single: vec![], committed: vec![], kept_in_order: vec![], pending: BTreeSet::new(), last_ckpt };
    let mut i = 0;
    while i < tail.len() {
        match &tail[i] {
            WalEntry::TxBegin { tx_id } => {
                let mut k = i + 1;
                let mut ops = vec![];
                let mut outcome = None;
                while k < tail.len() {
                    match &tail[k] {
                        WalEntry::TxCommit { .. } => { outcome = Some(true); break; },
                        WalEntry::TxAbort { .. } => { outcome = Some(false); break; },
                        e => ops.push(e.clone()),
                    }
                    k += 1;
                }
                match outcome {
                    Some(true) => { s.committed.extend(ops.iter().cloned()); s.kept_in_order.extend(ops); },
                    Some(false) => {},
                    None => { s.pending.insert(*tx_id); },
                }
                i = k + 1;
            },
            e => { s.single.push(e.clone()); s.kept_in_order.push(e.clone()); i += 1; },
        }
    }
    Some(s)
}

fn apply_entries<'a>(ops: impl Iterator<Item = &'a WalEntry>) -> BTreeMap<String, i64> {
    let mut m = BTreeMap::new();
    for e in ops {
        match e {
            WalEntry::MetadataSet { key, data } => { let v = match data.get("v") { Some(TensorValue::Scalar(ScalarValue::Int(i))) => *i, _ => -1 }; m.insert(key.clone(), v); },
            WalEntry::MetadataDelete { key } => { m.remove(key); },
            _ => {},
        }
    }
    m
}

fn eval_fold(syms: &[u8]) -> (bool, Vec<Out>) {
    let entries: Vec<WalEntry> = syms.iter().enumerate().map(|(i, &s)| fold_entry(s, i)).collect();
    let e2 = entries.clone();
    let rec = match no_panic(move || WalRecovery::from_entries(&e2)) { Ok(r) => r, Err(p) => return (true, vec![out(OB_FOLD, false, format!("from_entries panics: {p}"))]) };
    let Some(spec) = fold_spec(&entries) else { return (false, vec![]); };
    let got_state = apply_entries(rec.all_operations().into_iter());
    let want_state = apply_entries(spec.kept_in_order.iter());
    let mut o = vec![out(OB_FOLD, got_state == want_state, format!("state after replaying all_operations() = {got_state:?}, spec_apply (committed and single ops in log order after the last checkpoint) = {want_state:?}; operations={:?} committed_ops={:?}",
        rec.operations.iter().map(short).collect::<Vec<_>>(), rec.committed_ops.iter().map(short).collect::<Vec<_>>()))];
    let pend: BTreeSet<u64> = rec.pending_txs.keys().copied().collect();
    let parts_ok = rec.operations == spec.single && rec.committed_ops == spec.committed && pend == spec.pending && rec.last_checkpoint == spec.last_ckpt
        && rec.has_pending_transactions() == !spec.pending.is_empty() && rec.replay_count() == spec.single.len() + spec.committed.len();
    o.push(out(OB_FOLD_PARTS, parts_ok, format!("operations={:?} (spec {:?}), committed_ops={:?} (spec {:?}), pending={pend:?} (spec {:?}), last_checkpoint={:?} (spec {:?})",
        rec.operations.iter().map(short).collect::<Vec<_>>(), spec.single.iter().map(short).collect::<Vec<_>>(),
        rec.committed_ops.iter().map(short).collect::<Vec<_>>(), spec.committed.iter().map(short).collect::<Vec<_>>(), spec.pending, rec.last_checkpoint, spec.last_ckpt)));
    (true, o)
}

fn short(e: &WalEntry) -> String {
    match e {
        WalEntry::MetadataSet { key, data } => format!("set {key}={:?}", match data.get("v") { Some(TensorValue::Scalar(ScalarValue::Int(i))) => *i, _ => -1 }),
        WalEntry::MetadataDelete { key } => format!("del {key}"),
        other => format!("{other:?}"),
    }
}

/// end-to-end form of a fold case: the entries are written with the real TensorWal::append and recovered
/// with the real TensorStore::recover
fn eval_fold_e2e(dir: &Path, syms: &[u8]) -> Option<Out> {
    let entries: Vec<WalEntry> = syms.iter().enumerate().map(|(i, &s)| fold_entry(s, i)).collect();
    let spec = fold_spec(&entries)?;
    let p = dir.join("f.wal");
    let _ = std::fs::remove_file(&p);
    {
        let mut w = TensorWal::open(&p, cfg()).expect("open");
        for e in &entries { w.append(e).expect("append"); }
    }
    let want = apply_entries(spec.kept_in_order.iter());
    let got = match TensorStore::recover(&p, &cfg(), None) {
        Err(e) => return Some(out(OB_FOLD, false, format!("recover fails: {e}"))),
        Ok(s) => {
            let mut m = BTreeMap::new();
            for k in ["k:a", "k:b"] { if let Ok(d) = s.get(k) { if let Some(TensorValue::Scalar(ScalarValue::Int(i))) = d.get("v") { m.insert(k.to_string(), *i); } } }
            m
        },
    };
    Some(out(OB_FOLD, got == want, format!("log written with TensorWal::append, TensorStore::recover gives {got:?}, spec_apply gives {want:?}")))
}

// ---------- enumeration ----------

fn scripts(nsyms: u8, maxlen: usize) -> Vec<Vec<u8>> {
    let mut all: Vec<Vec<u8>> = vec![vec![]];
    let mut frontier: Vec<Vec<u8>> = vec![vec![]];
    for _ in 0..maxlen {
        let mut next = vec![];
        for s in &frontier { for a in 0..nsyms { let mut t = s.clone(); t.push(a); next.push(t); } }
        all.extend(next.iter().cloned());
        frontier = next;
    }
    all
}

/// the embx universe reports the recovered-view and later-writes checks under its own obligation id
fn embx_outs(outs: Vec<Out>) -> Vec<Out> {
    outs.into_iter().map(|x| if x.ob == OB_PREFIX || x.ob == OB_VIS { out(OB_EMBX, x.ok, x.detail) } else { x }).collect()
}

fn record(rep: &mut Report, outs: Vec<Out>, case: &dyn Fn() -> Value) {
    for x in outs { rep.check(x.ob, x.ok, case, &|| x.detail.clone()); }
}

pub fn run(tier: Tier, _seed: u64) -> Report {
    let thorough = tier == Tier::Thorough;
    let maxlen = if thorough { 4 } else { 3 };
    let mut rep = Report::new("c02_durable",
        &format!("replay: all op scripts of length <= {maxlen} over 2 metadata-class keys x {{put v1, put v2, delete}}{} x every byte truncation of the real log \
                  (prefix-closed enumeration: per script the cuts behind the end of the last-but-one op are executed, earlier cuts are the cases of its prefixes); \
                  put: all scripts <= 3 over 3 keys (2 durable, 1 cache-class) x 3 kinds, plus log-full variants; \
                  checkpoint: {}, on-disk states before/A/B(+every marker cut)/C/C+writes(+every cut)/second checkpoint; \
                  fold: all WalEntry sequences of length <= {} over 11 symbols, well-formed ones with a commit (<= 4) also end to end through files{}; \
                  rotation (max_size_bytes reached after a few records, auto_rotate on): filler; s1; CKPT; s2 / s0; s1 without checkpoint / s0; CKPT; x; y(rotates)[; CKPT; z] over 4 ops, \
                  {}, x every byte cut of the final log (prefix-closed) + the renamed-not-yet-created boundary of every rotation performed; \
                  embedding overwrite: keys {{k:a, emb:a}} x {{put plain, put with _embedding, delete}}, {} x every byte cut, then one more plain put and a reopen; \
                  2-round chains (put with _embedding torn at every byte, then a plain write, {})",
                 if thorough { " (and all scripts <= 3 over 2 embedding-class keys)" } else { "" },
                 if thorough { "all (s1,s2) over 6 ops with |s1|<=2,|s2|<=1 or |s1|<=1,|s2|=2 (+ emb universe over 4 ops)" } else { "all (s1,s2) over 4 ops with |s1|<=2,|s2|<=1" },
                 if thorough { 5 } else { 4 },
                 if thorough { "; crash chains: all 2-round chains (1 of 3 ops per round, every byte cut) and all 3-round chains (1 of 3 ops per round, cuts {0,4,8,9,len-1,len})" } else { "" },
                 if thorough { "all |s1|<=2,|s2|<=2; 3 s0 x 1<=|s1|<=2; 3 s0 x all x,y; all |z|<=1" } else { "9 s1 x |s2|<=1 and s1=[put a v1] x |s2|=2; 2 s0 x |s1|=1; s0=[put a v1] x all x,y; 3 z" },
                 if thorough { "all scripts <= 3" } else { "per key all scripts <= 2 and E;del;P / E;P;E / P;E;P" },
                 if thorough { "3 plain ops x cuts {0,4,8,9,len-1,len}" } else { "put plain on the same key cut at len-1 / len" }),
        true,
        &["TensorStore::open_durable", "TensorStore::recover", "TensorStore::put_durable", "TensorStore::delete_durable", "TensorStore::checkpoint",
          "SlabRouter::recover", "SlabRouter::checkpoint", "SlabRouter::save_to_file", "TensorWal::open", "TensorWal::append", "TensorWal::replay", "TensorWal::rotate", "TensorWal::truncate", "WalRecovery::from_entries", "WalRecovery::all_operations"]);
    rep.declare(OB_PREFIX, "SlabRouter::recover over TensorStore::recover");
    rep.declare(OB_WF, "TensorWal::open");
    rep.declare(OB_VIS, "TensorWal::open; append; replay (via recover; put_durable; recover)");
    rep.declare(OB_PUT, "SlabRouter::put_durable / delete_durable");
    rep.declare(OB_CKPT, "SlabRouter::checkpoint");
    rep.declare(OB_FOLD, "WalRecovery::from_entries + all_operations");
    rep.declare(OB_FOLD_PARTS, "WalRecovery::from_entries");
    rep.declare(OB_ROTCK, "TensorWal::rotate; SlabRouter::checkpoint; SlabRouter::recover");
    rep.declare(OB_ROTNC, "TensorWal::rotate; SlabRouter::recover");
    rep.declare(OB_EMBX, "SlabRouter::put_durable / delete_durable; SlabRouter::recover");
    let dir = crate::fw::tmpdir("c02_durable");

    // replay.prefix / open.wf / append.visible
    let mut unis: Vec<(Uni, usize)> = vec![(META, maxlen)];
    if thorough { unis.push((EMB, 3)); }
    for (uni, ml) in unis {
        for script in scripts(6, ml) {
            let w = match write_script(&dir, uni, &script) {
                Ok(w) => w,
                Err(e) => { rep.check(OB_PREFIX, false, &|| json!({"uni": uni.id, "script": script, "cut": 0}), &|| e.clone()); continue; },
            };
            let bounds = record_ends(&w.bytes);
            // cuts inside the records of the earlier ops are exactly the cases of the script's proper prefixes
            let lo = if script.len() <= 1 { 0 } else { w.op_ends[script.len() - 2] + 1 };
            for cut in lo..=w.bytes.len() {
                rep.eval(cut != 0 && !bounds.contains(&cut));
                let outs = eval_cut(&dir, uni, &w, cut);
                let sc = &script;
                record(&mut rep, outs, &|| json!({"uni": uni.id, "script": sc, "cut": cut}));
            }
            if script == [0u8, 4] { rep.sample(json!({"uni": uni.id, "script": script, "cut": w.bytes.len() - 1})); }
        }
    }

    // values.embedding_overwrite: plain values and values with an `_embedding` field overwrite each other
    {
        let uni = EMBX;
        // quick: per key every script <= 2 over {put P, put E, del} and the scripts E;del;P / E;P;E / P;E;P;
        // thorough: every script <= 3 over both keys
        let mut all = if thorough { scripts(6, 3) } else { vec![vec![]] };
        if !thorough { for key in 0..2u8 {
            for s in scripts(3, 2) { if !s.is_empty() { all.push(s.iter().map(|k| key * 3 + k).collect()); } }
            for s in [[1u8, 2, 0], [1, 0, 1], [0, 1, 0]] { all.push(s.iter().map(|k| key * 3 + k).collect()); }
        } }
        for script in all {
            let w = match write_script(&dir, uni, &script) {
                Ok(w) => w,
                Err(e) => { rep.check(OB_EMBX, false, &|| json!({"uni": uni.id, "script": script, "cut": 0}), &|| e.clone()); continue; },
            };
            let bounds = record_ends(&w.bytes);
            let lo = if script.len() <= 1 { 0 } else { w.op_ends[script.len() - 2] + 1 };
            for cut in lo..=w.bytes.len() {
                rep.eval(cut != 0 && !bounds.contains(&cut));
                let outs = embx_outs(eval_cut(&dir, uni, &w, cut));
                let sc = &script;
                record(&mut rep, outs, &|| json!({"uni": uni.id, "script": sc, "cut": cut}));
            }
        }
        // crash chains: round 1 = put E (value with `_embedding`) torn at every byte of its record group,
        // round 2 = a plain write (quick: put P on the same key, cut len-1 / len; thorough: put P on either key or
        // delete, cuts {0,4,8,9,len-1,len}), then two crash-free reopens
        for e_op in [1u8, 4] {
            let glen = write_script(&dir, uni, &[e_op]).map(|w| w.bytes.len()).unwrap_or(0);
            let p_ops = if thorough { vec![e_op - 1, e_op + 1, 4 - e_op] } else { vec![e_op - 1] };
            for p_op in p_ops {
                let plen = write_script(&dir, uni, &[e_op, p_op]).map(|w| w.bytes.len() - glen).unwrap_or(0);
                let mut cls = if thorough { vec![0, 4, 8, 9, plen - 1, plen] } else { vec![plen - 1, plen] };
                cls.sort_unstable(); cls.dedup();
                for c1 in 0..=glen { for &c2 in &cls {
                    let rounds = vec![(vec![e_op], c1), (vec![p_op], c2)];
                    rep.eval(true);
                    let x = eval_rounds(&dir, uni, &rounds);
                    record(&mut rep, embx_outs(vec![x]), &|| json!({"uni": "embx", "rounds": rounds.iter().map(|(s, c)| json!({"script": s, "cut": c})).collect::<Vec<_>>()}));
                } }
            }
        }
    }

    // log rotation
    let rot_sample_max;
    {
        let uni = META;
        let size = |s: &[u8]| write_script(&dir, uni, s).map(|w| w.bytes.len() as u64).unwrap_or(0);
        let filler = vec![1u8, 4];
        let fmax = size(&filler);
        rot_sample_max = fmax;
        let mut cases: Vec<(Vec<u8>, u64)> = vec![];
        // (a) rotation, more writes into the new file, a completed checkpoint, more acknowledged writes:
        //     filler; s1; CKPT; s2 with max = size of the filler's log (the next append, s1's first record or the
        //     checkpoint marker, rotates)
        let s1s: Vec<Vec<u8>> = if thorough { scripts(4, 2) } else { let mut v = scripts(4, 1); v.extend([vec![0u8, 2], vec![1, 3], vec![2, 0], vec![3, 1]]); v };
        for s1 in &s1s { for s2 in scripts(4, 2) {
            if !thorough && s2.len() == 2 && s1[..] != [0u8] { continue; }
            let mut sc = filler.clone(); sc.extend(s1); sc.push(CKPT); sc.extend(&s2);
            cases.push((sc, fmax));
        } }
        // (b) rotation without any checkpoint: s0; s1 with max = size of s0's log
        let s0s: Vec<(Vec<u8>, usize)> = if thorough { vec![(vec![0u8], 2), (vec![1], 2), (filler.clone(), 2)] } else { vec![(vec![1u8], 1), (filler.clone(), 1)] };
        for (s0, l1) in s0s { let m0 = size(&s0); for s1 in scripts(4, l1) {
            if s1.is_empty() { continue; }
            let mut sc = s0.clone(); sc.extend(&s1);
            cases.push((sc, m0));
        } }
        // (c) checkpoint followed by rotation: s0; CKPT; x; y with max = size of x's record (y rotates); the same
        //     followed by a second checkpoint and one more op
        for x in 0..4u8 { let mx = size(&[x]); for y in 0..4u8 {
            let s0s: Vec<Vec<u8>> = if thorough { vec![vec![], vec![0u8], vec![1, 3]] } else { vec![vec![0u8]] };
            for s0 in s0s { let mut sc = s0.clone(); sc.push(CKPT); sc.push(x); sc.push(y); cases.push((sc, mx)); }
            let zs: Vec<Vec<u8>> = if thorough { scripts(4, 1) } else { vec![vec![], vec![0u8], vec![2]] };
            for z in zs { let mut sc = vec![0u8, CKPT, x, y, CKPT]; sc.extend(&z); cases.push((sc, mx)); }
        } }
        // (d) a size limit SMALLER than one record (auto_rotate on: the writer rotates and then writes the record whatever its
        //     size, so a whole acknowledged record may be longer than max_size_bytes): x / x; y / s0; CKPT; x[; y]
        let n_regular = cases.len();
        for x in 0..4u8 { let mx = size(&[x]); for lim in [mx - 1, 9, 1] {
            cases.push((vec![x], lim));
            cases.push((vec![0u8, CKPT, x], lim));
            if thorough || lim == mx - 1 { for y in 0..4u8 { cases.push((vec![x, y], lim)); cases.push((vec![1u8, CKPT, x, y], lim)); } }
        } }
        let mut seen_boundary: BTreeSet<(Vec<u8>, u64)> = BTreeSet::new();
        for (ci, (script, max)) in cases.into_iter().enumerate() {
            let r = match run_rot(&dir, uni, &script, max) {
                Ok(mut r) => { r.oversize = ci >= n_regular; r },
                Err(e) => { rep.check(OB_ROTCK, false, &|| json!({"uni": uni.id, "rot": script, "max": max, "cut": 0}), &|| e.clone()); continue; },
            };
            let sc = &script;
            for cut in rot_lo(&r)..=r.log.len() {
                let x = eval_rot_cut(&dir, &r, cut);
                rep.eval(x.is_some() && cut != 0 && !r.seg_ends.contains(&cut));
                record(&mut rep, x.into_iter().collect(), &|| json!({"uni": uni.id, "rot": sc, "max": max, "cut": cut}));
            }
            // the step boundary inside each rotation the store performed (case = the script up to the rotating step)
            for (step, x) in &r.boundary {
                let pre = script[..=*step].to_vec();
                if !seen_boundary.insert((pre.clone(), max)) { continue; }
                rep.eval(true);
                record(&mut rep, vec![out(x.ob, x.ok, x.detail.clone())], &|| json!({"uni": uni.id, "rot": pre, "max": max, "cut": "renamed"}));
            }
        }
    }

    // crash chains (thorough)
    if thorough {
        let uni = META;
        // record length of each single op (put v1 / put v2 / delete record lengths do not depend on the position)
        let mut oplen = [0usize; 6];
        for c in 0..6u8 { oplen[c as usize] = write_script(&dir, uni, &[c]).map(|w| w.bytes.len()).unwrap_or(0); }
        let classes = |len: usize| -> Vec<usize> { let mut v = vec![0, 4, 8, 9, len - 1, len]; v.sort_unstable(); v.dedup(); v };
        let case_of = |rounds: &[(Vec<u8>, usize)]| json!({"uni": "meta", "rounds": rounds.iter().map(|(s, c)| json!({"script": s, "cut": c})).collect::<Vec<_>>()});
        // 2 rounds: ops {put a v1, put a v2, del a}, every byte cut of each round's record
        for a in 0..3u8 { for ca in 0..=oplen[a as usize] { for b in 0..3u8 { for cb in 0..=oplen[b as usize] {
            let rounds = vec![(vec![a], ca), (vec![b], cb)];
            rep.eval(ca != oplen[a as usize] || cb != oplen[b as usize]);
            let x = eval_rounds(&dir, uni, &rounds);
            record(&mut rep, vec![x], &|| case_of(&rounds));
        } } } }
        // 3 rounds: ops {put a v1, put a v2, del a}, cut classes
        for a in 0..3u8 { for ca in classes(oplen[a as usize]) { for b in 0..3u8 { for cb in classes(oplen[b as usize]) { for c in 0..3u8 { for cc in classes(oplen[c as usize]) {
            let rounds = vec![(vec![a], ca), (vec![b], cb), (vec![c], cc)];
            rep.eval(true);
            let x = eval_rounds(&dir, uni, &rounds);
            record(&mut rep, vec![x], &|| case_of(&rounds));
        } } } } } }
        rep.sample(json!({"uni": "meta", "rounds": [{"script": [0], "cut": 9}, {"script": [1], "cut": 4}, {"script": [2], "cut": 30}]}));
    }

    // put.log_before_apply
    let mut put_unis = vec![META];
    if thorough { put_unis.push(EMB); }
    for uni in put_unis {
        for script in scripts(9, 3) {
            if script.is_empty() { continue; }
            rep.eval(script.iter().any(|&c| !op_is_cache(c)));
            let outs = eval_put_script(&dir, uni, &script, None);
            let sc = &script;
            record(&mut rep, outs, &|| json!({"uni": uni.id, "put_script": sc}));
            if script.len() <= (if thorough { 3 } else { 2 }) {
                for i in 0..script.len() {
                    rep.eval(true);
                    let outs = eval_put_script(&dir, uni, &script, Some(i));
                    record(&mut rep, outs, &|| json!({"uni": uni.id, "put_script": sc, "full_after": i}));
                }
            }
        }
    }
    rep.sample(json!({"uni": "meta", "put_script": [0, 6, 2], "full_after": 1}));

    // checkpoint.steps
    // quick: ops {put a v1, put a v2, del a, put b v1}, |s1| <= 2, |s2| <= 1; thorough: all 6 ops, (|s1| <= 2, |s2| <= 1) and (|s1| <= 1, |s2| = 2)
    let mut combos: Vec<(Uni, Vec<u8>, Vec<u8>)> = vec![];
    if thorough {
        for s1 in scripts(6, 2) { for s2 in scripts(6, 1) { combos.push((META, s1.clone(), s2)); } }
        for s1 in scripts(6, 1) { for s2 in scripts(6, 2) { if s2.len() == 2 { combos.push((META, s1.clone(), s2)); } } }
        for s1 in scripts(4, 2) { for s2 in scripts(4, 1) { combos.push((EMB, s1.clone(), s2)); } }
    } else {
        for s1 in scripts(4, 2) { for s2 in scripts(4, 1) { combos.push((META, s1.clone(), s2)); } }
    }
    for (uni, s1, s2) in combos {
        rep.eval(!s1.is_empty() || !s2.is_empty());
        let outs = eval_ckpt(&dir, uni, &s1, &s2);
        let (a, b) = (&s1, &s2);
        record(&mut rep, outs, &|| json!({"uni": uni.id, "s1": a, "s2": b}));
    }
    rep.sample(json!({"uni": "meta", "s1": [0, 3], "s2": [2]}));

    // recovery.fold
    let fl = if thorough { 5 } else { 4 };
    for syms in scripts(FOLD_SYMS, fl) {
        let (pre, outs) = eval_fold(&syms);
        rep.eval(pre && syms.iter().any(|&s| s >= 4));
        let sy = &syms;
        record(&mut rep, outs, &|| json!({"fold": sy}));
    }
    // the same fold, end to end through real files: all well-formed sequences of length <= 4 that contain a TxCommit
    for syms in scripts(FOLD_SYMS, 4) {
        if !syms.iter().any(|&s| s == 5 || s == 8) { continue; }
        if let Some(x) = eval_fold_e2e(&dir, &syms) {
            rep.eval(true);
            let sy = &syms;
            record(&mut rep, vec![x], &|| json!({"fold": sy, "e2e": true}));
        }
    }
    rep.sample(json!({"fold": [4, 0, 5, 0]}));
    rep.sample(json!({"uni": "meta", "rot": [1, 4, 0, 9, 1, 2], "max": rot_sample_max, "cut": 60}));
    rep.sample(json!({"uni": "embx", "script": [4, 3], "cut": 150}));

    let _ = std::fs::remove_dir_all(&dir);
    rep
}

fn bytes_of(v: &Value) -> Vec<u8> { v.as_array().map(|a| a.iter().map(|x| x.as_u64().unwrap_or(0) as u8).collect()).unwrap_or_default() }

pub fn replay(ob: &str, case: &Value) -> Result<String, String> {
    let dir: PathBuf = crate::fw::tmpdir("c02_durable_replay");
    let uni = uni_of(case);
    let outs: Vec<Out> = if let Some(f) = case.get("fold") {
        let syms = bytes_of(f);
        if case.get("e2e").and_then(Value::as_bool) == Some(true) { eval_fold_e2e(&dir, &syms).into_iter().collect() } else { eval_fold(&syms).1 }
    } else if let Some(r) = case.get("rot") {
        let max = case["max"].as_u64().unwrap_or(0);
        match run_rot(&dir, uni, &bytes_of(r), max) {
            Err(e) => vec![out(OB_ROTCK, false, e)],
            Ok(rr) => match case["cut"].as_u64() {
                Some(c) => eval_rot_cut(&dir, &rr, (c as usize).min(rr.log.len())).into_iter().collect(),
                None => rr.boundary.into_iter().map(|(_, x)| x).collect(),
            },
        }
    } else if let Some(r) = case.get("rounds") {
        let rounds: Vec<(Vec<u8>, usize)> = r.as_array().map(|a| a.iter().map(|x| (bytes_of(&x["script"]), x["cut"].as_u64().unwrap_or(0) as usize)).collect()).unwrap_or_default();
        vec![eval_rounds(&dir, uni, &rounds)]
    } else if let Some(p) = case.get("put_script") {
        eval_put_script(&dir, uni, &bytes_of(p), case.get("full_after").and_then(Value::as_u64).map(|x| x as usize))
    } else if case.get("s1").is_some() {
        eval_ckpt(&dir, uni, &bytes_of(&case["s1"]), &bytes_of(&case["s2"]))
    } else {
        let script = bytes_of(&case["script"]);
        let w = write_script(&dir, uni, &script);
        match w {
            Err(e) => vec![out(OB_PREFIX, false, e)],
            Ok(w) => { let cut = (case["cut"].as_u64().unwrap_or(0) as usize).min(w.bytes.len()); eval_cut(&dir, uni, &w, cut) },
        }
    };
    let outs = if uni == EMBX { embx_outs(outs) } else { outs };
    let _ = std::fs::remove_dir_all(&dir);
    let mine: Vec<&Out> = outs.iter().filter(|x| x.ob == ob).collect();
    if mine.is_empty() { return Err(format!("case does not exercise {ob} (precondition false or earlier step failed: {})", outs.iter().filter(|x| !x.ok).map(|x| x.detail.clone()).collect::<Vec<_>>().join("; "))); }
    match mine.iter().find(|x| !x.ok) {
        Some(x) => Err(x.detail.clone()),
        None => Ok(format!("{} checks hold; last: {}", mine.len(), mine.last().map(|x| x.detail.clone()).unwrap_or_default())),
    }
}
