//! C09 (bounded): relational transactions are all-or-nothing and writers exclude each other.
//!
//! Code under contract: `relational_engine::RelationalEngine::{begin_transaction, tx_insert, tx_update,
//! tx_delete, tx_select, commit, rollback}`; the lock table is observed through
//! `TransactionManager::{row_lock_holder, is_row_locked, active_lock_count, locks_held_by}`.
//!
//! One table `t(id Int, name String?, score Float?)` with a hash index and a btree index, 3 initial
//! rows.  A *script* is a call order of statements of transactions A, B (and C in the seeded tier);
//! a transaction begins right before its first step.  Every script is executed on a freshly built
//! table, one call at a time, and after every call the clauses below are evaluated against an
//! independent in-harness model (a plain `Vec` of rows):
//!
//! * view after commit/rollback: the expected table is the model replay, in call order, of the
//!   *successful* statements of all transactions that are not rolled back ("as if none of the rolled-back
//!   transaction's statements had run"; a statement refused with a lock conflict has no effect);
//!   indexed reads are compared with the harness' own filtering of the expected rows.  For a script of a
//!   single transaction the comparison is strict (engine row ids included) and a commit is additionally
//!   compared with the same statements run non-transactionally on a fresh identical table.  With
//!   interleaving, engine row ids of *inserted* rows are not compared (a rolled-back insert legitimately
//!   leaves a gap in the append-only row id sequence); those of the initial rows are.
//! * lock.exclusion[.deleted|.inserted]: a statement of T that addresses a row which another *active*
//!   transaction has updated / deleted / inserted must return `LockConflict` and change nothing (table,
//!   lock owners, lock counts, T still active); the same statement succeeds once the blocker has ended.
//!   "Addresses" = matches the statement's condition on the user column `id`, including rows that the other
//!   transaction has deleted but not committed.  The three kinds of prior modification are separate
//!   obligations; `C09.lock.exclusion` proper is the "updated" kind.
//! * view.after_missed_conflict.{deleted,inserted}: the commit/rollback view clause in scripts where the
//!   engine already executed a statement the exclusion clause says it must refuse (kept apart so that the
//!   `*.interleaved` view obligations have the precondition "exclusion held so far").
//! * lock.all_or_nothing: a refused statement addressing >= 2 rows leaves lock owners and counts unchanged
//!   and, on an identical replica, a third transaction can update every addressed row nobody held.
//! * phase: after commit/rollback every tx call on that id is TransactionNotFound/Inactive, nothing changes.
//! * locks_released: after commit/rollback no row is owned by the transaction, other owners unchanged,
//!   `locks_held_by == 0`, `active_lock_count` == number of owned rows.
//! * locktable.kernel (through the engine): after a successful statement every matched row is owned by
//!   the caller, no owner was replaced; a refused statement changes no owner.
//! * lock.timeout: lock timeout 0, once `is_row_locked` reports the lock expired B's statement succeeds.
//! * lock.takeover_released: lock timeout 1 s (the smallest non-zero value `RelationalConfig` can express).  T1
//!   modifies row(s) and never ends; after ONE sleep of 1.1 s (the only sleep of the run; all scenarios are built
//!   first, then continued) its row locks are expired.  T2 then modifies rows (taking T1's expired locks over,
//!   possibly together with rows nobody held) and ends by commit / rollback.  Contract: after T2 ended no row of
//!   the table is locked by T2 (`row_lock_holder`, `is_row_locked`, `locks_held_by(T2) == 0`, `active_lock_count`
//!   not larger than before T2's first statement), the table + indexed reads equal the model, and a third
//!   transaction T3 can update and delete every row T2 had modified without `LockConflict` (results = model).
//!   The expiry itself and T2's statements succeeding after it are `lock.timeout` checks.
//!
//! The case JSON is the script: `{"idx":0,"steps":[["A","upd","1",11,0],["B","del","all"],["A","rollback"],...]}`
//! (`["T","ins",id,tag,mode]`, `["T","upd",cond,tag,mode]`, `["T","del",cond]`, cond = "k" | "all" | "<=k").
//! A takeover case is `{"takeover":true,"idx":0,"steps":[["A","upd","1",11,0],["B","upd","<=2",21,0],["B","commit"]]}`:
//! A = T1 (statements only, never ends), the sleep, then B = T2 (statements, then commit | rollback); T3 is implicit.
//! No files are written (in-memory engines only).
use crate::fw::{Report, Rng, Tier};
use relational_engine::{Column, ColumnType, Condition, RelationalConfig, RelationalEngine, RelationalError, Schema, Value};
use serde_json::{json, Value as J};
use std::collections::{BTreeMap, BTreeSet, HashMap};
use std::cell::Cell;
use std::rc::Rc;
use std::sync::atomic::{AtomicU64, Ordering};

/// "hours": neither a transaction nor a lock can expire during a run
const LONG_SECS: u64 = 36_000;

const OB_RB: &str = "C09.rollback.view";
const OB_RB_I: &str = "C09.rollback.view.interleaved";
const OB_CM: &str = "C09.commit.view";
const OB_CM_I: &str = "C09.commit.view.interleaved";
const OB_EX: &str = "C09.lock.exclusion";
const OB_EX_D: &str = "C09.lock.exclusion.deleted";
const OB_EX_I: &str = "C09.lock.exclusion.inserted";
const OB_AON: &str = "C09.lock.all_or_nothing";
const OB_PH: &str = "C09.phase";
const OB_REL: &str = "C09.locks_released";
const OB_KER: &str = "C09.locktable.kernel";
const OB_TO: &str = "C09.lock.timeout";
/// commit/rollback view in a script in which the engine already let a statement through that the
/// exclusion clause says must be refused (consequences of a failing C09.lock.exclusion.{deleted,inserted})
const OB_V_D: &str = "C09.view.after_missed_conflict.deleted";
const OB_V_I: &str = "C09.view.after_missed_conflict.inserted";
/// row-lock takeover after expiry: the taker releases the taken-over lock when it ends
const OB_TK: &str = "C09.lock.takeover_released";
const ALL_OBS: [&str; 15] = [OB_RB, OB_RB_I, OB_CM, OB_CM_I, OB_EX, OB_EX_D, OB_EX_I, OB_AON, OB_PH, OB_REL, OB_KER, OB_TO, OB_V_D, OB_V_I, OB_TK];
/// lock timeout of the takeover scenarios: the smallest non-zero value `with_lock_timeout_secs` can express
const TAKEOVER_LOCK_SECS: u64 = 1;
/// the ONE sleep of the run (a lock is expired once MORE than the timeout has elapsed)
const TAKEOVER_SLEEP_MS: u64 = 1100;

// ------------------------------------------------------------------------------------------ scripts

#[derive(Clone, Copy, PartialEq, Eq, Debug)]
enum Cond { Id(i64), All, Le(i64) }

impl Cond {
    fn m(self, id: i64) -> bool { match self { Cond::Id(k) => id == k, Cond::All => true, Cond::Le(k) => id <= k } }
    fn to_cond(self) -> Condition {
        match self {
            Cond::Id(k) => Condition::Eq("id".into(), Value::Int(k)),
            Cond::All => Condition::True,
            Cond::Le(k) => Condition::Le("id".into(), Value::Int(k)),
        }
    }
    fn enc(self) -> String { match self { Cond::Id(k) => k.to_string(), Cond::All => "all".into(), Cond::Le(k) => format!("<={k}") } }
    fn dec(s: &str) -> Option<Cond> {
        if s == "all" { Some(Cond::All) }
        else if let Some(r) = s.strip_prefix("<=") { r.parse().ok().map(Cond::Le) }
        else { s.parse().ok().map(Cond::Id) }
    }
}

/// Statement values:
/// ins mode 0: (id, "n<tag>", tag.0); mode 1: (id, explicit NULL name, score column omitted)
/// upd mode 0: name="n<tag>", score=tag+0.5; 1: score=tag.0; 2: name=NULL; 3: name="a" (the value rows 1 and 3
/// already hold); 4: score=1.0 (the value row 1 already holds)
#[derive(Clone, PartialEq, Debug)]
enum Op { Ins { id: i64, tag: i64, mode: u8 }, Upd { c: Cond, tag: i64, mode: u8 }, Del { c: Cond }, Commit, Rollback }

#[derive(Clone, PartialEq, Debug)]
struct Step { tx: usize, op: Op }

#[derive(Clone, Debug)]
struct Script { idx: u8, steps: Vec<Step> }

const LABEL: [&str; 3] = ["A", "B", "C"];

impl Script {
    fn to_json(&self) -> J {
        let steps: Vec<J> = self.steps.iter().map(|s| {
            let l = LABEL[s.tx];
            match &s.op {
                Op::Ins { id, tag, mode } => json!([l, "ins", id, tag, mode]),
                Op::Upd { c, tag, mode } => json!([l, "upd", c.enc(), tag, mode]),
                Op::Del { c } => json!([l, "del", c.enc()]),
                Op::Commit => json!([l, "commit"]),
                Op::Rollback => json!([l, "rollback"]),
            }
        }).collect();
        json!({"idx": self.idx, "steps": steps})
    }
    fn from_json(v: &J) -> Result<Script, String> {
        let idx = v.get("idx").and_then(J::as_u64).ok_or("idx")? as u8;
        let mut steps = vec![];
        for s in v.get("steps").and_then(J::as_array).ok_or("steps")? {
            let a = s.as_array().ok_or("step")?;
            let tx = LABEL.iter().position(|l| Some(*l) == a.first().and_then(J::as_str)).ok_or("tx label")?;
            let int = |i: usize| a.get(i).and_then(J::as_i64).ok_or_else(|| format!("int arg {i}"));
            let cond = |i: usize| a.get(i).and_then(J::as_str).and_then(Cond::dec).ok_or_else(|| format!("cond arg {i}"));
            let op = match a.get(1).and_then(J::as_str).ok_or("op")? {
                "ins" => Op::Ins { id: int(2)?, tag: int(3)?, mode: int(4)? as u8 },
                "upd" => Op::Upd { c: cond(2)?, tag: int(3)?, mode: int(4)? as u8 },
                "del" => Op::Del { c: cond(2)? },
                "commit" => Op::Commit,
                "rollback" => Op::Rollback,
                o => return Err(format!("op {o}")),
            };
            steps.push(Step { tx, op });
        }
        Ok(Script { idx, steps })
    }
}

// -------------------------------------------------------------------------------------------- model

#[derive(Clone, PartialEq, Debug)]
struct MRow { eid: u64, id: i64, name: Option<String>, score: Option<f64> }

fn initial() -> Vec<MRow> {
    vec![
        MRow { eid: 1, id: 1, name: Some("a".into()), score: Some(1.0) },
        MRow { eid: 2, id: 2, name: Some("b".into()), score: Some(2.0) },
        MRow { eid: 3, id: 3, name: Some("a".into()), score: None },
    ]
}

fn ins_row(id: i64, tag: i64, mode: u8) -> MRow {
    if mode == 0 { MRow { eid: 0, id, name: Some(format!("n{tag}")), score: Some(tag as f64) } }
    else { MRow { eid: 0, id, name: None, score: None } }
}

fn ins_map(id: i64, tag: i64, mode: u8) -> HashMap<String, Value> {
    let mut m = HashMap::new();
    m.insert("id".to_string(), Value::Int(id));
    if mode == 0 {
        m.insert("name".to_string(), Value::String(format!("n{tag}")));
        m.insert("score".to_string(), Value::Float(tag as f64));
    } else {
        m.insert("name".to_string(), Value::Null); // explicit NULL; "score" omitted
    }
    m
}

fn row_map(r: &MRow) -> HashMap<String, Value> {
    let mut m = HashMap::new();
    m.insert("id".to_string(), Value::Int(r.id));
    m.insert("name".to_string(), r.name.clone().map_or(Value::Null, Value::String));
    m.insert("score".to_string(), r.score.map_or(Value::Null, Value::Float));
    m
}

fn upd_apply(r: &mut MRow, tag: i64, mode: u8) {
    match mode {
        0 => { r.name = Some(format!("n{tag}")); r.score = Some(tag as f64 + 0.5); },
        1 => r.score = Some(tag as f64),
        2 => r.name = None,
        4 => r.score = Some(1.0),
        _ => r.name = Some("a".into()),
    }
}

fn upd_map(tag: i64, mode: u8) -> HashMap<String, Value> {
    let mut m = HashMap::new();
    match mode {
        0 => { m.insert("name".to_string(), Value::String(format!("n{tag}"))); m.insert("score".to_string(), Value::Float(tag as f64 + 0.5)); },
        1 => { m.insert("score".to_string(), Value::Float(tag as f64)); },
        2 => { m.insert("name".to_string(), Value::Null); },
        4 => { m.insert("score".to_string(), Value::Float(1.0)); },
        _ => { m.insert("name".to_string(), Value::String("a".into())); },
    }
    m
}

/// the specification of a statement on a plain table (append-only engine row ids)
fn model_apply(rows: &mut Vec<MRow>, next_eid: &mut u64, op: &Op) {
    match op {
        Op::Ins { id, tag, mode } => { let mut r = ins_row(*id, *tag, *mode); r.eid = *next_eid; *next_eid += 1; rows.push(r); },
        Op::Upd { c, tag, mode } => for r in rows.iter_mut() { if c.m(r.id) { upd_apply(r, *tag, *mode); } },
        Op::Del { c } => rows.retain(|r| !c.m(r.id)),
        Op::Commit | Op::Rollback => {},
    }
}

type Canon = Vec<(u64, i64, Option<String>, Option<u64>)>;

/// strict: engine row ids of all rows; otherwise only those of the initial rows (user id <= 3)
fn canon(rows: &[MRow], strict: bool) -> Canon { canon_of(rows.iter(), strict) }

fn canon_of<'a>(rows: impl Iterator<Item = &'a MRow>, strict: bool) -> Canon {
    let mut v: Canon = rows.map(|r| (if strict || r.id <= 3 { r.eid } else { 0 }, r.id, r.name.clone(), r.score.map(f64::to_bits))).collect();
    v.sort();
    v
}

#[derive(Clone, Debug)]
enum Probe {
    NameEq(String), NameGe(String), NameLt(String), ScoreEq(f64), ScoreGe(f64), ScoreLt(f64), ScoreGt(f64), ScoreLe(f64),
    /// equality through the btree index: `col >= x AND col <= x` (a plain `Eq` is only served by a hash index)
    NameBtEq(String), ScoreBtEq(f64),
}

impl Probe {
    fn cond(&self) -> Condition {
        match self {
            Probe::NameEq(s) => Condition::Eq("name".into(), Value::String(s.clone())),
            Probe::NameGe(s) => Condition::Ge("name".into(), Value::String(s.clone())),
            Probe::NameLt(s) => Condition::Lt("name".into(), Value::String(s.clone())),
            Probe::ScoreEq(x) => Condition::Eq("score".into(), Value::Float(*x)),
            Probe::ScoreGe(x) => Condition::Ge("score".into(), Value::Float(*x)),
            Probe::ScoreLt(x) => Condition::Lt("score".into(), Value::Float(*x)),
            Probe::ScoreGt(x) => Condition::Gt("score".into(), Value::Float(*x)),
            Probe::ScoreLe(x) => Condition::Le("score".into(), Value::Float(*x)),
            Probe::NameBtEq(s) => Condition::Ge("name".into(), Value::String(s.clone())).and(Condition::Le("name".into(), Value::String(s.clone()))),
            Probe::ScoreBtEq(x) => Condition::Ge("score".into(), Value::Float(*x)).and(Condition::Le("score".into(), Value::Float(*x))),
        }
    }
    /// SQL-like: NULL never satisfies a comparison with a non-NULL constant
    fn m(&self, r: &MRow) -> bool {
        match self {
            Probe::NameEq(s) => r.name.as_deref() == Some(s.as_str()),
            Probe::NameGe(s) => r.name.as_deref().is_some_and(|n| n >= s.as_str()),
            Probe::NameLt(s) => r.name.as_deref().is_some_and(|n| n < s.as_str()),
            Probe::ScoreEq(x) => r.score == Some(*x),
            Probe::ScoreGe(x) => r.score.is_some_and(|y| y >= *x),
            Probe::ScoreLt(x) => r.score.is_some_and(|y| y < *x),
            Probe::ScoreGt(x) => r.score.is_some_and(|y| y > *x),
            Probe::ScoreLe(x) => r.score.is_some_and(|y| y <= *x),
            Probe::NameBtEq(s) => r.name.as_deref() == Some(s.as_str()),
            Probe::ScoreBtEq(x) => r.score == Some(*x),
        }
    }
}

/// indexed reads probed after every commit/rollback: every value the script can write plus the
/// initial ones, through the index kinds that exist in this index configuration
fn probes_for(sc: &Script) -> Vec<Probe> {
    let mut names: BTreeSet<String> = ["a", "b", "zz"].iter().map(|s| (*s).to_string()).collect();
    let mut scores: Vec<f64> = vec![1.0, 2.0];
    for s in &sc.steps {
        match &s.op {
            Op::Ins { tag, mode: 0, .. } => { names.insert(format!("n{tag}")); scores.push(*tag as f64); },
            Op::Upd { tag, mode: 0, .. } => { names.insert(format!("n{tag}")); scores.push(*tag as f64 + 0.5); },
            Op::Upd { tag, mode: 1, .. } => scores.push(*tag as f64),
            _ => {},
        }
    }
    scores.sort_by(f64::total_cmp);
    scores.dedup();
    let mut p = vec![];
    let (hash_name, btree_score, hash_score, btree_name) = match sc.idx { 0 | 3 => (true, true, false, false), 1 => (false, false, true, true), _ => (true, true, true, true) };
    if hash_name { for n in &names { p.push(Probe::NameEq(n.clone())); } }
    if btree_score {
        p.extend([Probe::ScoreGe(0.0), Probe::ScoreLt(1.5), Probe::ScoreGt(2.0), Probe::ScoreLe(12.0), Probe::ScoreGe(21.0)]);
        p.extend([Probe::ScoreBtEq(1.0), Probe::ScoreBtEq(2.0)]);
    }
    if hash_score { for x in &scores { p.push(Probe::ScoreEq(*x)); } }
    if btree_name {
        p.extend([Probe::NameGe("b".into()), Probe::NameLt("b".into()), Probe::NameGe("n12".into()), Probe::NameLt("n21".into())]);
        p.extend([Probe::NameBtEq("a".into()), Probe::NameBtEq("b".into())]);
    }
    p
}

// -------------------------------------------------------------------------------------- real engine

#[derive(Debug, Clone, PartialEq)]
enum Res { Ok(u64), Conflict(String), Dead(String), Err(String) }

/// One engine can serve many scripts: each script gets its own freshly created table (dropped at the
/// end) and starts with no active transaction and no lock.  `replay`, and `run` for every script with a
/// failing check, use a brand-new engine per script instead (engine construction costs ~1 ms).
struct Ctx { eng: Rc<RelationalEngine>, lock_secs: u64, scripts: Cell<u64> }

impl Ctx {
    fn new(lock_secs: u64) -> Ctx {
        let cfg = RelationalConfig::new().with_transaction_timeout_secs(LONG_SECS).with_lock_timeout_secs(lock_secs)
            .with_max_timeout_ms(LONG_SECS * 1000).with_default_timeout_ms(LONG_SECS * 1000);
        Ctx { eng: Rc::new(RelationalEngine::with_config(cfg)), lock_secs, scripts: Cell::new(0) }
    }
}

static TABLE_NO: AtomicU64 = AtomicU64::new(0);

struct World { eng: Rc<RelationalEngine>, tbl: String, max_eid: u64, base_locks: usize }

impl Drop for World {
    fn drop(&mut self) { let _ = self.eng.drop_table(&self.tbl); }
}

fn conv_rows(v: Vec<relational_engine::Row>) -> Vec<MRow> {
    let mut out: Vec<MRow> = v.into_iter().map(|r| {
        let id = match r.get("id") { Some(Value::Int(i)) => *i, _ => i64::MIN };
        let name = match r.get("name") { Some(Value::String(s)) => Some(s.clone()), Some(Value::Null) | None => None, Some(o) => Some(format!("<?{o:?}>")) };
        let score = match r.get("score") { Some(Value::Float(f)) => Some(*f), Some(Value::Null) | None => None, Some(_) => Some(f64::NAN) };
        MRow { eid: r.id, id, name, score }
    }).collect();
    out.sort_by_key(|r| r.eid);
    out
}

impl World {
    /// idx 0: hash(name)+btree(score) created before the rows; 1: hash(score)+btree(name); 2: both kinds on
    /// both columns; 3: like 0 but the indexes are created after the rows exist
    fn new(cx: &Ctx, idx: u8, max_eid: u64) -> World {
        let eng = cx.eng.clone();
        let tbl = format!("t{}", TABLE_NO.fetch_add(1, Ordering::Relaxed));
        let t = tbl.as_str();
        eng.create_table(t, Schema::new(vec![
            Column::new("id", ColumnType::Int), Column::new("name", ColumnType::String).nullable(), Column::new("score", ColumnType::Float).nullable(),
        ])).expect("create_table");
        let mk = |e: &RelationalEngine| match idx {
            0 | 3 => { e.create_index(t, "name").expect("idx"); e.create_btree_index(t, "score").expect("idx"); },
            1 => { e.create_index(t, "score").expect("idx"); e.create_btree_index(t, "name").expect("idx"); },
            _ => {
                e.create_index(t, "name").expect("idx"); e.create_btree_index(t, "score").expect("idx");
                e.create_index(t, "score").expect("idx"); e.create_btree_index(t, "name").expect("idx");
            },
        };
        if idx != 3 { mk(&eng); }
        let ids = eng.batch_insert(t, initial().iter().map(row_map).collect()).expect("initial rows");
        assert_eq!(ids, vec![1, 2, 3], "initial engine row ids");
        if idx == 3 { mk(&eng); }
        let base_locks = eng.tx_manager().active_lock_count();
        World { eng, tbl, max_eid, base_locks }
    }
    fn view(&self) -> Result<Vec<MRow>, String> { self.eng.select(&self.tbl, Condition::True).map(conv_rows).map_err(|e| format!("select(True): {e:?}")) }
    fn holders(&self) -> Vec<Option<u64>> { (1..=self.max_eid).map(|e| self.eng.tx_manager().row_lock_holder(&self.tbl, e)).collect() }
    fn lock_count(&self) -> usize { self.eng.tx_manager().active_lock_count().saturating_sub(self.base_locks) }
    fn call(&self, tid: u64, op: &Op) -> Res {
        let r = match op {
            Op::Ins { id, tag, mode } => self.eng.tx_insert(tid, &self.tbl, ins_map(*id, *tag, *mode)).map(|_| 1u64),
            Op::Upd { c, tag, mode } => self.eng.tx_update(tid, &self.tbl, c.to_cond(), upd_map(*tag, *mode)).map(|n| n as u64),
            Op::Del { c } => self.eng.tx_delete(tid, &self.tbl, c.to_cond()).map(|n| n as u64),
            Op::Commit => self.eng.commit(tid).map(|()| 0),
            Op::Rollback => self.eng.rollback(tid).map(|()| 0),
        };
        match r {
            Ok(n) => Res::Ok(n),
            Err(e @ RelationalError::LockConflict { .. }) => Res::Conflict(format!("{e:?}")),
            Err(e @ (RelationalError::TransactionNotFound(_) | RelationalError::TransactionInactive(_))) => Res::Dead(format!("{e:?}")),
            Err(e) => Res::Err(format!("{e:?}")),
        }
    }
    /// table rows + every probe, compared with the expectation computed from `exp` by the harness
    fn diff_view(&self, exp: &[MRow], strict: bool, probes: &[Probe]) -> Option<String> {
        match self.view() {
            Ok(v) => if canon(&v, strict) != canon(exp, strict) { return Some(format!("table rows {v:?}, expected {exp:?}")); },
            Err(e) => return Some(e),
        }
        for p in probes {
            match self.eng.select(&self.tbl, p.cond()).map(conv_rows) {
                Ok(v) => if canon(&v, strict) != canon_of(exp.iter().filter(|r| p.m(r)), strict) {
                    let want: Vec<&MRow> = exp.iter().filter(|r| p.m(r)).collect();
                    return Some(format!("indexed read {p:?} returned {v:?}, expected {want:?}"));
                },
                Err(e) => return Some(format!("indexed read {p:?}: {e:?}")),
            }
        }
        None
    }
}

fn max_eid_of(sc: &Script) -> u64 { 3 + sc.steps.iter().filter(|s| matches!(s.op, Op::Ins { .. })).count() as u64 + 3 }

// ------------------------------------------------------------------------------------------- checks

fn die(msg: &str) -> ! {
    eprintln!("c09_reltx harness: {msg}");
    panic!("c09_reltx harness: {msg}")
}

struct Finding { ob: &'static str, ok: bool, detail: String }

fn chk(out: &mut Vec<Finding>, ob: &'static str, ok: bool, detail: impl FnOnce() -> String) {
    out.push(Finding { ob, ok, detail: if ok { String::new() } else { detail() } });
}

#[derive(Clone, Copy, PartialEq, Eq, Debug)]
enum RowSt { Updated, Deleted, Inserted }

#[derive(Default)]
struct TxS {
    id: u64,
    /// 0 not begun, 1 active, 2 committed, 3 rolled back
    state: u8,
    /// successful statements with their position in the script
    ok: Vec<(usize, Op)>,
    /// what this transaction did to a row (by user id), while it is active
    rows: BTreeMap<i64, RowSt>,
    inserted: BTreeSet<i64>,
    last_conflict: Option<Op>,
}

#[derive(Default)]
struct Stats { evals: u64, nontrivial: u64 }

/// expected table: successful statements of every transaction that is not rolled back, in call order
fn expected_rows(txs: &[TxS]) -> Vec<MRow> {
    let mut all: Vec<&(usize, Op)> = txs.iter().filter(|t| t.state == 1 || t.state == 2).flat_map(|t| t.ok.iter()).collect();
    all.sort_by_key(|x| x.0);
    let mut rows = initial();
    let mut next = 4u64;
    for (_, op) in all { model_apply(&mut rows, &mut next, op); }
    rows
}

/// the finished-transaction battery: every tx call must be an error and change nothing
fn phase_battery(w: &World, tid: u64, out: &mut Vec<Finding>, st: &mut Stats, v0: &[MRow], h0: &[Option<u64>]) {
    let mut res = vec![];
    res.push(("tx_insert", w.call(tid, &Op::Ins { id: 99, tag: 99, mode: 0 })));
    res.push(("tx_update", w.call(tid, &Op::Upd { c: Cond::All, tag: 98, mode: 0 })));
    res.push(("tx_delete", w.call(tid, &Op::Del { c: Cond::All })));
    res.push(("tx_select", match w.eng.tx_select(tid, &w.tbl, Condition::True) {
        Ok(v) => Res::Ok(v.len() as u64),
        Err(e @ (RelationalError::TransactionNotFound(_) | RelationalError::TransactionInactive(_))) => Res::Dead(format!("{e:?}")),
        Err(e) => Res::Err(format!("{e:?}")),
    }));
    res.push(("commit", w.call(tid, &Op::Commit)));
    res.push(("rollback", w.call(tid, &Op::Rollback)));
    st.evals += 6; st.nontrivial += 6;
    let all_err = res.iter().all(|(_, r)| matches!(r, Res::Dead(_)));
    let v1 = w.view();
    let h1 = w.holders();
    let same = v1.as_deref() == Ok(v0) && h1 == h0 && !w.eng.is_transaction_active(tid);
    chk(out, OB_PH, all_err && same, || format!("calls on finished tx {tid}: {res:?}; table before {v0:?} after {v1:?}; lock holders before {h0:?} after {h1:?}"));
}

/// re-execute `steps[..=upto]` on a fresh identical table without checks (to probe from an identical state)
fn replica(cx: &Ctx, sc: &Script, upto: usize) -> (World, Vec<u64>) {
    let w = World::new(cx, sc.idx, max_eid_of(sc));
    let mut ids = [0u64; 3];
    for s in &sc.steps[..=upto] {
        if ids[s.tx] == 0 { ids[s.tx] = w.eng.begin_transaction(); }
        let _ = w.call(ids[s.tx], &s.op);
    }
    (w, ids.iter().copied().filter(|i| *i != 0).collect())
}

fn check_script(cx: &Ctx, sc: &Script, out: &mut Vec<Finding>, st: &mut Stats) {
    assert_eq!(cx.lock_secs, LONG_SECS);
    let w = World::new(cx, sc.idx, max_eid_of(sc));
    if w.eng.active_transaction_count() != 0 { die("a previous script left an active transaction"); }
    let probes = probes_for(sc);
    let solo = sc.steps.iter().all(|s| s.tx == sc.steps[0].tx);
    let mut txs: Vec<TxS> = (0..3).map(|_| TxS::default()).collect();
    // precondition of every clause: the pre-begin state is the stated one, also through the indexes
    // (indexed reads of the identically built pre-state: on every fresh engine, on every 16th table of a shared one)
    cx.scripts.set(cx.scripts.get() + 1);
    let full_pre = cx.scripts.get() % 16 == 1;
    if let Some(d) = w.diff_view(&initial(), true, if full_pre { &probes } else { &[] }) { die(&format!("pre-state wrong: {d}")); }
    let mut v0 = w.view().expect("view");
    let mut h0 = w.holders();
    // first statement the engine executed although it addressed a row touched by another active tx
    let mut taint: Option<RowSt> = None;

    for (i, step) in sc.steps.iter().enumerate() {
        let t = step.tx;
        if txs[t].state == 0 {
            txs[t].id = w.eng.begin_transaction();
            txs[t].state = 1;
            st.evals += 1;
        }
        let tid = txs[t].id;
        if txs[t].state >= 2 {
            // explicit call on a finished transaction
            let r = w.call(tid, &step.op);
            st.evals += 1; st.nontrivial += 1;
            let v1 = w.view();
            let h1 = w.holders();
            chk(out, OB_PH, matches!(r, Res::Dead(_)) && v1.as_deref() == Ok(&v0[..]) && h1 == h0,
                || format!("step {i} {:?} on finished tx: {r:?}; table before {v0:?} after {v1:?}; holders {h0:?} -> {h1:?}", step.op));
            if let Ok(v) = v1 { v0 = v; }
            h0 = h1;
            continue;
        }
        let lc0 = w.lock_count();
        let lh0 = w.eng.tx_manager().locks_held_by(tid);
        match &step.op {
            Op::Ins { .. } | Op::Upd { .. } | Op::Del { .. } => {
                let cnd = match &step.op { Op::Upd { c, .. } | Op::Del { c } => Some(*c), _ => None };
                // rows the statement addresses: visible matching rows + matching rows another active tx deleted
                let matched: Vec<MRow> = cnd.map_or(vec![], |c| v0.iter().filter(|r| c.m(r.id)).cloned().collect());
                let mut target: BTreeSet<i64> = matched.iter().map(|r| r.id).collect();
                let mut class: Option<RowSt> = None;
                if let Some(c) = cnd {
                    for (x, o) in txs.iter().enumerate() {
                        if x == t || o.state != 1 { continue; }
                        for (r, s) in &o.rows { if *s == RowSt::Deleted && c.m(*r) { target.insert(*r); } }
                    }
                    for (x, o) in txs.iter().enumerate() {
                        if x == t || o.state != 1 { continue; }
                        for r in &target {
                            match o.rows.get(r) {
                                Some(RowSt::Updated) => class = Some(RowSt::Updated),
                                Some(RowSt::Deleted) => if class != Some(RowSt::Updated) { class = Some(RowSt::Deleted); },
                                Some(RowSt::Inserted) => if class.is_none() { class = Some(RowSt::Inserted); },
                                None => {},
                            }
                        }
                    }
                }
                let r = w.call(tid, &step.op);
                let v1 = w.view().unwrap_or_else(|e| die(&e));
                let h1 = w.holders();
                let lc1 = w.lock_count();
                let lh1 = w.eng.tx_manager().locks_held_by(tid);
                st.evals += 1;
                if !matches!(r, Res::Ok(0)) { st.nontrivial += 1; }
                let unchanged = v1 == v0 && h1 == h0 && lc1 == lc0 && lh1 == lh0 && w.eng.is_transaction_active(tid);
                let is_conf = matches!(r, Res::Conflict(_));
                let describe = || format!("step {i} {}:{:?} -> {r:?}; table before {v0:?} after {v1:?}; lock holders before {h0:?} after {h1:?}; active_lock_count {lc0}->{lc1}; locks_held_by {lh0}->{lh1}",
                                          LABEL[t], step.op);
                if let Some(cl) = class {
                    let ob = match cl { RowSt::Updated => OB_EX, RowSt::Deleted => OB_EX_D, RowSt::Inserted => OB_EX_I };
                    chk(out, ob, is_conf && unchanged, || format!("statement addresses a row {cl:?} by another active tx: expected LockConflict and nothing changed; {}", describe()));
                    if !(is_conf && unchanged) && taint.is_none() { taint = Some(cl); }
                }
                // "after A ends B's same statement succeeds"
                let free = !txs.iter().enumerate().any(|(x, o)| x != t && o.state == 1 && target.iter().any(|r| o.rows.contains_key(r)));
                if txs[t].last_conflict.as_ref() == Some(&step.op) && free {
                    chk(out, OB_EX, matches!(r, Res::Ok(_)), || format!("retry after the blocking tx ended must succeed; {}", describe()));
                }
                txs[t].last_conflict = if is_conf { Some(step.op.clone()) } else { None };
                if is_conf && target.len() >= 2 {
                    chk(out, OB_AON, unchanged, || format!("failed multi-row lock acquisition must leave no lock and no change; {}", describe()));
                    // a third transaction can modify every addressed row that nobody held before
                    let free_rows: Vec<&MRow> = matched.iter().filter(|m| h0.get(m.eid as usize - 1).copied().flatten().is_none()).collect();
                    if !free_rows.is_empty() {
                        let (w2, ids2) = replica(cx, sc, i);
                        let c = w2.eng.begin_transaction();
                        let rs: Vec<(i64, Res)> = free_rows.iter().map(|m| (m.id, w2.call(c, &Op::Upd { c: Cond::Id(m.id), tag: 97, mode: 1 }))).collect();
                        let _ = w2.eng.rollback(c);
                        for id in ids2 { let _ = w2.eng.rollback(id); }
                        drop(w2);
                        st.evals += rs.len() as u64; st.nontrivial += rs.len() as u64;
                        chk(out, OB_AON, rs.iter().all(|(_, r)| *r == Res::Ok(1)),
                            || format!("after the failed statement a third tx updating the non-conflicting rows got {rs:?}; {}", describe()));
                    }
                }
                match &r {
                    Res::Ok(_) => {
                        // lock table: matched rows now owned by this tx, no lock stolen, nothing else touched
                        let own = cnd.is_none() || matched.iter().all(|m| h1.get(m.eid as usize - 1).copied().flatten() == Some(tid));
                        let frame = h0.iter().zip(h1.iter()).all(|(a, b)| a == b || (a.is_none() && *b == Some(tid)));
                        chk(out, OB_KER, own && frame, || format!("after a successful statement every matched row is owned by tx {tid} and no other owner changed; {}", describe()));
                        txs[t].ok.push((i, step.op.clone()));
                        match &step.op {
                            Op::Ins { id, .. } => { txs[t].rows.insert(*id, RowSt::Inserted); txs[t].inserted.insert(*id); },
                            Op::Upd { .. } => for m in &matched { txs[t].rows.insert(m.id, RowSt::Updated); },
                            Op::Del { .. } => for m in &matched {
                                if txs[t].inserted.contains(&m.id) { txs[t].rows.remove(&m.id); } else { txs[t].rows.insert(m.id, RowSt::Deleted); }
                            },
                            _ => {},
                        }
                    },
                    Res::Conflict(_) => chk(out, OB_KER, h1 == h0, || format!("a refused statement must not change any lock owner; {}", describe())),
                    Res::Dead(_) | Res::Err(_) => chk(out, if solo { OB_CM } else { OB_CM_I }, false, || format!("statement on an active tx failed without a lock conflict; {}", describe())),
                }
                v0 = v1;
                h0 = h1;
            },
            Op::Commit | Op::Rollback => {
                let commit = step.op == Op::Commit;
                let held: usize = h0.iter().filter(|h| **h == Some(tid)).count();
                let r = w.call(tid, &step.op);
                st.evals += 1;
                if !txs[t].ok.is_empty() { st.nontrivial += 1; }
                txs[t].state = if commit { 2 } else { 3 };
                txs[t].rows.clear();
                let v1 = w.view().unwrap_or_else(|e| die(&e));
                let h1 = w.holders();
                let lc1 = w.lock_count();
                let lh1 = w.eng.tx_manager().locks_held_by(tid);
                let rel = h1.iter().all(|h| *h != Some(tid)) && h0.iter().zip(h1.iter()).all(|(a, b)| *a == Some(tid) || a == b)
                    && lh1 == 0 && lc1 == h1.iter().filter(|h| h.is_some()).count() && !w.eng.is_transaction_active(tid);
                chk(out, OB_REL, rel, || format!("step {i} {}:{:?} -> {r:?} (tx {tid} held {held} row locks): holders before {h0:?} after {h1:?}; active_lock_count {lc0}->{lc1}; locks_held_by {lh0}->{lh1}",
                                                 LABEL[t], step.op));
                let exp = expected_rows(&txs);
                let d = w.diff_view(&exp, solo, &probes);
                let ob = match (taint, commit, solo) {
                    (Some(RowSt::Inserted), ..) => OB_V_I,
                    (Some(_), ..) => OB_V_D,
                    (None, true, true) => OB_CM, (None, true, false) => OB_CM_I, (None, false, true) => OB_RB, (None, false, false) => OB_RB_I,
                };
                let ret_ok = matches!(r, Res::Ok(_)) || (!commit && !solo);
                chk(out, ob, d.is_none() && ret_ok, || format!("step {i} {}:{:?} -> {r:?}; {}", LABEL[t], step.op, d.clone().unwrap_or_else(|| "view as expected, but the call failed".into())));
                if commit && solo {
                    // contract row: equals the same statements run non-transactionally on a fresh identical table
                    let w2 = World::new(cx, sc.idx, w.max_eid);
                    let mut errs = vec![];
                    for (_, op) in &txs[t].ok {
                        let rr = match op {
                            Op::Ins { id, tag, mode } => w2.eng.insert(&w2.tbl, ins_map(*id, *tag, *mode)).map(|_| 1usize),
                            Op::Upd { c, tag, mode } => w2.eng.update(&w2.tbl, c.to_cond(), upd_map(*tag, *mode)),
                            Op::Del { c } => w2.eng.delete_rows(&w2.tbl, c.to_cond()),
                            _ => Ok(0),
                        };
                        if let Err(e) = rr { errs.push(format!("{op:?}: {e:?}")); }
                    }
                    st.evals += txs[t].ok.len() as u64;
                    let nontx = w2.view();
                    let d2 = match &nontx { Ok(rows) => w.diff_view(rows, true, &probes), Err(e) => Some(e.clone()) };
                    chk(out, OB_CM, errs.is_empty() && d2.is_none(), || format!("committed table vs the same statements run non-transactionally ({nontx:?}, errors {errs:?}): {d2:?}"));
                }
                phase_battery(&w, tid, out, st, &v1, &h1);
                v0 = v1;
                h0 = h1;
            },
        }
    }
}

/// lock timeout 0: A modifies row 1 and stays active; as soon as the lock is reported expired, B's
/// statement on that row succeeds (nothing is asserted before the expiry is observable).
fn check_timeout0(kind: &str, out: &mut Vec<Finding>, st: &mut Stats) {
    let cx = Ctx::new(0);
    let w = World::new(&cx, 0, 6);
    let a = w.eng.begin_transaction();
    let ra = w.call(a, &Op::Upd { c: Cond::Id(1), tag: 11, mode: 0 });
    let mut spins = 0u64;
    while w.eng.tx_manager().is_row_locked(&w.tbl, 1) && spins < 200_000_000 { spins += 1; std::hint::spin_loop(); }
    let expired = !w.eng.tx_manager().is_row_locked(&w.tbl, 1);
    let b = w.eng.begin_transaction();
    let op = match kind { "del" => Op::Del { c: Cond::Id(1) }, "updall" => Op::Upd { c: Cond::All, tag: 21, mode: 1 }, _ => Op::Upd { c: Cond::Id(1), tag: 21, mode: 0 } };
    let rb = w.call(b, &op);
    st.evals += 2; st.nontrivial += 2;
    chk(out, OB_TO, ra == Res::Ok(1) && expired && matches!(rb, Res::Ok(n) if n >= 1),
        || format!("lock timeout 0: A upd(1) -> {ra:?}; lock expired observed: {expired} after {spins} polls; B {op:?} -> {rb:?}"));
}

// ----------------------------------------------------------------------------------------- takeover

fn takeover_json(sc: &Script) -> J {
    let mut j = sc.to_json();
    j["takeover"] = json!(true);
    j
}

/// shape of a takeover script: statements of A (= T1), then statements of B (= T2) and B's commit | rollback
fn takeover_shape(sc: &Script) -> Result<(Vec<Op>, Vec<Op>, bool), String> {
    let stmt = |o: &Op| !matches!(o, Op::Commit | Op::Rollback);
    let n1 = sc.steps.iter().take_while(|s| s.tx == 0 && stmt(&s.op)).count();
    let rest = &sc.steps[n1..];
    let n2 = rest.iter().take_while(|s| s.tx == 1 && stmt(&s.op)).count();
    if n1 == 0 || n2 == 0 || rest.len() != n2 + 1 || rest[n2].tx != 1 || stmt(&rest[n2].op) {
        return Err("takeover script must be: statements of A, statements of B, B's commit|rollback".into());
    }
    Ok((sc.steps[..n1].iter().map(|s| s.op.clone()).collect(), rest[..n2].iter().map(|s| s.op.clone()).collect(), rest[n2].op == Op::Commit))
}

struct Tk { w: World, t1: u64, t1_ok: Vec<Op>, t1_eids: Vec<u64>, t2_ops: Vec<Op>, commit: bool, probes: Vec<Probe>, out: Vec<Finding>, alive: bool }

/// Row-lock takeover after expiry.  Phase 1 (every scenario, own table on ONE engine with lock timeout 1 s):
/// T1 executes its statements and stays active.  Then the single sleep.  Phase 2 (scenario by scenario, each
/// within microseconds): T2's statements, T2's end, the lock-table / view checks and T3.
fn check_takeover(scs: &[Script], st: &mut Stats) -> Vec<Vec<Finding>> {
    let cx = Ctx::new(TAKEOVER_LOCK_SECS);
    let mut tks: Vec<Tk> = vec![];
    for sc in scs {
        let (t1_ops, t2_ops, commit) = takeover_shape(sc).unwrap_or_else(|e| die(&e));
        let w = World::new(&cx, sc.idx, max_eid_of(sc));
        let mut out = vec![];
        let t1 = w.eng.begin_transaction();
        st.evals += 1;
        let mut t1_ok = vec![];
        let mut alive = true;
        for op in &t1_ops {
            let v0 = w.view().unwrap_or_else(|e| die(&e));
            let matched: Vec<u64> = match op { Op::Upd { c, .. } | Op::Del { c } => v0.iter().filter(|r| c.m(r.id)).map(|r| r.eid).collect(), _ => vec![] };
            let r = w.call(t1, op);
            st.evals += 1; st.nontrivial += 1;
            let h1 = w.holders();
            let own = matches!(r, Res::Ok(_)) && matched.iter().all(|e| h1.get(*e as usize - 1).copied().flatten() == Some(t1));
            chk(&mut out, OB_KER, own, || format!("takeover phase 1: T1 {op:?} -> {r:?} on a table nobody else uses must succeed and own the matched rows {matched:?}; holders {h1:?}"));
            if own { t1_ok.push(op.clone()); } else { alive = false; }
        }
        let t1_eids: Vec<u64> = w.holders().iter().enumerate().filter(|(_, h)| **h == Some(t1)).map(|(i, _)| i as u64 + 1).collect();
        if t1_eids.is_empty() { alive = false; }
        tks.push(Tk { w, t1, t1_ok, t1_eids, t2_ops, commit, probes: probes_for(sc), out, alive });
    }
    // the one sleep: afterwards more than the lock timeout has elapsed since every T1 statement
    std::thread::sleep(std::time::Duration::from_millis(TAKEOVER_SLEEP_MS));
    for tk in &mut tks {
        if !tk.alive { continue; }
        let (w, out) = (&tk.w, &mut tk.out);
        let tm = w.eng.tx_manager();
        let mut spins = 0u64;
        while tk.t1_eids.iter().any(|e| tm.is_row_locked(&w.tbl, *e)) && spins < 50_000_000 { spins += 1; std::hint::spin_loop(); }
        let h0 = w.holders();
        let expired = tk.t1_eids.iter().all(|e| !tm.is_row_locked(&w.tbl, *e)) && h0.iter().all(Option::is_none) && w.eng.is_transaction_active(tk.t1);
        chk(out, OB_TO, expired, || format!("lock timeout {TAKEOVER_LOCK_SECS} s: {TAKEOVER_SLEEP_MS} ms after T1's statements its locks on engine rows {:?} must be reported expired (T1 still active); holders {h0:?}", tk.t1_eids));
        if !expired { continue; }
        // model: T1's statements are applied (T1 is active), then T2's
        let mut rows = initial();
        let mut next = 4u64;
        for op in &tk.t1_ok { model_apply(&mut rows, &mut next, op); }
        let before_t2 = rows.clone();
        let lc0 = tm.active_lock_count();
        let t2 = w.eng.begin_transaction();
        st.evals += 1;
        // user ids of the rows T2 modified; engine row ids it locked; which of them it took over from T1
        let mut touched: BTreeSet<i64> = BTreeSet::new();
        let mut locked: BTreeSet<u64> = BTreeSet::new();
        let mut stmts_ok = true;
        for op in &tk.t2_ops {
            let v0 = w.view().unwrap_or_else(|e| die(&e));
            let hb = w.holders();
            let matched: Vec<MRow> = match op { Op::Upd { c, .. } | Op::Del { c } => v0.iter().filter(|r| c.m(r.id)).cloned().collect(), _ => vec![] };
            let want = if matches!(op, Op::Ins { .. }) { 1 } else { matched.len() as u64 };
            let r = w.call(t2, op);
            st.evals += 1; st.nontrivial += 1;
            let h1 = w.holders();
            chk(out, OB_TO, r == Res::Ok(want), || format!("T2 {op:?} -> {r:?}, expected Ok({want}): every lock on the addressed rows {:?} is expired or absent (holders {hb:?})", matched.iter().map(|m| m.eid).collect::<Vec<_>>()));
            if r != Res::Ok(want) { stmts_ok = false; break; }
            let own = matched.iter().all(|m| h1.get(m.eid as usize - 1).copied().flatten() == Some(t2));
            let frame = hb.iter().zip(h1.iter()).all(|(a, b)| a == b || (a.is_none() && *b == Some(t2)));
            chk(out, OB_KER, own && frame, || format!("after T2's successful {op:?} every matched row is owned by tx {t2} and no live owner changed; holders {hb:?} -> {h1:?}"));
            model_apply(&mut rows, &mut next, op);
            match op { Op::Ins { id, .. } => { touched.insert(*id); }, _ => for m in &matched { touched.insert(m.id); locked.insert(m.eid); } }
        }
        if !stmts_ok { let _ = w.eng.rollback(t2); continue; }
        let taken: Vec<u64> = locked.iter().copied().filter(|e| tk.t1_eids.contains(e)).collect();
        if taken.is_empty() { die("takeover scenario in which T2 addresses no row that T1 had locked"); }
        let held_mid = tm.locks_held_by(t2);
        let r_end = w.call(t2, if tk.commit { &Op::Commit } else { &Op::Rollback });
        st.evals += 1; st.nontrivial += 1;
        if !tk.commit { rows = before_t2; }
        let h1 = w.holders();
        let lh = tm.locks_held_by(t2);
        let lc1 = tm.active_lock_count();
        let still: Vec<u64> = locked.iter().copied().filter(|e| tm.is_row_locked(&w.tbl, *e)).collect();
        let released = matches!(r_end, Res::Ok(_)) && h1.iter().all(|h| *h != Some(t2)) && still.is_empty() && lh == 0 && lc1 <= lc0 && !w.eng.is_transaction_active(t2);
        chk(out, OB_TK, released, || format!("T2 (tx {t2}) locked engine rows {locked:?}, of which {taken:?} taken over from the expired T1 (tx {}), then {} -> {r_end:?}: afterwards no row may be locked by T2; holders {h1:?}; still locked {still:?}; locks_held_by(T2) {held_mid}->{lh}; active_lock_count before T2 {lc0}, after its end {lc1}",
                                                                   tk.t1, if tk.commit { "commit" } else { "rollback" }));
        let d = w.diff_view(&rows, false, &tk.probes);
        chk(out, OB_TK, d.is_none(), || format!("view after T2's {}: {}", if tk.commit { "commit" } else { "rollback" }, d.clone().unwrap_or_default()));
        // T3 updates and deletes every row T2 had modified
        let t3 = w.eng.begin_transaction();
        st.evals += 1;
        let mut t3_res = vec![];
        let mut t3_ok = true;
        for k in &touched {
            for op in [Op::Upd { c: Cond::Id(*k), tag: 31, mode: 1 }, Op::Del { c: Cond::Id(*k) }] {
                let want = rows.iter().filter(|r| r.id == *k).count() as u64;
                let r = w.call(t3, &op);
                st.evals += 1;
                if want > 0 { st.nontrivial += 1; }
                if r == Res::Ok(want) { model_apply(&mut rows, &mut next, &op); } else { t3_ok = false; }
                t3_res.push((*k, if matches!(op, Op::Upd { .. }) { "upd" } else { "del" }, r, want));
            }
        }
        chk(out, OB_TK, t3_ok, || format!("after T2 ended, T3 updating and deleting the rows T2 had modified (user id, statement, result, expected count): {t3_res:?}; holders before T3 {h1:?}"));
        let r3 = w.call(t3, &Op::Commit);
        st.evals += 1; st.nontrivial += 1;
        let h3 = w.holders();
        let d3 = if t3_ok { w.diff_view(&rows, false, &tk.probes) } else { None };
        chk(out, OB_TK, matches!(r3, Res::Ok(_)) && h3.iter().all(|h| *h != Some(t3) && *h != Some(t2)) && tm.locks_held_by(t3) == 0 && d3.is_none(),
            || format!("T3 commit -> {r3:?}; holders {h3:?}; locks_held_by(T3) {}; view: {d3:?}", tm.locks_held_by(t3)));
    }
    tks.into_iter().map(|t| t.out).collect()
}

/// T1's statement x T2's statements (one or two; taking over one row, several rows, one of two rows) x T2's end
fn takeover_scripts() -> Vec<Script> {
    let (a, b) = (0usize, 1usize);
    let t1s = [L::Upd(Cond::Id(1), 0), L::Upd(Cond::Le(2), 0), L::Upd(Cond::All, 1)];
    let t2s: Vec<Vec<L>> = vec![
        vec![L::Upd(Cond::Id(1), 0)], vec![L::Del(Cond::Id(1))], vec![L::Upd(Cond::Le(2), 0)], vec![L::Del(Cond::Le(2))], vec![L::Upd(Cond::All, 1)],
        vec![L::Upd(Cond::Id(2), 0), L::Upd(Cond::Id(1), 0)], vec![L::Ins(0), L::Upd(Cond::Id(1), 0)], vec![L::Upd(Cond::Id(1), 3)], vec![L::Upd(Cond::Id(1), 1), L::Del(Cond::Id(1))],
    ];
    let mut v = vec![];
    for idx in [0u8, 2] {
        for t1 in t1s {
            for t2 in &t2s {
                for commit in [true, false] {
                    let mut items = vec![Item::S(a, t1)];
                    items.extend(t2.iter().map(|l| Item::S(b, *l)));
                    items.push(Item::End(b, commit));
                    v.push(build(idx, &items));
                }
            }
        }
    }
    v
}

// --------------------------------------------------------------------------------------- generation

#[derive(Clone, Copy, Debug)]
enum L { Ins(u8), Upd(Cond, u8), Del(Cond) }

#[derive(Clone, Copy, Debug)]
enum Item { S(usize, L), Retry(usize), End(usize, bool) }

/// tags: statement j of tx t gets tag 10*(t+1)+1+j; an insert gets the next unused user id (4, 5, ...)
fn build(idx: u8, items: &[Item]) -> Script {
    let mut steps = vec![];
    let mut nstmt = [0i64; 3];
    let mut last: [Option<Op>; 3] = [None, None, None];
    let mut next_id = 4i64;
    for it in items {
        match *it {
            Item::S(t, l) => {
                let tag = 10 * (t as i64 + 1) + 1 + nstmt[t];
                nstmt[t] += 1;
                let op = match l {
                    L::Ins(mode) => { let id = next_id; next_id += 1; Op::Ins { id, tag, mode } },
                    L::Upd(c, mode) => Op::Upd { c, tag, mode },
                    L::Del(c) => Op::Del { c },
                };
                last[t] = Some(op.clone());
                steps.push(Step { tx: t, op });
            },
            Item::Retry(t) => if let Some(op) = &last[t] { if !matches!(op, Op::Ins { .. }) { steps.push(Step { tx: t, op: op.clone() }); } },
            Item::End(t, commit) => steps.push(Step { tx: t, op: if commit { Op::Commit } else { Op::Rollback } }),
        }
    }
    Script { idx, steps }
}

fn alpha8() -> Vec<L> {
    let mut v = vec![L::Ins(0)];
    for k in 1..=3 { v.push(L::Upd(Cond::Id(k), 0)); }
    for k in 1..=3 { v.push(L::Del(Cond::Id(k))); }
    v.push(L::Upd(Cond::All, 1));
    v
}
fn alpha10() -> Vec<L> { let mut v = alpha8(); v.push(L::Upd(Cond::Id(4), 0)); v.push(L::Del(Cond::Id(4))); v }
/// updates that assign to an indexed column the value a row ALREADY holds: name='a' where id=1 / all rows
/// (rows 1 and 3 hold 'a'), score=1.0 where id=1 / all rows (row 1 holds 1.0)
fn same4() -> Vec<L> { vec![L::Upd(Cond::Id(1), 3), L::Upd(Cond::All, 3), L::Upd(Cond::Id(1), 4), L::Upd(Cond::All, 4)] }
fn is_same(l: &L) -> bool { matches!(l, L::Upd(Cond::Id(1) | Cond::All, 3) | L::Upd(_, 4)) }
fn with_same4(mut v: Vec<L>) -> Vec<L> { v.extend(same4()); v }
fn alpha_ext() -> Vec<L> {
    let mut v = alpha10();
    v.extend([L::Ins(1), L::Upd(Cond::Id(1), 2), L::Upd(Cond::Id(2), 3), L::Upd(Cond::All, 3), L::Del(Cond::All), L::Upd(Cond::Le(2), 0), L::Del(Cond::Le(2))]);
    v
}

fn sequences(alpha: &[L], maxlen: usize) -> Vec<Vec<L>> {
    let mut out = vec![vec![]];
    let mut frontier: Vec<Vec<L>> = vec![vec![]];
    for _ in 0..maxlen {
        let mut next = vec![];
        for s in &frontier { for l in alpha { let mut n = s.clone(); n.push(*l); next.push(n); } }
        out.extend(next.iter().cloned());
        frontier = next;
    }
    out
}

struct Runner { rep: Report, cx: Ctx, buf: Vec<Finding>, st: Stats, scripts: u64, failing: BTreeMap<&'static str, u64> }

impl Runner {
    fn run(&mut self, sc: &Script) {
        self.buf.clear();
        // dropped tables are not fully reclaimed by the engine: start a new shared engine now and then
        if self.scripts % 20_000 == 19_999 { self.cx = Ctx::new(LONG_SECS); }
        check_script(&self.cx, sc, &mut self.buf, &mut self.st);
        self.scripts += 1;
        let kept = |rep: &Report, ob: &str| rep.obligations.get(ob).map_or(0, |o| o.failures.len()) < 25;
        if self.buf.iter().any(|f| !f.ok && kept(&self.rep, f.ob)) {
            // every failure whose case is kept in the report must reproduce from scratch (as `replay` does):
            // re-evaluate the script on a brand-new engine
            let mut again = vec![];
            let mut st = Stats::default();
            check_script(&Ctx::new(LONG_SECS), sc, &mut again, &mut st);
            let sig = |v: &[Finding]| v.iter().map(|f| (f.ob, f.ok)).collect::<Vec<_>>();
            if sig(&again) != sig(&self.buf) { die(&format!("shared-engine and fresh-engine evaluation differ for {}", sc.to_json())); }
            self.buf = again;
        }
        for f in &self.buf {
            self.rep.check(f.ob, f.ok, &|| sc.to_json(), &|| f.detail.clone());
            if !f.ok { *self.failing.entry(f.ob).or_insert(0) += 1; }
        }
        if self.scripts % 40_001 == 7 && self.rep.samples.len() < 4 { self.rep.sample(sc.to_json()); }
    }
}

pub fn run(tier: Tier, seed: u64) -> Report {
    let thorough = tier == Tier::Thorough;
    let common = "table t(id Int, name String?, score Float?), rows (1,'a',1.0),(2,'b',2.0),(3,'a',NULL); index configuration 0 = hash(name)+btree(score) created before the rows, 1 = hash(score)+btree(name), 2 = both kinds on both columns, 3 = like 0 but created after the rows. \
        Letters: 8 = {insert fresh row, update(name,score) where id=k, delete where id=k (k=1..3), update(score) all rows}; 10 = 8 + update/delete where id=4 (first inserted row); \
        17 = 10 + {insert with NULL name and omitted score, set name NULL where id=1, set name='a' where id=2, set name='a' all, delete all, update/delete where id<=2}; \
        S4 = the updates that assign the value a row already holds {set name='a' where id=1, set name='a' all rows, set score=1.0 where id=1, set score=1.0 all rows}; 14 = 10 + S4, 12 = 8 + S4. \
        After every commit/rollback the table and indexed reads are compared with the model: hash index Eq on every value the script can write + the initial ones, btree index ranges and btree equality (col >= x AND col <= x) on the initial values (name 'a','b'; score 1.0, 2.0). \
        A transaction begins right before its first statement; every script ends every transaction by commit or rollback (all combinations). ";
    let specific = if thorough {
        "(1) every single-transaction script of <= 3 statements over the 17 letters x 4 index configurations, and of exactly 4 statements x configurations {0,2}; \
         (2) every A script of <= 3 statements over the 8 letters with one statement of B (10 letters) at every position, B ending at once / after A ended / after retrying its statement once A ended; every A script of 4 statements over 6 letters (k=1,2) with one of 5 B statements, 2 B shapes; \
         (3) two statements of B at every pair of positions: A <= 2 statements over 8 letters, B over 6 letters, 3 shapes; A of 3 statements over 6 letters, B over 4 letters, 2 shapes; \
         (4) 3 lock-timeout-0 cases; (5) 150000 seeded random scripts of 2-3 transactions A,B,C with 1-3 statements each over the 17 letters, random index configuration, occasional retry and call on a finished transaction (not exhaustive)"
    } else {
        "(1) every single-transaction script of <= 3 statements over the 14 letters x index configurations {0,2}; \
         (2) every A script of <= 2 statements over the 8 letters with one statement of B (10 letters) at every position, and every A script of 3 statements with one of 5 B statements {insert, update id=1, delete id=1, update all, delete id=4} at every position; B ends at once or retries its statement after A ended; \
         (3) 3 lock-timeout-0 cases"
    };
    let both = format!("; in both tiers: (S1) every single-transaction script of 1..3 statements over the 14 letters with >= 1 S4 letter x index configurations {}; \
         (S2) every A script of <= 2 statements over the 12 letters with one statement of B ({{insert, update id=1, delete id=1, update all, delete id=4}} + S4) at every position, >= 1 S4 letter in A or B; (S3) every A script of 3 statements over {{update id=1, delete id=1}} + S4 with one B statement of {{update id=1, set score=1.0 all rows}} at every position, >= 1 S4 letter; B ends at once or retries its statement after A ended; \
         (T) row-lock takeover after expiry, lock timeout 1 s, ONE sleep of 1.1 s for all scenarios: T1 in {{update id=1, update id<=2, update all}} never ends; T2 in {{update id=1, delete id=1, update id<=2, delete id<=2, update all, update id=2 then id=1, insert then update id=1, set name='a' where id=1, update then delete id=1}} x {{commit, rollback}} x configurations {{0,2}}; then T3 updates and deletes every row T2 modified",
        if thorough { "{0,1,2,3}" } else { "{1} ({0,2} are part of (1))" });
    let domain = &format!("{common}{specific}{both}");
    let rep = Report::new("c09_reltx", domain, true,
        &["relational_engine::RelationalEngine::begin_transaction", "tx_insert", "tx_update", "tx_delete", "tx_select", "commit", "rollback",
          "TransactionManager::row_lock_holder", "active_lock_count", "locks_held_by", "is_row_locked"]);
    let mut rn = Runner { rep, cx: Ctx::new(LONG_SECS), buf: vec![], st: Stats::default(), scripts: 0, failing: BTreeMap::new() };
    for o in ALL_OBS {
        let f = match o {
            OB_RB | OB_RB_I => "RelationalEngine::rollback",
            OB_CM | OB_CM_I => "RelationalEngine::commit",
            OB_PH => "RelationalEngine::{tx_insert,tx_update,tx_delete,tx_select,commit,rollback}",
            OB_REL | OB_TK => "RelationalEngine::{commit,rollback}",
            _ => "RelationalEngine::{tx_update,tx_delete}",
        };
        rn.rep.declare(o, f);
    }
    let (a, b) = (0usize, 1usize);

    // (1) single transaction
    // (bool: only the sequences with >= 1 "value already held" letter, the others are covered by another entry)
    let a14 = with_same4(alpha10());
    let solo: Vec<(Vec<L>, usize, usize, Vec<u8>, bool)> = if thorough {
        vec![(alpha_ext(), 0, 3, vec![0, 1, 2, 3], false), (alpha_ext(), 4, 4, vec![0, 2], false), (a14.clone(), 1, 3, vec![0, 1, 2, 3], true)]
    } else {
        vec![(a14.clone(), 0, 3, vec![0, 2], false), (a14.clone(), 1, 3, vec![1], true)]
    };
    for (alpha, lo, hi, idxs, only_same) in &solo {
        for seq in sequences(alpha, *hi).into_iter().filter(|s| s.len() >= *lo && (!*only_same || s.iter().any(is_same))) {
            for &idx in idxs {
                for end in [true, false] {
                    let mut items: Vec<Item> = seq.iter().map(|l| Item::S(a, *l)).collect();
                    items.push(Item::End(a, end));
                    rn.run(&build(idx, &items));
                }
            }
        }
    }
    rn.rep.sample(build(0, &[Item::S(a, L::Ins(0)), Item::S(a, L::Upd(Cond::Id(1), 0)), Item::S(a, L::Del(Cond::Id(2))), Item::End(a, false)]).to_json());

    // (2) one statement of B at every position of A's script
    let b5 = vec![L::Ins(0), L::Upd(Cond::Id(1), 0), L::Del(Cond::Id(1)), L::Upd(Cond::All, 1), L::Del(Cond::Id(4))];
    let a6 = vec![L::Ins(0), L::Upd(Cond::Id(1), 0), L::Upd(Cond::Id(2), 0), L::Del(Cond::Id(1)), L::Del(Cond::Id(2)), L::Upd(Cond::All, 1)];
    // (bool: only the scripts with >= 1 "value already held" letter in A or B)
    let a6s = vec![L::Upd(Cond::Id(1), 0), L::Del(Cond::Id(1)), L::Upd(Cond::Id(1), 3), L::Upd(Cond::All, 3), L::Upd(Cond::Id(1), 4), L::Upd(Cond::All, 4)];
    let b2s = vec![L::Upd(Cond::Id(1), 0), L::Upd(Cond::All, 4)];
    let mut one_b: Vec<(Vec<L>, usize, usize, Vec<L>, Vec<u8>, bool)> = if thorough {
        vec![(alpha8(), 0, 3, alpha10(), vec![0, 1, 2], false), (a6.clone(), 4, 4, b5.clone(), vec![0, 2], false)]
    } else {
        vec![(alpha8(), 0, 2, alpha10(), vec![0, 2], false), (alpha8(), 3, 3, b5.clone(), vec![0, 2], false)]
    };
    one_b.push((with_same4(alpha8()), 0, 2, with_same4(b5.clone()), vec![0, 2], true));
    one_b.push((a6s, 3, 3, b2s, vec![0, 2], true));
    for (alpha, lo, hi, b_alpha, shapes, only_same) in &one_b {
        for seq in sequences(alpha, *hi).into_iter().filter(|s| s.len() >= *lo) {
            for p in 0..=seq.len() {
                for bl in b_alpha {
                    if *only_same && !is_same(bl) && !seq.iter().any(is_same) { continue; }
                    for &shape in shapes {
                        for a_end in [true, false] {
                            for b_end in [true, false] {
                                let mut items: Vec<Item> = seq[..p].iter().map(|l| Item::S(a, *l)).collect();
                                items.push(Item::S(b, *bl));
                                if shape == 0 { items.push(Item::End(b, b_end)); }
                                items.extend(seq[p..].iter().map(|l| Item::S(a, *l)));
                                items.push(Item::End(a, a_end));
                                if shape == 2 { items.push(Item::Retry(b)); }
                                if shape != 0 { items.push(Item::End(b, b_end)); }
                                rn.run(&build(0, &items));
                            }
                        }
                    }
                }
            }
        }
    }

    // (4) lock timeout 0
    for kind in ["upd", "del", "updall"] {
        rn.buf.clear();
        check_timeout0(kind, &mut rn.buf, &mut rn.st);
        for f in &rn.buf { rn.rep.check(f.ob, f.ok, &|| json!({"timeout0": kind}), &|| f.detail.clone()); }
    }

    // (6) row-lock takeover after expiry (lock timeout 1 s, ONE sleep for all scenarios)
    let tk = takeover_scripts();
    let outs = check_takeover(&tk, &mut rn.st);
    for (sc, fs) in tk.iter().zip(outs.iter()) {
        for f in fs {
            rn.rep.check(f.ob, f.ok, &|| takeover_json(sc), &|| f.detail.clone());
            if !f.ok { *rn.failing.entry(f.ob).or_insert(0) += 1; }
        }
    }

    if thorough {
        // (3) two statements of B at every pair of positions
        let b6 = vec![L::Ins(0), L::Upd(Cond::Id(1), 0), L::Del(Cond::Id(1)), L::Upd(Cond::Id(2), 0), L::Upd(Cond::All, 1), L::Del(Cond::Id(4))];
        let b4 = vec![L::Upd(Cond::Id(1), 0), L::Del(Cond::Id(1)), L::Upd(Cond::All, 1), L::Del(Cond::Id(4))];
        let two_b: Vec<(Vec<L>, usize, usize, Vec<L>, Vec<u8>)> = vec![(alpha8(), 0, 2, b6, vec![0, 1, 2]), (a6.clone(), 3, 3, b4, vec![0, 2])];
        for (alpha, lo, hi, b_alpha, shapes) in &two_b {
            for seq in sequences(alpha, *hi).into_iter().filter(|s| s.len() >= *lo) {
                for p1 in 0..=seq.len() {
                    for p2 in p1..=seq.len() {
                        for b1 in b_alpha {
                            for b2 in b_alpha {
                                for &shape in shapes {
                                    for a_end in [true, false] {
                                        for b_end in [true, false] {
                                            let mut items: Vec<Item> = seq[..p1].iter().map(|l| Item::S(a, *l)).collect();
                                            items.push(Item::S(b, *b1));
                                            items.extend(seq[p1..p2].iter().map(|l| Item::S(a, *l)));
                                            items.push(Item::S(b, *b2));
                                            if shape == 0 { items.push(Item::End(b, b_end)); }
                                            items.extend(seq[p2..].iter().map(|l| Item::S(a, *l)));
                                            items.push(Item::End(a, a_end));
                                            if shape == 2 { items.push(Item::Retry(b)); }
                                            if shape != 0 { items.push(Item::End(b, b_end)); }
                                            rn.run(&build(0, &items));
                                        }
                                    }
                                }
                            }
                        }
                    }
                }
            }
        }
        // (5) seeded random scripts of three transactions (beyond the exhaustive core)
        let ext = alpha_ext();
        let mut rng = Rng(seed ^ 0xC09);
        for _ in 0..150_000 {
            let mut remaining: Vec<Vec<Item>> = (0..3).map(|t| {
                let n = 1 + rng.below(3) as usize;
                let mut v: Vec<Item> = (0..n).map(|_| Item::S(t, ext[rng.below(ext.len() as u64) as usize])).collect();
                if rng.below(4) == 0 { v.push(Item::Retry(t)); }
                v.push(Item::End(t, rng.below(2) == 0));
                if rng.below(8) == 0 { v.push(Item::S(t, ext[rng.below(ext.len() as u64) as usize])); } // call on a finished tx
                v.reverse();
                v
            }).collect();
            let ntx = 2 + rng.below(2) as usize;
            remaining.truncate(ntx);
            let mut items = vec![];
            while remaining.iter().any(|v| !v.is_empty()) {
                let t = rng.below(ntx as u64) as usize;
                if let Some(it) = remaining[t].pop() { items.push(it); }
            }
            rn.run(&build(rng.below(4) as u8, &items));
        }
    }
    // the framework caps failure_count at 26: keep the exact totals as a sample
    rn.rep.sample(json!({"scripts": rn.scripts, "failing_checks_total": rn.failing.iter().map(|(k, v)| ((*k).to_string(), json!(v))).collect::<serde_json::Map<String, J>>()}));
    rn.rep.evaluations = rn.st.evals;
    rn.rep.nontrivial = rn.st.nontrivial;
    rn.rep
}

pub fn replay(ob: &str, case: &J) -> Result<String, String> {
    let mut out = vec![];
    let mut st = Stats::default();
    if let Some(k) = case.get("timeout0").and_then(J::as_str) {
        check_timeout0(k, &mut out, &mut st);
    } else if case.get("takeover").and_then(J::as_bool) == Some(true) {
        // (sleeps 1.1 s once: the lock timeout of the takeover scenarios is 1 s)
        let sc = Script::from_json(case).map_err(|e| format!("bad case json: {e}"))?;
        takeover_shape(&sc).map_err(|e| format!("bad case json: {e}"))?;
        out = check_takeover(&[sc], &mut st).pop().unwrap_or_default();
    } else {
        let sc = Script::from_json(case).map_err(|e| format!("bad case json: {e}"))?;
        check_script(&Ctx::new(LONG_SECS), &sc, &mut out, &mut st);
    }
    let mine: Vec<&Finding> = out.iter().filter(|f| f.ob == ob).collect();
    if let Some(f) = mine.iter().find(|f| !f.ok) { return Err(f.detail.clone()); }
    if mine.is_empty() { Ok(format!("{ob} is not exercised by this case ({} other checks)", out.len())) }
    else { Ok(format!("{} checks of {ob} hold on this case ({} real calls)", mine.len(), st.evals)) }
}
